//go:build verif

package ir

import (
	"github.com/llir/llvm/ir/constant"
	"github.com/llir/llvm/ir/types"
	"github.com/llir/llvm/ir/value"
)

// C07: getelementptr result types.  The instruction constructor and the
// constant-expression constructor are compared with a reference written from
// the LangRef, for every index form named in the property.

// index forms
const (
	hIdxInt       = iota // iN constant of symbolic width and value
	hIdxBool             // i1 true
	hIdxZeroS            // zeroinitializer, scalar
	hIdxUndefS           // undef, scalar
	hIdxExpr             // constant expression (ptrtoint), scalar
	hIdxInRange          // inrange-wrapped integer (constant expression form only)
	hIdxParamS           // non-constant scalar (instruction only)
	hIdxZeroV            // zeroinitializer of vector type
	hIdxSplatV           // splat constant vector
	hIdxMixedV           // non-splat constant vector
	hIdxUndefV           // undef of vector type
	hIdxPoisonV          // poison of vector type
	hIdxParamV           // non-constant vector (instruction only)
	hIdxElemUndefV       // constant vector with an undef element
	hIdxElemPoisonV      // constant vector with a poison element
	hIdxElemExprV        // constant vector with a constant-expression element
	hIdxBoolV            // constant vector of i1
	hIdxForms
)

type hGEP struct {
	vl       uint64 // common vector length (symbolic)
	scalable bool   // whether vectors are scalable
	anyVec   bool   // some operand is a vector
}

func (g *hGEP) vecTy(elem types.Type) *types.VectorType {
	return &types.VectorType{Len: g.vl, ElemType: elem, Scalable: g.scalable}
}

// index returns the index value of the given form (nil if the form does not
// exist as a constant) and whether it is constant.
func (g *hGEP) index(name string, form int) (value.Value, bool) {
	w := uint64(vfByte(name + ".bits"))
	vfAssume(vfAnd(w >= 2, w <= 64))
	it := types.NewInt(w)
	v := int64(vfByte(name + ".val"))
	vfAssume(v < 2)
	switch form {
	case hIdxInt:
		return constant.NewInt(it, v), true
	case hIdxBool:
		return constant.True, true
	case hIdxZeroS:
		return constant.NewZeroInitializer(it), true
	case hIdxUndefS:
		return constant.NewUndef(it), true
	case hIdxExpr:
		return constant.NewPtrToInt(constant.NewNull(types.I8Ptr), it), true
	case hIdxInRange:
		return constant.NewIndex(constant.NewInt(it, v)), true
	case hIdxParamS:
		return NewParam(name, it), false
	}
	g.anyVec = true
	vt := g.vecTy(it)
	switch form {
	case hIdxZeroV:
		return constant.NewZeroInitializer(vt), true
	case hIdxSplatV, hIdxMixedV:
		if g.scalable {
			vfCut("constant vectors with explicit elements are fixed-length")
		}
		// explicit elements need a concrete length: 2 elements
		vfAssume(g.vl == 2)
		e0 := constant.NewInt(it, v)
		e1 := e0
		if form == hIdxMixedV {
			e1 = constant.NewInt(it, v+1)
		}
		return constant.NewVector(vt, e0, e1), true
	case hIdxElemUndefV, hIdxElemPoisonV, hIdxElemExprV, hIdxBoolV:
		if g.scalable {
			vfCut("constant vectors with explicit elements are fixed-length")
		}
		vfAssume(g.vl == 2)
		var e1 constant.Constant
		switch form {
		case hIdxElemUndefV:
			e1 = constant.NewUndef(it)
		case hIdxElemPoisonV:
			e1 = constant.NewPoison(it)
		case hIdxElemExprV:
			e1 = constant.NewPtrToInt(constant.NewNull(types.I8Ptr), it)
		default:
			return constant.NewVector(g.vecTy(types.I1), constant.True, constant.False), true
		}
		return constant.NewVector(vt, constant.NewInt(it, v), e1), true
	case hIdxUndefV:
		return constant.NewUndef(vt), true
	case hIdxPoisonV:
		return constant.NewPoison(vt), true
	default:
		return NewParam(name, vt), false
	}
}

// VfC07_GEP
//
//vf:unwind 200
//vf:shards 16
func VfC07_GEP() {
	g := &hGEP{}
	g.vl = uint64(vfByte("vl"))
	vfAssume(g.vl >= 1)
	g.scalable = vfBool("scalable")
	// source element type: { iA, [n x { iB, float }], <{ i8, iC }> }
	a, b, c := hIntTy("a"), hIntTy("b"), hIntTy("c")
	n := uint64(vfByte("arr.len"))
	inner := types.NewStruct(b, types.Float)
	arr := types.NewArray(n, inner)
	packed := &types.StructType{Fields: []types.Type{types.I8, c}, Packed: true}
	T := types.NewStruct(a, arr, packed)
	as := types.AddrSpace(vfByte("as"))
	pt := &types.PointerType{ElemType: T, AddrSpace: as}
	// base: pointer or vector of pointers
	var baseT types.Type = pt
	if vfChoice("base.isvec", 2) == 1 {
		baseT = g.vecTy(pt)
		g.anyVec = true
	}
	// index list shape
	shape := vfChoice("shape", 8)
	f0 := 0
	var idx []value.Value
	allConst := true
	if shape != 7 {
		f0 = vfChoice("i0.form", hIdxForms)
		i0, c0 := g.index("i0", f0)
		idx = []value.Value{i0}
		allConst = c0
	}
	var reached types.Type = T
	field := func(k int64) value.Value { return constant.NewInt(types.I32, k) }
	switch shape {
	case 0:
	case 7:
		// no index at all (`getelementptr T, T* %p`, valid LLVM): the base type
	case 1:
		idx = append(idx, field(0))
		reached = a
	case 2, 3:
		f1 := vfChoice("i1.form", hIdxForms)
		i1, c1 := g.index("i1", f1)
		allConst = allConst && c1
		idx = append(idx, field(1), i1)
		reached = inner
		if shape == 3 {
			idx = append(idx, field(1))
			reached = types.Float
		}
	case 4:
		idx = append(idx, field(2), field(1))
		reached = c
	case 5:
		// struct field selected by a vector-typed index: zeroinitializer (field 0)
		g.anyVec = true
		idx = append(idx, constant.NewZeroInitializer(g.vecTy(types.I32)))
		reached = a
	default:
		// struct field selected by a splat vector literal (fixed length 2)
		if g.scalable {
			vfCut("constant vectors with explicit elements are fixed-length")
		}
		vfAssume(g.vl == 2)
		g.anyVec = true
		one := constant.NewInt(types.I32, 1)
		two := constant.NewInt(types.I32, 1)
		idx = append(idx, constant.NewVector(g.vecTy(types.I32), one, two), field(0))
		reached = inner
	}
	// reference
	var want types.Type = &types.PointerType{ElemType: reached, AddrSpace: as}
	if g.anyVec {
		want = &types.VectorType{Len: g.vl, ElemType: want, Scalable: g.scalable}
	}
	vfReach("C07.gep")
	if f0 != hIdxInRange {
		inRangeUsed := false
		for _, ix := range idx {
			if _, ok := ix.(*constant.Index); ok {
				inRangeUsed = true
			}
		}
		if !inRangeUsed {
			got := NewGetElementPtr(T, NewParam("base", baseT), idx...).Type()
			vfKnown("C07.scalable-gep", vfAnd(g.anyVec, g.scalable))
			vfAssert("C07.inst.type", hTySame(got, want))
		}
	}
	if allConst {
		var cidx []constant.Constant
		for _, ix := range idx {
			cidx = append(cidx, ix.(constant.Constant))
		}
		gotc := constant.NewGetElementPtr(T, constant.NewUndef(baseT), cidx...).Type()
		vfKnown("C07.scalable-gep", vfAnd(g.anyVec, g.scalable))
		vfAssert("C07.expr.type", hTySame(gotc, want))
	}
}
