//go:build verif

package types

// C16: type equality is a structural equivalence: reflexive, symmetric,
// transitive, agrees with a reference structural comparison (identified
// structs by name, everything else by structure), terminates on recursive
// types.

// hLeaf builds a leaf type: 0 int, 1 float, 2 metadata, 3 void, 4 mmx,
// 5 label, 6 token.  Scalars are symbolic.
func hLeaf(name string, k int) Type {
	switch k {
	case 0:
		w := uint64(vfByte(name + ".bits"))
		vfAssume(vfAnd(w >= 1, w < 100))
		return &IntType{BitSize: w}
	case 1:
		fk := vfByte(name + ".fkind")
		vfAssume(fk <= 6)
		return &FloatType{Kind: FloatKind(fk)}
	case 2:
		return &MetadataType{}
	case 3:
		return &VoidType{}
	case 4:
		return &MMXType{}
	case 5:
		return &LabelType{}
	default:
		return &TokenType{}
	}
}

func hName(name string) string {
	s := vfString(name, 1)
	vfAssume(vfAnd(s[0] >= 'a', s[0] <= 'c'))
	return s
}

// hShape builds the type number idx of the universe (children are leaves of
// kinds int/float/metadata, void additionally as function result).  nmax is
// the maximal number of parameters / fields.
func hShapes(nmax int) int {
	// 7 leaves + 3*3 (ptr, vec, arr) + func 4*(1+3[+9]) + struct literal (1+3[+9]) + identified 1 + recursive 2
	lists := 1 + 3
	if nmax >= 2 {
		lists += 9
	}
	return 7 + 9 + 4*lists + lists + 1 + 2
}

func hList(name string, idx int) []Type {
	// idx 0: empty; 1..3: one element; 4..12: two elements
	if idx == 0 {
		return nil
	}
	if idx <= 3 {
		return []Type{hLeaf(name+".e0", idx-1)}
	}
	idx -= 4
	return []Type{hLeaf(name+".e0", idx/3), hLeaf(name+".e1", idx%3)}
}

func hShape(name string, idx int, nmax int) Type {
	lists := 1 + 3
	if nmax >= 2 {
		lists += 9
	}
	if idx < 7 {
		return hLeaf(name, idx)
	}
	idx -= 7
	if idx < 9 {
		el := hLeaf(name+".elem", idx%3)
		switch idx / 3 {
		case 0:
			as := uint64(vfByte(name + ".as"))
			vfAssume(as < 100)
			return &PointerType{ElemType: el, AddrSpace: AddrSpace(as)}
		case 1:
			n := uint64(vfByte(name + ".len"))
			vfAssume(vfAnd(n >= 1, n < 100))
			return &VectorType{Len: n, ElemType: el, Scalable: vfBool(name + ".scalable")}
		default:
			n := uint64(vfByte(name + ".len"))
			vfAssume(n < 100)
			return &ArrayType{Len: n, ElemType: el}
		}
	}
	idx -= 9
	if idx < 4*lists {
		var ret Type
		if idx/lists == 3 {
			ret = &VoidType{}
		} else {
			ret = hLeaf(name+".ret", idx/lists)
		}
		return &FuncType{RetType: ret, Params: hList(name+".p", idx%lists), Variadic: vfBool(name + ".variadic")}
	}
	idx -= 4 * lists
	if idx < lists {
		return &StructType{Fields: hList(name+".f", idx), Packed: vfBool(name + ".packed")}
	}
	idx -= lists
	switch idx {
	case 0:
		// identified struct with a fixed body (names are unique in a universe:
		// equal names denote the same type)
		return &StructType{TypeName: hName(name + ".name"), Fields: []Type{&IntType{BitSize: 32}}}
	case 1:
		// self-referential: %n = type { %n* }
		t := &StructType{TypeName: hName(name + ".name")}
		t.Fields = []Type{&PointerType{ElemType: t}}
		return t
	default:
		// pointer to a member of a mutually recursive pair
		a := &StructType{TypeName: hName(name + ".name")}
		b := &StructType{TypeName: "z"}
		a.Fields = []Type{&PointerType{ElemType: b}}
		b.Fields = []Type{&PointerType{ElemType: a}}
		return &PointerType{ElemType: a}
	}
}

func hRefList(a, b []Type) bool {
	if len(a) != len(b) {
		return false
	}
	r := true
	for i := range a {
		r = vfAnd(r, hRef(a[i], b[i]))
	}
	return r
}

// hRef is the reference: LLVM type identity.
func hRef(t, u Type) bool {
	switch t := t.(type) {
	case *VoidType:
		_, ok := u.(*VoidType)
		return ok
	case *MMXType:
		_, ok := u.(*MMXType)
		return ok
	case *LabelType:
		_, ok := u.(*LabelType)
		return ok
	case *TokenType:
		_, ok := u.(*TokenType)
		return ok
	case *MetadataType:
		_, ok := u.(*MetadataType)
		return ok
	case *IntType:
		if u, ok := u.(*IntType); ok {
			return t.BitSize == u.BitSize
		}
	case *FloatType:
		if u, ok := u.(*FloatType); ok {
			return t.Kind == u.Kind
		}
	case *PointerType:
		if u, ok := u.(*PointerType); ok {
			return vfAnd(t.AddrSpace == u.AddrSpace, hRef(t.ElemType, u.ElemType))
		}
	case *VectorType:
		if u, ok := u.(*VectorType); ok {
			return vfAnd(vfAnd(t.Len == u.Len, t.Scalable == u.Scalable), hRef(t.ElemType, u.ElemType))
		}
	case *ArrayType:
		if u, ok := u.(*ArrayType); ok {
			return vfAnd(t.Len == u.Len, hRef(t.ElemType, u.ElemType))
		}
	case *FuncType:
		if u, ok := u.(*FuncType); ok {
			return vfAnd(vfAnd(t.Variadic == u.Variadic, hRef(t.RetType, u.RetType)), hRefList(t.Params, u.Params))
		}
	case *StructType:
		if u, ok := u.(*StructType); ok {
			if len(t.TypeName) > 0 {
				return t.TypeName == u.TypeName
			}
			if len(u.TypeName) > 0 {
				return false
			}
			return vfAnd(t.Packed == u.Packed, hRefList(t.Fields, u.Fields))
		}
	}
	return false
}

func hNmax() int {
	if vfTier() > 0 {
		return 2
	}
	return 1
}

// VfC16_Pairs: all ordered pairs of the depth-1 universe.
//
//vf:unwind 200
//vf:shards 16
func VfC16_Pairs() {
	nmax := hNmax()
	n := hShapes(nmax)
	ti := vfChoice("t.shape", n)
	ui := vfChoice("u.shape", n)
	t := hShape("t", ti, nmax)
	u := hShape("u", ui, nmax)
	vfReach("C16.pairs")
	tu := Equal(t, u)
	ut := Equal(u, t)
	vfObserveBool("tu", tu)
	vfAssert("C16.agrees-with-llvm-identity", tu == hRef(t, u))
	vfAssert("C16.symmetric", tu == ut)
	vfAssert("C16.reflexive", Equal(t, t))
}

// VfC16_Triples: transitivity on triples that share a shape (types of
// different shapes are never equal once VfC16_Pairs holds) with independent
// symbolic attributes.
//
//vf:unwind 200
//vf:shards 8
func VfC16_Triples() {
	nmax := hNmax()
	n := hShapes(nmax)
	i := vfChoice("shape", n)
	t := hShape("t", i, nmax)
	u := hShape("u", i, nmax)
	v := hShape("v", i, nmax)
	vfReach("C16.triples")
	tu, uv, tv := Equal(t, u), Equal(u, v), Equal(t, v)
	vfAssert("C16.transitive", vfImp(vfAnd(tu, uv), tv))
}

// VfC16_Deep: a depth-4 type (pointer to function returning a vector of
// pointers to arrays of packed structs) against a copy in which exactly one
// attribute, chosen by forking, is symbolic: equality must hold exactly when
// the attribute has the original value ("distinguishes any two types that
// differ in one attribute").
//
//vf:unwind 200
func VfC16_Deep() {
	k := vfChoice("attr", 10)
	mk := func(sym bool) Type {
		pick := func(i int, name string, orig uint64) uint64 {
			if sym {
				if k == i {
					v := uint64(vfByte(name))
					vfAssume(v < 100)
					return v
				}
			}
			return orig
		}
		pickB := func(i int, name string, orig bool) bool {
			if sym {
				if k == i {
					return vfBool(name)
				}
			}
			return orig
		}
		fk := pick(1, "u.fkind", 3)
		vfAssume(fk <= 6)
		inner := &StructType{Fields: []Type{&IntType{BitSize: pick(0, "u.bits", 32)}, &FloatType{Kind: FloatKind(fk)}}, Packed: pickB(2, "u.packed", true)}
		arr := &ArrayType{Len: pick(3, "u.alen", 4), ElemType: inner}
		p := &PointerType{ElemType: arr, AddrSpace: AddrSpace(pick(4, "u.as", 1))}
		vl := pick(5, "u.vlen", 2)
		vfAssume(vl >= 1)
		vec := &VectorType{Len: vl, ElemType: p, Scalable: pickB(6, "u.scalable", false)}
		var params []Type
		if pickB(8, "u.twoparams", false) {
			params = []Type{p, p}
		} else {
			params = []Type{p}
		}
		f := &FuncType{RetType: vec, Params: params, Variadic: pickB(7, "u.variadic", false)}
		return &PointerType{ElemType: f, AddrSpace: AddrSpace(pick(9, "u.as2", 0))}
	}
	t, u := mk(false), mk(true)
	vfReach("C16.deep")
	tu := Equal(t, u)
	vfAssert("C16.deep.agrees-with-llvm-identity", tu == hRef(t, u))
	vfAssert("C16.deep.symmetric", tu == Equal(u, t))
}

// VfC16_AfterEdit: equality is a function of the current structure: a type
// that was already compared (observed) and is then edited (renamed through
// SetName, a field appended, an attribute changed) compares according to its
// new structure, like a type built afterwards.
//
//vf:unwind 200
func VfC16_AfterEdit() {
	w := uint64(vfByte("w"))
	vfAssume(vfAnd(w >= 1, w < 100))
	inner := &StructType{Fields: []Type{&IntType{BitSize: w}}}
	var subject Type
	switch vfChoice("subject", 3) {
	case 0:
		subject = &PointerType{ElemType: inner}
	case 1:
		subject = &ArrayType{Len: 2, ElemType: &PointerType{ElemType: inner}}
	default:
		subject = &FuncType{RetType: &PointerType{ElemType: inner}}
	}
	// observe
	_ = Equal(subject, subject)
	_ = subject.String()
	other0 := &PointerType{ElemType: &StructType{Fields: []Type{&IntType{BitSize: w}}}}
	_ = Equal(subject, other0)
	// edit the element in place
	nm := hName("nm")
	switch vfChoice("edit", 3) {
	case 0:
		inner.SetName(nm)
	case 1:
		inner.Fields = append(inner.Fields, &FloatType{Kind: FloatKindDouble})
	default:
		inner.Packed = true
	}
	vfReach("C16.after-edit")
	// a structurally identical type built after the edit
	var fresh Type
	mkInner := func() *StructType {
		return &StructType{TypeName: inner.TypeName, Fields: append([]Type(nil), inner.Fields...), Packed: inner.Packed}
	}
	switch s := subject.(type) {
	case *PointerType:
		fresh = &PointerType{ElemType: mkInner()}
	case *ArrayType:
		fresh = &ArrayType{Len: s.Len, ElemType: &PointerType{ElemType: mkInner()}}
	default:
		fresh = &FuncType{RetType: &PointerType{ElemType: mkInner()}}
	}
	vfAssert("C16.after-edit.equals-fresh-copy", vfAnd(Equal(subject, fresh), Equal(fresh, subject)))
	// and it no longer equals a type of the old structure
	var old Type
	oldInner := &StructType{Fields: []Type{&IntType{BitSize: w}}}
	switch s := subject.(type) {
	case *PointerType:
		old = &PointerType{ElemType: oldInner}
	case *ArrayType:
		old = &ArrayType{Len: s.Len, ElemType: &PointerType{ElemType: oldInner}}
	default:
		old = &FuncType{RetType: &PointerType{ElemType: oldInner}}
	}
	vfAssert("C16.after-edit.differs-from-old-structure", vfAnd(vfNot(Equal(subject, old)), vfNot(Equal(old, subject))))
	vfAssert("C16.after-edit.agrees-with-llvm-identity", vfAnd(Equal(subject, fresh) == hRef(subject, fresh), Equal(subject, old) == hRef(subject, old)))
}

// VfC16_SharedBacking: struct field lists and function parameter lists that
// share a backing array (NewStruct / NewFunc keep the caller's slice, so a
// prefix sub-slice of one list can be the list of another type): types of
// different length are different, whatever their slices alias.
//
//vf:unwind 100
func VfC16_SharedBacking() {
	w := uint64(vfByte("w"))
	vfAssume(vfAnd(w >= 1, w <= 64))
	it := NewInt(w)
	fields := []Type{it, I8Ptr, Double}
	k := vfChoice("prefix", 3) // shorter list: fields[:k], k = 0..2
	short, long := NewStruct(fields[:k]...), NewStruct(fields...)
	vfReach("C16.shared-backing")
	vfAssert("C16.shared.struct-lengths-differ", vfAnd(vfNot(short.Equal(long)), vfNot(long.Equal(short))))
	fresh := NewStruct(append([]Type(nil), fields[:k]...)...)
	vfAssert("C16.shared.struct-equals-fresh-copy", vfAnd(short.Equal(fresh), fresh.Equal(short)))
	fs, fl := NewFunc(Void, fields[:k]...), NewFunc(Void, fields...)
	vfAssert("C16.shared.func-lengths-differ", vfAnd(vfNot(fs.Equal(fl)), vfNot(fl.Equal(fs))))
	// the same through an enclosing pointer (which compares printed strings)
	vfAssert("C16.shared.pointer-to-struct-lengths-differ", vfNot(NewPointer(short).Equal(NewPointer(long))))
}

// VfC16_SharedObjects: type graphs are DAGs in practice - one type object
// (here a pointer, a vector or an array type, and the integer type below it)
// occurs at two positions of the left operand, while the right operand is
// built from fresh objects and differs, or not, at the second position only
// (symbolic widths decide).  Equal must agree with the reference identity in
// both directions, for function, struct, array-of-struct and nested shapes.
//
//vf:unwind 200
func VfC16_SharedObjects() {
	w1, w2 := uint64(vfByte("w1")), uint64(vfByte("w2"))
	vfAssume(vfAnd(vfAnd(w1 >= 1, w1 <= 64), vfAnd(w2 >= 1, w2 <= 64)))
	mk := func(kind int, w uint64) Type {
		it := NewInt(w)
		switch kind {
		case 0:
			return NewPointer(it)
		case 1:
			return NewVector(4, it)
		case 2:
			return NewArray(3, it)
		default:
			return NewPointer(NewPointer(it))
		}
	}
	kind := vfChoice("shared-kind", 4)
	s := mk(kind, w1) // the shared object
	a, b := mk(kind, w1), mk(kind, w2)
	var l, r Type
	switch vfChoice("shape", 5) {
	case 0:
		l, r = NewFunc(Void, s, s), NewFunc(Void, a, b)
	case 1:
		l, r = NewStruct(s, s), NewStruct(a, b)
	case 2:
		l, r = NewFunc(s, I8, s), NewFunc(a, I8, b)
	case 3:
		l, r = NewStruct(NewArray(2, s), NewPointer(s)), NewStruct(NewArray(2, a), NewPointer(b))
	default:
		l, r = NewPointer(NewFunc(Void, s, NewStruct(I1, s))), NewPointer(NewFunc(Void, a, NewStruct(I1, b)))
	}
	vfReach("C16.shared-objects")
	want := hRef(l, r)
	vfAssert("C16.shared-objects.left-shared", l.Equal(r) == want)
	vfAssert("C16.shared-objects.right-shared", r.Equal(l) == want)
	vfAssert("C16.shared-objects.expected", want == (w1 == w2))
}

// VfC16_NameSpellings: identified structs are identified by name - by the
// bytes of the name, whatever they are.  Two structs with the same body whose
// names are a symbolic byte string s (1 or 2 bytes, any non-zero bytes) and a
// decorated form of s (wrapped in quote characters, with a leading or trailing
// quote, with a backslash in front, with a space appended): the structs, the
// pointers to them (whose equality goes through printed names), and function
// and array types over those pointers are all different, in both directions.
//
//vf:unwind 200
//vf:shards 4
func VfC16_NameSpellings() {
	n := vfLen("n", 1, 2)
	s := vfString("s", n)
	for i := 0; i < len(s); i++ {
		vfAssume(s[i] != 0)
	}
	var d string
	switch vfChoice("decoration", 5) {
	case 0:
		d = "\"" + s + "\""
	case 1:
		d = "\"" + s
	case 2:
		d = s + "\""
	case 3:
		d = "\\" + s
	default:
		d = s + " "
	}
	a, b := NewStruct(I32, I64), NewStruct(I32, I64)
	a.TypeName, b.TypeName = s, d
	vfReach("C16.name-spellings")
	vfAssert("C16.name-spellings.structs-differ", vfAnd(vfNot(a.Equal(b)), vfNot(b.Equal(a))))
	pa, pb := NewPointer(a), NewPointer(b)
	vfAssert("C16.name-spellings.pointers-differ", vfAnd(vfNot(pa.Equal(pb)), vfNot(pb.Equal(pa))))
	fa, fb := NewFunc(Void, pa), NewFunc(Void, pb)
	vfAssert("C16.name-spellings.functions-differ", vfAnd(vfNot(fa.Equal(fb)), vfNot(fb.Equal(fa))))
	ppa, ppb := NewPointer(NewArray(2, pa)), NewPointer(NewArray(2, pb))
	vfAssert("C16.name-spellings.nested-pointers-differ", vfAnd(vfNot(ppa.Equal(ppb)), vfNot(ppb.Equal(ppa))))
}
