//go:build verif

package ir

import (
	"github.com/llir/llvm/ir/constant"
	"github.com/llir/llvm/ir/enum"
	"github.com/llir/llvm/ir/types"
)

// C08: unnamed values are numbered as LLVM numbers them.  Function shapes are
// forked (params, blocks, instruction kinds); the IDs stored in the IR before
// numbering are symbolic.  AssignIDs must accept exactly the states in which
// every unnamed value carries 0 or its LLVM number, produce LLVM's numbering,
// leave everything else alone, and be idempotent.

type hSlot struct {
	nv      namedVar // nil: not a value (store, fence)
	counted bool     // consumes a number in LLVM's numbering
	pre     int64    // symbolic ID stored before numbering
}

var hIDNames = [...]string{"id0", "id1", "id2", "id3", "id4", "id5", "id6", "id7", "id8", "id9", "id10", "id11"}

type hShape struct {
	slots []hSlot
	f     *Func
}

func (s *hShape) add(nv namedVar, nonVoid bool) {
	k := len(s.slots)
	pre := int64(vfByte(hIDNames[k]))
	vfAssume(pre < 50)
	unnamed := nv.IsUnnamed()
	if unnamed {
		nv.SetID(pre)
	}
	s.slots = append(s.slots, hSlot{nv: nv, counted: unnamed && nonVoid, pre: pre})
}

var (
	hVoidCallee = NewFunc("vf", types.Void)
	hIntCallee  = NewFunc("if", types.I32)
)

// hInst appends instruction kind k to block b: 0 unnamed add, 1 named add,
// 2 void call, 3 unnamed non-void call, 4 store, 5 fence, 6 named call,
// 7 unnamed cleanuppad (a value of token type).
func (s *hShape) inst(b *Block, k int) {
	one := constant.NewInt(types.I32, 1)
	switch k {
	case 0:
		s.add(b.NewAdd(one, one), true)
	case 1:
		i := b.NewAdd(one, one)
		i.SetName("n")
		s.add(i, true)
	case 2:
		s.add(b.NewCall(hVoidCallee), false)
	case 3:
		s.add(b.NewCall(hIntCallee), true)
	case 4:
		b.NewStore(one, constant.NewNull(types.NewPointer(types.I32)))
	case 5:
		b.NewFence(enum.AtomicOrderingSequentiallyConsistent)
	case 7:
		s.add(b.NewCleanupPad(constant.None), true)
	default:
		i := b.NewCall(hIntCallee)
		i.SetName("c")
		s.add(i, true)
	}
}

// hTerm sets terminator kind k: 0 ret, 1 void invoke, 2 unnamed non-void
// invoke, 3 br to the block itself, 4 unnamed non-void callbr, 5 unnamed
// catchswitch (a value of token type).
func (s *hShape) term(b *Block, k int) {
	switch k {
	case 0:
		b.NewRet(nil)
	case 1:
		s.add(b.NewInvoke(hVoidCallee, nil, b, b), false)
	case 2:
		s.add(b.NewInvoke(hIntCallee, nil, b, b), true)
	case 3:
		b.NewBr(b)
	case 5:
		s.add(b.NewCatchSwitch(constant.None, []*Block{b}, nil), true)
	default:
		s.add(b.NewCallBr(hIntCallee, nil, b), true)
	}
}

func hBuildFunc() *hShape {
	s := &hShape{}
	var params []*Param
	switch vfChoice("param", 3) {
	case 1:
		params = append(params, NewParam("", types.I32))
	case 2:
		params = append(params, NewParam("p", types.I32))
	}
	f := NewFunc("f", types.Void, params...)
	s.f = f
	for _, p := range params {
		s.add(p, true)
	}
	nb := 1
	if vfTier() > 0 {
		nb = vfLen("blocks", 1, 2)
	}
	for bi := 0; bi < nb; bi++ {
		name := ""
		if vfChoice("bname"+string(rune('0'+bi)), 2) == 1 {
			name = "b" + string(rune('0'+bi))
		}
		b := f.NewBlock(name)
		s.add(b, true)
		// thorough: two instructions in a single block, one per block when there
		// are two blocks (two of each would be about a million shapes)
		maxI := 1
		if vfTier() > 0 && nb == 1 {
			maxI = 2
		}
		ni := vfLen("insts"+string(rune('0'+bi)), 0, maxI)
		for ii := 0; ii < ni; ii++ {
			s.inst(b, vfChoice("ik"+string(rune('0'+bi))+string(rune('0'+ii)), 8))
		}
		s.term(b, vfChoice("tk"+string(rune('0'+bi)), 6))
	}
	if vfTier() == 0 {
		// a second, fixed block: numbering continues across blocks
		if vfChoice("tail", 2) == 1 {
			b := f.NewBlock("")
			s.add(b, true)
			s.add(b.NewAdd(constant.NewInt(types.I32, 2), constant.NewInt(types.I32, 2)), true)
			b.NewRet(nil)
		}
	}
	return s
}

// VfC08_AssignIDs
//
//vf:unwind 200
//vf:shards 16
func VfC08_AssignIDs() {
	s := hBuildFunc()
	// reference numbering and validity of the pre-state
	ref := make([]int64, len(s.slots))
	next := int64(0)
	valid := true
	for i, sl := range s.slots {
		ref[i] = -1
		if sl.counted {
			ref[i] = next
			valid = vfAnd(valid, vfOr(sl.pre == 0, sl.pre == next))
			next++
		}
	}
	vfReach("C08.assign")
	err := s.f.AssignIDs()
	vfAssert("C08.assign.accepts-llvm-numbering", vfImp(valid, err == nil))
	vfAssert("C08.assign.rejects-others", vfImp(err == nil, valid))
	if err != nil {
		return
	}
	for i, sl := range s.slots {
		if sl.counted {
			vfAssert("C08.assign.llvm-number", sl.nv.ID() == ref[i])
		} else if sl.nv.IsUnnamed() {
			// void call / invoke: consumes no number, its stored ID is untouched
			vfAssert("C08.assign.void-untouched", sl.nv.ID() == sl.pre)
		} else {
			vfAssert("C08.assign.named-untouched", sl.nv.ID() == 0)
		}
	}
	// numbering an already numbered function again changes nothing
	err2 := s.f.AssignIDs()
	vfAssert("C08.assign.idempotent.accepted", err2 == nil)
	for i, sl := range s.slots {
		if sl.counted {
			vfAssert("C08.assign.idempotent.same", sl.nv.ID() == ref[i])
		}
	}
	// the printer emits LLVM's numbers
	if len(s.slots) > 0 {
		for i, sl := range s.slots {
			if sl.counted {
				vfAssert("C08.print.number", sl.nv.Ident() == "%"+hItoa(ref[i]))
			}
		}
	}
}

func hItoa(v int64) string {
	if v < 10 {
		return string(rune('0' + v))
	}
	return string(rune('0'+v/10)) + string(rune('0'+v%10))
}

// VfC08_GlobalIDs: a module with up to 4 top-level entities of the four kinds,
// named or unnamed, stored IDs symbolic: AssignGlobalIDs accepts exactly the
// states in which each unnamed entity carries 0 or its number in print order
// (globals, aliases, ifuncs, functions), numbers them 0,1,2,... and is
// idempotent.
//
//vf:unwind 200
//vf:shards 8
func VfC08_GlobalIDs() {
	m := NewModule()
	n := vfLen("n", 0, 3)
	if vfTier() > 0 {
		n = vfLen("n4", 0, 4)
	}
	var ents []namedVar
	var pre []int64
	tgt := NewGlobalDef("t", constant.NewInt(types.I32, 1))
	for i := 0; i < n; i++ {
		name := ""
		if vfChoice("named"+string(rune('0'+i)), 2) == 1 {
			name = "e" + string(rune('0'+i))
		}
		var e namedVar
		switch vfChoice("kind"+string(rune('0'+i)), 4) {
		case 0:
			e = m.NewGlobalDef(name, constant.NewInt(types.I32, 1))
		case 1:
			e = m.NewAlias(name, tgt)
		case 2:
			e = m.NewIFunc(name, NewFunc("r", types.NewPointer(types.I32)))
		default:
			e = m.NewFunc(name, types.Void)
		}
		p := int64(vfByte(hIDNames[i]))
		vfAssume(p < 50)
		if e.IsUnnamed() {
			e.SetID(p)
		}
		ents = append(ents, e)
		pre = append(pre, p)
	}
	// print order
	var order []namedVar
	for _, g := range m.Globals {
		order = append(order, g)
	}
	for _, a := range m.Aliases {
		order = append(order, a)
	}
	for _, a := range m.IFuncs {
		order = append(order, a)
	}
	for _, f := range m.Funcs {
		order = append(order, f)
	}
	valid := true
	next := int64(0)
	ref := map[namedVar]int64{}
	for _, e := range order {
		if e.IsUnnamed() {
			ref[e] = next
			var p int64
			for i := range ents {
				if ents[i] == e {
					p = pre[i]
				}
			}
			valid = vfAnd(valid, vfOr(p == 0, p == next))
			next++
		}
	}
	vfReach("C08.globals")
	err := m.AssignGlobalIDs()
	vfAssert("C08.globals.accepts", vfImp(valid, err == nil))
	vfAssert("C08.globals.rejects-others", vfImp(err == nil, valid))
	if err != nil {
		return
	}
	for _, e := range order {
		if e.IsUnnamed() {
			vfAssert("C08.globals.number", e.ID() == ref[e])
		}
	}
	vfAssert("C08.globals.idempotent", m.AssignGlobalIDs() == nil)
	for _, e := range order {
		if e.IsUnnamed() {
			vfAssert("C08.globals.idempotent.same", e.ID() == ref[e])
		}
	}
}
