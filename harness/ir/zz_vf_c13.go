//go:build verif

package ir

import (
	"github.com/llir/llvm/ir/constant"
	"github.com/llir/llvm/ir/metadata"
	"github.com/llir/llvm/ir/types"
)

// C13 (L4, reduced): two goroutines print the same module.  The executor runs
// printer A from the initial state, printer B after A and printer B from the
// initial state, logs every access to objects that existed before the threads
// started together with the mutexes held, and reports a data race when two
// accesses of different threads to one location, one of them a write, hold no
// mutex in common (only mutexes order the two goroutines).  The initial state
// is symbolic: names, and IDs that are fresh or left by an earlier print.
// Natively the two printers really run on two goroutines under -race.

// hC13SecondUnnamed: the module built last has a second unnamed global
// variable (@1), which the function loads from.
var hC13SecondUnnamed bool

func hC13Module() (*Module, *Func) {
	m := NewModule()
	m.NewGlobalDef(hLetter("g"), constant.NewInt(types.I32, 1))
	// which unnamed entity is @0: an unnamed global variable, or (no unnamed
	// variable) an unnamed function defined below
	unnamedFuncFirst := vfChoice("unnamed-function-is-@0", 2) == 1
	var second *Global
	hC13SecondUnnamed = false
	if !unnamedFuncFirst {
		m.NewGlobalDef("", constant.NewInt(types.I32, 2))
		// a second unnamed variable, @1, which the function below refers to: its
		// printed identifier is right only once the module has numbered its globals
		if vfChoice("second-unnamed-global", 2) == 1 {
			second = m.NewGlobalDef("", constant.NewInt(types.I32, 7))
			hC13SecondUnnamed = true
		}
	}
	// types that no earlier print in the process has seen (an uncommon integer
	// width, an array and a vector of it, a named struct, an address space):
	// whatever the printers memoise for them is shared state
	odd := types.NewInt(37)
	m.NewGlobalDef("odd", constant.NewInt(odd, 5))
	m.NewGlobalDef("arr", constant.NewZeroInitializer(types.NewArray(3, odd)))
	st := m.NewTypeDef("S", types.NewStruct(odd, types.NewVector(2, odd)))
	sp := types.NewPointer(st)
	sp.AddrSpace = 3
	m.NewGlobalDef("ptr", constant.NewNull(sp))
	// a global and a function whose address space was assigned after their
	// pointer type had been computed once, both used as operands
	late := m.NewGlobalDef("late", constant.NewInt(types.I32, 3))
	lf := m.NewFunc("latefn", types.Void)
	callee := m.NewFunc("callee", types.I32)
	f := m.NewFunc(hLetter("f"), types.I32, NewParam("", types.I32))
	b := f.NewBlock("")
	v := b.NewAdd(f.Params[0], constant.NewInt(types.I32, 1))
	// a named value whose cached type is out of date when printing starts (the
	// address space can only be assigned after construction)
	slot := b.NewAlloca(types.I32)
	slot.SetName("slot")
	slot.AddrSpace = 5
	b.NewLoad(types.I32, slot).SetName("ld")
	c := b.NewCall(callee)
	if second != nil {
		b.NewLoad(types.I32, second).SetName("l1")
	}
	b.NewStore(constant.NewInt(types.I32, 1), late) // prints the (stale) type of @late
	b.NewCall(lf)
	// values whose own type derives from the stale-typed global: a getelementptr
	// instruction, a getelementptr constant expression (as operand and as
	// initialiser) and a load
	zero := constant.NewInt(types.I32, 0)
	b.NewGetElementPtr(types.I32, late, zero).SetName("gp")
	b.NewLoad(types.I32, constant.NewGetElementPtr(types.I32, late, zero)).SetName("lde")
	m.NewGlobalDef("gepinit", constant.NewGetElementPtr(types.I32, late, zero))
	b2 := f.NewBlock("")
	b.NewBr(b2)
	b2.NewRet(b2.NewAdd(v, c))
	// metadata definitions in an order that is not the order of their IDs: an
	// explicit high ID first, an unnumbered one, an explicit low ID (whatever
	// the printer sorts, merges or normalises on its way is shared state)
	md5 := &metadata.Tuple{MetadataID: 5}
	md := &metadata.Tuple{MetadataID: -1, Fields: []metadata.Field{md5}}
	md2 := &metadata.Tuple{MetadataID: 2, Fields: []metadata.Field{md}}
	m.MetadataDefs = append(m.MetadataDefs, md5, md, md2)
	m.NamedMetadataDefs["n"] = &metadata.NamedDef{Name: "n", Nodes: []metadata.Node{md, md2}}
	m.NamedMetadataDefs["a"] = &metadata.NamedDef{Name: "a", Nodes: []metadata.Node{md5}}
	late.AddrSpace = 4
	lf.AddrSpace = 2
	if unnamedFuncFirst {
		uf := m.NewFunc("", types.Void)
		uf.NewBlock("").NewRet(nil)
	}
	if vfTier() > 0 {
		m.NewAlias("", m.Globals[0])
		g := m.NewFunc("", types.Void)
		g.NewBlock("").NewRet(nil)
	}
	return m, f
}

// VfC13_ModuleString: String() x String(), from a never-printed and from an
// already-printed module.
//
//vf:unwind 300
//vf:steps 60000000
func VfC13_ModuleString() {
	twin, twinF := hC13Module()
	m, f := hC13Module()
	printed := vfChoice("printed-before", 2) == 1
	if printed {
		_ = m.String()
	}
	which := vfChoice("pair", 3)
	want := ""
	var s1, s2 string
	switch which {
	case 0:
		parRun(func() { s1 = m.String() }, func() { s2 = m.String() })
		want = m.String()
		vfAssert("C13.text.module", vfAnd(s1 == want, s2 == want))
	case 1:
		parRun(func() { s1 = f.LLString() }, func() { s2 = m.String() })
		_ = twin.String()
		vfAssert("C13.text.func-in-module", s1 == twinF.LLString())
	default:
		parRun(func() { s1 = f.Blocks[0].LLString() + f.Ident() + f.Type().String() }, func() { s2 = f.LLString() })
		vfAssert("C13.text.block-and-func", len(s2) > 0)
	}
	vfReach("C13.module")
	// known finding: a block printed on its own while its never-numbered
	// function is numbered by another goroutine (see known_findings.json)
	vfKnown("C13.block-print-before-numbering", vfAnd(which == 2, vfNot(printed)))
	// known finding: a function printed on its own while the never-numbered
	// module numbers its unnamed globals in another goroutine
	vfKnown("C13.func-print-before-global-numbering", vfAnd(which == 1, vfAnd(vfNot(printed), hC13SecondUnnamed)))
	vfAssert("C13.race-free", vfNoRace())
}

// VfC13_Interleaved: the same pairs of printers as two suspendable threads of
// the executor (vfPar): which printer starts and at which scheduling points
// (before a Lock, after an Unlock) the running one is preempted are forked
// choices, at most 1 (thorough: 2) preemptions per execution; a printer
// blocked on a held mutex yields.  Every executed interleaving is checked for
// data races by happens-before over the mutex operations, and both texts must
// equal the text of an identically built module printed by one goroutine.
//
//vf:unwind 300
//vf:steps 90000000
func VfC13_Interleaved() {
	twin, twinF := hC13Module()
	m, f := hC13Module()
	printed := vfChoice("printed-before", 2) == 1
	if printed {
		_ = m.String()
	}
	budget := 1
	if vfTier() > 0 {
		budget = 2
	}
	which := vfChoice("pair", 3)
	// known findings (stated before the obligations they delimit)
	vfKnown("C13.block-print-before-numbering", vfAnd(which == 2, vfNot(printed)))
	vfKnown("C13.func-print-before-global-numbering", vfAnd(which == 1, vfAnd(vfNot(printed), hC13SecondUnnamed)))
	var s1, s2 string
	switch which {
	case 0:
		vfPar(func() { s1 = m.String() }, func() { s2 = m.String() }, budget)
		want := twin.String()
		vfAssert("C13.interleaved.text.module", vfAnd(s1 == want, s2 == want))
		vfAssert("C13.interleaved.text.later-print", m.String() == want)
	case 1:
		vfPar(func() { s1 = f.LLString() }, func() { s2 = m.String() }, budget)
		want := twin.String()
		vfAssert("C13.interleaved.text.func-in-module", vfAnd(s2 == want, m.String() == want))
		vfAssert("C13.interleaved.text.func-alone", s1 == twinF.LLString())
	default:
		vfPar(func() { s1 = f.Blocks[0].LLString() + f.Ident() + f.Type().String() }, func() { s2 = f.LLString() }, budget)
		vfAssert("C13.interleaved.text.block-and-func", m.String() == twin.String())
	}
	vfReach("C13.interleaved")
	vfAssert("C13.race-free", vfNoRace())
}
