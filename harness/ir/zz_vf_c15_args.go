//go:build verif

package ir

import (
	"github.com/llir/llvm/ir/constant"
	"github.com/llir/llvm/ir/enum"
	"github.com/llir/llvm/ir/metadata"
	"github.com/llir/llvm/ir/types"
	"github.com/llir/llvm/ir/value"
)

// VfC15_ArgumentForms: the argument slots of call, invoke, callbr, catchpad
// and cleanuppad for every form an argument can take: a plain value, a value
// with parameter attributes (*Arg) and a metadata argument wrapping an IR
// value (`metadata i32 %x`, *metadata.Value), forked per argument.  Operands()
// has exactly one slot per argument, the slot reads as the argument (or the
// value inside an attributed argument), and it is live: writing a fresh value
// through it changes exactly that argument in the printed instruction.
//
//vf:unwind 200
func VfC15_ArgumentForms() {
	callee := NewFunc("callee", types.Void)
	b1, b2 := NewBlock("n"), NewBlock("u")
	var plain [2]value.Value
	var args []value.Value
	for i := 0; i < 2; i++ {
		p := NewParam("a"+string(rune('0'+i)), types.I32)
		plain[i] = p
		switch vfChoice("form"+string(rune('0'+i)), 3) {
		case 0:
			args = append(args, p)
		case 1:
			args = append(args, NewArg(p, enum.ParamAttrNoUndef))
		default:
			args = append(args, &metadata.Value{Value: p})
		}
	}
	var inst interface {
		Operands() []*value.Value
		LLString() string
	}
	base := 1 // slots before the arguments
	switch vfChoice("kind", 5) {
	case 0:
		inst = NewCall(callee, args...)
	case 1:
		inst = NewInvoke(callee, args, b1, b2)
	case 2:
		inst = NewCallBr(callee, args, b1)
	case 3:
		cs := NewCatchSwitch(nil, []*Block{b1}, nil)
		cs.SetName("cs")
		inst = NewCatchPad(cs, args...)
	default:
		inst = NewCleanupPad(NewParam("pad", types.Token), args...)
	}
	vfReach("C15.argforms")
	ops := inst.Operands()
	vfAssert("C15.argforms.one-slot-per-argument", len(ops) >= base+2)
	if len(ops) < base+2 {
		return
	}
	before := inst.LLString()
	for i := 0; i < 2; i++ {
		slot := ops[base+i]
		// the slot reads as the argument itself or as the value inside it
		cur := *slot
		isWrapped := false
		if mv, ok := cur.(*metadata.Value); ok {
			isWrapped = mv.Value == metadata.Metadata(plain[i])
		}
		vfAssert("C15.argforms.slot-reads-the-argument", vfOr(cur == plain[i], isWrapped))
		fresh := NewParam("fresh"+string(rune('0'+i)), types.I32)
		*slot = fresh
		after := inst.LLString()
		vfAssert("C15.argforms.slot-is-live", hContains(after, "%fresh"+string(rune('0'+i))))
		vfAssert("C15.argforms.old-argument-gone", !hContains(after, "%a"+string(rune('0'+i))))
		vfAssert("C15.argforms.other-argument-kept", hContains(after, "%a"+string(rune('0'+1-i))))
		*slot = cur
		vfAssert("C15.argforms.restored", inst.LLString() == before)
	}
}

func hContains(s, sub string) bool {
	for i := 0; i+len(sub) <= len(s); i++ {
		if s[i:i+len(sub)] == sub {
			return true
		}
	}
	return false
}

// hC15SuccOperand: the class of a non-target operand of a terminator in the
// generated successor entries (nil: left unset; literal true / false; an i32
// literal equal to the value of the first case; a parameter).  The successor
// view lists the target slots whatever these operands are.
func hC15SuccOperand(name string) value.Value {
	switch vfChoice(name, 5) {
	case 1:
		return constant.True
	case 2:
		return constant.False
	case 3:
		return constant.NewInt(types.I32, 7)
	case 4:
		return hC15Val()
	}
	return nil
}

// hC15CaseVal: the value of case i of a generated switch: the first one is
// the literal that hC15SuccOperand may also choose as the switch operand.
func hC15CaseVal(i int) value.Value {
	if i == 0 {
		return constant.NewInt(types.I32, 7)
	}
	return hC15Val()
}
