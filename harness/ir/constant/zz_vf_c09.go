//go:build verif

package constant

import (
	"math/big"

	"github.com/llir/llvm/ir/types"
)

// C09: integer literals keep their exact value through print and parse; every
// accepted notation denotes the mathematically correct value for the width.

// widths: both neighbours of every machine-word boundary in the quick tier;
// every width up to 72 and the 128-bit boundary in the thorough tier
var hWidthsQuick = [...]uint64{1, 2, 7, 8, 13, 16, 31, 32, 33, 63, 64, 65}

func hWidth() uint64 {
	if vfTier() > 0 {
		k := vfChoice("w", 75)
		if k < 72 {
			return uint64(k + 1)
		}
		return uint64(127 + k - 72)
	}
	return hWidthsQuick[vfChoice("w", len(hWidthsQuick))]
}

// hValue returns a symbolic big integer v with -2^(w-1) <= v < 2^w.
func hValue(w uint64) *big.Int {
	x := new(big.Int).SetUint64(vfUint64("lo"))
	if w > 64 {
		h := new(big.Int).SetUint64(vfUint64("hi"))
		h.Lsh(h, 64)
		x.Add(x, h)
	}
	if vfBool("neg") {
		x.Neg(x)
	}
	min := new(big.Int).Lsh(big.NewInt(1), uint(w-1))
	min.Neg(min)
	max := new(big.Int).Lsh(big.NewInt(1), uint(w))
	vfAssume(vfAnd(x.Cmp(min) >= 0, x.Cmp(max) < 0))
	return x
}

// VfC09_PrintParse: the literal chosen by the printer parses back to the same
// value (for i1: to the same bit).
//
//vf:unwind 400
//vf:shards 8
func VfC09_PrintParse() {
	w := hWidth()
	typ := types.NewInt(w)
	x := hValue(w)
	c := &Int{Typ: typ, X: x}
	vfReach("C09.print-parse")
	// known finding region: i1 values other than 0 and 1 (i1 -1 is LLVM's true)
	vfKnown("C09.i1-negative", vfAnd(w == 1, vfAnd(x.Cmp(big.NewInt(0)) != 0, x.Cmp(big.NewInt(1)) != 0)))
	s := c.Ident()
	vfObserveStr("lit", s)
	back, err := NewIntFromString(typ, s)
	vfAssert("C09.print-parse.accepted", err == nil)
	if err != nil {
		return
	}
	if w == 1 {
		vfAssert("C09.print-parse.same-bit", back.X.Bit(0) == x.Bit(0))
		return
	}
	vfAssert("C09.print-parse.same-value", back.X.Cmp(x) == 0)
	// the chosen form is one LLVM's lexer accepts: decimal, or u0x + hex digits
	ok := true
	if len(s) >= 3 {
		if s[:3] == "u0x" {
			for i := 3; i < len(s); i++ {
				ok = vfAnd(ok, vfOr(vfAnd(s[i] >= '0', s[i] <= '9'), vfAnd(s[i] >= 'A', s[i] <= 'F')))
			}
			vfAssert("C09.print.u0x-form", vfAnd(ok, len(s) > 3))
			return
		}
	}
	for i := 0; i < len(s); i++ {
		if i == 0 {
			ok = vfAnd(ok, vfOr(s[i] == '-', vfAnd(s[i] >= '0', s[i] <= '9')))
		} else {
			ok = vfAnd(ok, vfAnd(s[i] >= '0', s[i] <= '9'))
		}
	}
	vfAssert("C09.print.decimal-form", ok)
}

// VfC09_PrintParseHexShaped: PrintParse restricted to the values for which
// the real printer chooses the hexadecimal notation (few distinct hex digits):
// all sixteen nibbles of the low word equal, the high word (for widths above
// 64) any value.  A subset of the values PrintParse covers - but here a
// counterexample does not depend on the executor's two-way model of the
// notation heuristic, so it reproduces natively.
//
//vf:unwind 400
//vf:shards 4
func VfC09_PrintParseHexShaped() {
	w := hWidth()
	if w < 16 {
		return
	}
	typ := types.NewInt(w)
	lo := vfUint64("lo")
	vfAssume(lo>>4 == lo&(1<<60-1)) // every nibble equals the lowest one
	x := new(big.Int).SetUint64(lo)
	if w > 64 {
		h := new(big.Int).SetUint64(vfUint64("hi"))
		h.Lsh(h, 64)
		x.Add(x, h)
	}
	max := new(big.Int).Lsh(big.NewInt(1), uint(w))
	vfAssume(x.Cmp(max) < 0)
	c := &Int{Typ: typ, X: x}
	vfReach("C09.print-parse.hex-shaped")
	s := c.Ident()
	vfObserveStr("lit", s)
	back, err := NewIntFromString(typ, s)
	vfAssert("C09.print-parse.hex-shaped.accepted", err == nil)
	if err != nil {
		return
	}
	vfAssert("C09.print-parse.hex-shaped.same-value", back.X.Cmp(x) == 0)
}

func hHex(b byte) (uint64, bool) {
	d := uint64(0)
	okd := vfAnd(b >= '0', b <= '9')
	oka := vfAnd(b >= 'a', b <= 'f')
	okA := vfAnd(b >= 'A', b <= 'F')
	// three independent conditional assignments (no else chains): the
	// executor turns each into an ite instead of forking
	if okd {
		d = uint64(b - '0')
	}
	if oka {
		d = uint64(b-'a') + 10
	}
	if okA {
		d = uint64(b-'A') + 10
	}
	return d, vfOr(okd, vfOr(oka, okA))
}

// VfC09_AcceptDecimal: [-]?[0-9]+ denotes its mathematical value.
//
//vf:unwind 400
func VfC09_AcceptDecimal() {
	w := hWidth()
	typ := types.NewInt(w)
	nd := 4
	if vfTier() > 0 {
		nd = 8
	}
	n := vfLen("n", 1, nd)
	digs := vfString("d", n)
	neg := vfBool("neg")
	want := new(big.Int)
	ten := big.NewInt(10)
	for i := 0; i < n; i++ {
		vfAssume(vfAnd(digs[i] >= '0', digs[i] <= '9'))
		want.Mul(want, ten)
		want.Add(want, big.NewInt(int64(digs[i]-'0')))
	}
	lit := digs
	if neg {
		lit = "-" + digs
		want.Neg(want)
	}
	vfReach("C09.accept.dec")
	got, err := NewIntFromString(typ, lit)
	vfAssert("C09.accept.dec.accepted", err == nil)
	if err == nil {
		vfAssert("C09.accept.dec.value", got.X.Cmp(want) == 0)
		vfAssert("C09.accept.dec.type", got.Typ == typ)
	}
}

// VfC09_AcceptHex: u0x... is the unsigned value of the digits; s0x... with
// exactly ceil(w/4) digits whose value is below 2^w is the two's complement
// value at width w.
//
//vf:unwind 400
//vf:shards 8
func VfC09_AcceptHex() {
	w := hWidth()
	typ := types.NewInt(w)
	signed := vfBool("signed")
	var n int
	if signed {
		// two's complement *by type width* (the property's definition): a
		// literal of ceil(w/4) digits may have the sign bit set; a shorter one
		// cannot and denotes its unsigned value.  Lengths around the 64-bit
		// boundary are where fast paths break.
		full := int((w + 3) / 4)
		lens := [...]int{0, 1, 2, 8, 15, 16, 17}
		k := vfChoice("n", len(lens))
		n = lens[k]
		if k == 0 {
			n = full
		}
		if n > full {
			vfCut("longer than the type allows")
		}
		if n > 17 {
			if vfTier() == 0 {
				vfCut("s0x literals longer than 17 digits are outside the quick bound")
			}
		}
	} else {
		// lengths around the 64-bit boundary are where fast paths break
		lens := [...]int{1, 2, 3, 4, 5, 8, 15, 16, 17}
		n = lens[vfChoice("n", len(lens))]
	}
	digs := vfString("d", n)
	want := new(big.Int)
	sixteen := big.NewInt(16)
	for i := 0; i < n; i++ {
		d, ok := hHex(digs[i])
		vfAssume(ok)
		want.Mul(want, sixteen)
		want.Add(want, new(big.Int).SetUint64(d))
	}
	vfReach("C09.accept.hex")
	if signed {
		lim := new(big.Int).Lsh(big.NewInt(1), uint(w))
		vfAssume(want.Cmp(lim) < 0)
		if want.Bit(int(w)-1) == 1 {
			want.Sub(want, lim)
		}
		got, err := NewIntFromString(typ, "s0x"+digs)
		vfAssert("C09.accept.s0x.accepted", err == nil)
		if err == nil {
			vfAssert("C09.accept.s0x.value", got.X.Cmp(want) == 0)
		}
		return
	}
	got, err := NewIntFromString(typ, "u0x"+digs)
	vfAssert("C09.accept.u0x.accepted", err == nil)
	if err == nil {
		vfAssert("C09.accept.u0x.value", got.X.Cmp(want) == 0)
	}
}

// VfC09_Bool: true/false are accepted exactly for i1 and denote 1/0; NewBool
// and NewInt agree with them.
func VfC09_Bool() {
	w := hWidth()
	typ := types.NewInt(w)
	vfReach("C09.bool")
	vfPanicOK(false)
	t, errT := NewIntFromString(typ, "true")
	f, errF := NewIntFromString(typ, "false")
	if w == 1 {
		vfAssert("C09.accept.bool.accepted", vfAnd(errT == nil, errF == nil))
		if errT == nil {
			if errF == nil {
				vfAssert("C09.accept.bool.value", vfAnd(t.X.Cmp(big.NewInt(1)) == 0, f.X.Cmp(big.NewInt(0)) == 0))
				vfAssert("C09.print.bool", vfAnd(t.Ident() == "true", f.Ident() == "false"))
			}
		}
	} else {
		vfAssert("C09.accept.bool.rejected-for-wider", vfAnd(errT != nil, errF != nil))
	}
}

// VfC09_NewInt: NewBool / NewInt agree with the literal forms.
//
//vf:unwind 400
func VfC09_NewInt() {
	vfReach("C09.newint")
	b := vfBool("b")
	nb := NewBool(b)
	vfAssert("C09.newbool", (nb.Ident() == "true") == b)
	v := vfInt64("v")
	ni := NewInt(types.I64, v)
	back, err := NewIntFromString(types.I64, ni.Ident())
	vfAssert("C09.newint.roundtrip", err == nil)
	if err == nil {
		vfAssert("C09.newint.value", back.X.Cmp(big.NewInt(v)) == 0)
	}
}

// VfC09_PrintUpdatePrint: the literal follows the value.  A constant is
// printed, its value is updated (in place through the math/big API, or by
// assigning a new big.Int; the new value is symbolic as well), and printed
// again: the second literal parses back to the new value.
//
//vf:unwind 400
//vf:shards 4
func VfC09_PrintUpdatePrint() {
	typ := types.I32
	a, b := int64(int32(vfInt("a"))), int64(int32(vfInt("b")))
	// keep the decimal digit chains short: small magnitudes, any sign
	vfAssume(vfAnd(vfAnd(a > -100, a < 100), vfAnd(b > -100, b < 100)))
	c := NewInt(typ, a)
	first := c.Ident()
	vfObserveStr("first", first)
	switch vfChoice("update", 3) {
	case 0:
		c.X.SetInt64(b) // in place
	case 1:
		c.X.Add(c.X, big.NewInt(b-a)) // in place, through arithmetic
	default:
		c.X = big.NewInt(b)
	}
	second := c.Ident()
	vfReach("C09.print-update-print")
	vfObserveStr("second", second)
	back, err := NewIntFromString(typ, second)
	vfAssert("C09.print-update-print.accepted", err == nil)
	if err == nil {
		vfAssert("C09.print-update-print.new-value", back.X.Cmp(big.NewInt(b)) == 0)
	}
}
