//go:build verif

package constant

import (
	"fmt"
	"math"
	"math/big"

	"github.com/llir/llvm/ir/types"
)

// C10 (reduced, see DESIGN): the 16-digit hexadecimal form of double and
// float, and NaN handling of half/float/double.  Decimal forms and the
// extended kinds go through big.Float / mewmew/float and are outside.

func hBitsOf(c *Float) uint64 {
	f, _ := c.X.Float64()
	return math.Float64bits(f)
}

// VfC10_HexDouble: every non-NaN double bit pattern written as 0x + 16 hex
// digits parses and, whenever the printer emits the hexadecimal form, prints
// back to a literal denoting exactly the same bits.
//
//vf:unwind 200
//vf:shards 16
func VfC10_HexDouble() {
	top := uint64(vfChoice("top-nibble", 16)) // first fork: distributes the work
	bits := vfUint64("bits")
	vfAssume(bits>>60 == top)
	lit := fmt.Sprintf("0x%016X", bits)
	c, err := NewFloatFromString(types.Double, lit)
	vfReach("C10.hex.double")
	vfAssert("C10.hex.double.accepted", err == nil)
	if err != nil {
		return
	}
	isNaN := vfAnd(bits&0x7FF0000000000000 == 0x7FF0000000000000, bits&0x000FFFFFFFFFFFFF != 0)
	vfAssert("C10.nan.flag", c.NaN == isNaN)
	if c.NaN {
		out := c.Ident()
		back, err2 := NewFloatFromString(types.Double, out)
		vfAssert("C10.nan.printed-is-nan", vfAnd(err2 == nil, back != nil))
		if err2 == nil {
			vfAssert("C10.nan.stays-nan", back.NaN)
			vfAssert("C10.nan.sign", back.X.Signbit() == (bits>>63 == 1))
			// known finding: the payload (mantissa incl. the quiet bit) is not kept
			vfKnown("C10.nan-payload", bits&0x7FFFFFFFFFFFFFFF != 0x7FF8000000000000)
			vfAssert("C10.nan.payload", out == lit)
		}
		return
	}
	vfAssert("C10.hex.double.bits-kept", hBitsOf(c) == bits)
	out := c.Ident() // decimal rendering ends the path as a stated cut
	back, err2 := NewFloatFromString(types.Double, out)
	vfAssert("C10.hex.double.reparsed", err2 == nil)
	if err2 == nil {
		vfAssert("C10.hex.double.roundtrip", vfAnd(vfNot(back.NaN), hBitsOf(back) == bits))
	}
}

// VfC10_HexFloat: float constants use the double layout with the low 29
// mantissa bits zero (LLVM's rule, assumed).
//
//vf:unwind 200
//vf:shards 16
func VfC10_HexFloat() {
	top := uint64(vfChoice("top-nibble", 16))
	bits := vfUint64("bits")
	vfAssume(bits>>60 == top)
	vfAssume(bits&0x1FFFFFFF == 0)
	lit := fmt.Sprintf("0x%016X", bits)
	kind := types.Float
	if vfChoice("kind", 2) == 1 {
		kind = types.Half
	}
	c, err := NewFloatFromString(kind, lit)
	vfReach("C10.hex.float")
	vfAssert("C10.hex.float.accepted", err == nil)
	if err != nil {
		return
	}
	isNaN := vfAnd(bits&0x7FF0000000000000 == 0x7FF0000000000000, bits&0x000FFFFFFFFFFFFF != 0)
	vfAssert("C10.nan.flag", c.NaN == isNaN)
	if c.NaN {
		out := c.Ident()
		vfObserveStr("out", out)
		if kind == types.Half {
			// half NaNs print in the 0xH form
			vfAssert("C10.nan.half.sign", out == "0xH7E00" || out == "0xHFE00")
			vfAssert("C10.nan.half.sign-kept", (out == "0xHFE00") == (bits>>63 == 1))
			return
		}
		back, err2 := NewFloatFromString(kind, out)
		vfAssert("C10.nan.printed-is-nan", err2 == nil)
		if err2 == nil {
			vfAssert("C10.nan.stays-nan", back.NaN)
			vfAssert("C10.nan.sign", back.X.Signbit() == (bits>>63 == 1))
		}
		return
	}
	if kind == types.Half {
		vfCut("non-NaN half values are printed through mewmew/float (outside the claim)")
	}
	vfAssert("C10.hex.float.bits-kept", hBitsOf(c) == bits)
	out := c.Ident()
	back, err2 := NewFloatFromString(kind, out)
	vfAssert("C10.hex.float.reparsed", err2 == nil)
	if err2 == nil {
		vfAssert("C10.hex.float.roundtrip", vfAnd(vfNot(back.NaN), hBitsOf(back) == bits))
	}
}

// VfC10_NewFloat: NewFloat keeps the value / NaN sign of a float64.
//
//vf:unwind 200
func VfC10_NewFloat() {
	bits := vfUint64("bits")
	x := math.Float64frombits(bits)
	c := NewFloat(types.Double, x)
	vfReach("C10.newfloat")
	isNaN := vfAnd(bits&0x7FF0000000000000 == 0x7FF0000000000000, bits&0x000FFFFFFFFFFFFF != 0)
	vfAssert("C10.newfloat.nan-flag", c.NaN == isNaN)
	if c.NaN {
		vfAssert("C10.newfloat.nan-sign", c.X.Signbit() == (bits>>63 == 1))
		return
	}
	vfAssert("C10.newfloat.bits-kept", hBitsOf(c) == bits)
}

// hC10Table: concrete literals of all kinds (decimal, scientific, and the
// 0xH/0xK/0xL/0xM forms incl. signed NaNs, infinities, subnormals).  These run
// through big.Float and mewmew/float, which cannot be encoded; the executor
// calls those libraries natively on the concrete values (floatbridge.go) and
// interprets everything of llir/llvm around them.  Supplementary to the
// solver-decided obligations above: a finite table, not a for-all claim.
var hC10Table = []struct {
	kind types.FloatKind
	lit  string
	hex  bool   // the literal is already in the printer's canonical hex form
	want string // the expected printed literal, where it follows from IEEE 754 alone ("" = not stated)
	nan  int    // 1: LLVM reads the literal as a NaN, 2: as a number, 0: not stated
}{
	// fp128: the first 16 digits after 0xL are the LOW 64 bits (LLLexer: HexToIntPair, APInt(128, Pair))
	{types.FloatKindFP128, "0xL7FFF0000000000014000000000000000", true, "", 2}, // a finite number (exponent field 0x4000), kept as written
	{types.FloatKindFP128, "0xL00000000000000007FFF800000000000", true, "", 1}, // the quiet NaN
	{types.FloatKindFP128, "0xL00000000000000013FFF000000000000", true, "", 2},
	// float powers of two whose shortest 24-bit decimal is not the exact value
	{types.FloatKindFloat, "0x4180000000000000", false, "", 0}, {types.FloatKindFloat, "0x4190000000000000", false, "", 0}, {types.FloatKindFloat, "0xC180000000000000", false, "", 0},
	{types.FloatKindFloat, "33554432.0", false, "", 0}, {types.FloatKindHalf, "33824.0", false, "", 0}, {types.FloatKindFloat, "0x41E0000000000000", false, "", 0},
	{types.FloatKindFloat, "134217728.0", false, "", 0}, {types.FloatKindFloat, "16777216.0", false, "", 0},
	// half written in the 16-digit double layout: subnormal, smallest normal, largest, negative, infinity, NaN
	{types.FloatKindHalf, "0x3F00000000000000", false, "0xH0200", 0}, {types.FloatKindHalf, "0x3F08000000000000", false, "0xH0300", 0},
	{types.FloatKindHalf, "0x3E70000000000000", false, "0xH0001", 0}, {types.FloatKindHalf, "0x3F0FF80000000000", false, "0xH03FF", 0},
	{types.FloatKindHalf, "0x3F10000000000000", false, "0xH0400", 0}, {types.FloatKindHalf, "0x40EFFC0000000000", false, "0xH7BFF", 0},
	{types.FloatKindHalf, "0xBF00000000000000", false, "0xH8200", 0}, {types.FloatKindHalf, "0x7FF0000000000000", false, "0xH7C00", 0},
	{types.FloatKindHalf, "0xFFF0000000000000", false, "0xHFC00", 0}, {types.FloatKindHalf, "0x7FF8000000000000", false, "0xH7E00", 0},
	{types.FloatKindHalf, "0xC000000000000000", false, "", 0},
	// float written in the 16-digit double layout: subnormal float (normal double), infinity
	{types.FloatKindFloat, "0x36A0000000000000", false, "", 0}, {types.FloatKindFloat, "0x380FFFFFC0000000", false, "", 0},
	{types.FloatKindFloat, "0x7FF0000000000000", false, "", 0}, {types.FloatKindFloat, "0xFFF0000000000000", false, "", 0},
	{types.FloatKindDouble, "0x0000000000000001", false, "", 0}, {types.FloatKindDouble, "0x7FEFFFFFFFFFFFFF", false, "", 0},

	// decimal literals at and next to the midpoint between two doubles: the
	// exact tie goes to even; literals whose value is so close to a midpoint
	// that an intermediate rounding to 64 bits would cross it (expected
	// literals by IEEE 754 round-to-nearest-even, cross-checked with
	// strconv.ParseFloat and llvm-as 14)
	{types.FloatKindDouble, "1.00000000000000011102230246251565404236316680908203125", false, "1.0", 0},
	{types.FloatKindDouble, "1.00000000000000011102230246251565404236316680908203126", false, "0x3FF0000000000001", 0},
	{types.FloatKindDouble, "1.00000000000000011102230246251565404236316680908203124", false, "1.0", 0},
	{types.FloatKindDouble, "1.00000000000000011103", false, "0x3FF0000000000001", 0},
	{types.FloatKindDouble, "5.917e-40", false, "0x37C9C5ACEB678353", 0}, {types.FloatKindDouble, "7.27e-38", false, "0x3838BD102D09F4E7", 0},
	{types.FloatKindDouble, "6.561e-38", false, "0x3836536FE47947D1", 0}, {types.FloatKindDouble, "2.91e-11", false, "0x3DBFFEEBFC8B81B5", 0},
	// boundaries of the extended kinds: smallest and largest denormal (exponent
	// field 0), smallest and largest normal, of either sign
	{types.FloatKindX86_FP80, "0xK00000000000000000001", true, "", 2}, {types.FloatKindX86_FP80, "0xK00000000000000000002", true, "", 2},
	{types.FloatKindX86_FP80, "0xK00007FFFFFFFFFFFFFFF", true, "", 2}, {types.FloatKindX86_FP80, "0xK80000000000000000001", true, "", 2},
	{types.FloatKindX86_FP80, "0xK00018000000000000000", true, "", 2}, {types.FloatKindX86_FP80, "0xK7FFEFFFFFFFFFFFFFFFF", true, "", 2},
	{types.FloatKindFP128, "0xL00000000000000010000000000000000", true, "", 2}, {types.FloatKindFP128, "0xLFFFFFFFFFFFFFFFF0000FFFFFFFFFFFF", true, "", 2},
	{types.FloatKindFP128, "0xL00000000000000000001000000000000", true, "", 2}, {types.FloatKindFP128, "0xLFFFFFFFFFFFFFFFF7FFEFFFFFFFFFFFF", true, "", 2},
	{types.FloatKindHalf, "0xH0001", true, "", 2}, {types.FloatKindHalf, "0xH03FF", true, "", 2}, {types.FloatKindHalf, "0xH0400", true, "", 2}, {types.FloatKindHalf, "0xHFBFF", true, "", 2},
	// hexadecimal literals with fewer digits than the documented number (read
	// by LLVM: LLLexer HexToIntPair / FP80HexToIntPair; accepted by llvm-as 14)
	{types.FloatKindX86_FP80, "0xK1", false, "", 0}, {types.FloatKindPPC_FP128, "0xM1", false, "0xM00000000000000000000000000000001", 0},
	{types.FloatKindFP128, "0xL01", false, "0xL00000000000000000000000000000001", 0}, {types.FloatKindHalf, "0xH1", false, "0xH0001", 0}, {types.FloatKindDouble, "0x1", false, "", 0},
	// decimal spellings whose exponent alone is beyond the range of a double
	// while the value is not (a long mantissa compensates)
	{types.FloatKindDouble, "0.0000000000000000000000000000000000000000000000000000000000000000000000000000000000000000000001e+401", false, "0x7FAC7B1F3CAC7433", 0},
	{types.FloatKindDouble, "10000000000000000000000000000000000000000000000000000000000000000000000000000000000000000000000000000.0e-401", false, "0x17124E63593F5E1", 0},
	// infinities and the default NaNs of either sign for the extended kinds
	{types.FloatKindX86_FP80, "0xKFFFF8000000000000000", true, "", 2}, {types.FloatKindFP128, "0xL00000000000000007FFF000000000000", true, "", 2},
	{types.FloatKindFP128, "0xL0000000000000000FFFF000000000000", true, "", 2},
	{types.FloatKindPPC_FP128, "0xM7FF00000000000000000000000000000", true, "", 2}, {types.FloatKindPPC_FP128, "0xMFFF00000000000000000000000000000", true, "", 2},
	// (the NaN payload is not kept - known finding C10.nan-payload -, so only the
	// classification and the sign are stated for the NaN rows)
	{types.FloatKindPPC_FP128, "0xM7FF80000000000000000000000000000", false, "", 1}, {types.FloatKindPPC_FP128, "0xMFFF80000000000000000000000000000", false, "", 1},
	// a decimal exponent far beyond the range (LLVM reads infinity)
	{types.FloatKindDouble, "1.0e+9999999999", false, "0x7FF0000000000000", 0},
	{types.FloatKindDouble, "0.0", false, "", 0}, {types.FloatKindDouble, "-0.0", false, "", 0}, {types.FloatKindDouble, "1.0", false, "", 0},
	{types.FloatKindDouble, "1000000.0", false, "", 0}, {types.FloatKindDouble, "1.0e22", false, "", 0}, {types.FloatKindDouble, "5.0e7", false, "", 0},
	{types.FloatKindDouble, "0.1", false, "", 0}, {types.FloatKindDouble, "-2.5e-3", false, "", 0}, {types.FloatKindDouble, "1.5e300", false, "", 0},
	{types.FloatKindFloat, "1.0", false, "", 0}, {types.FloatKindFloat, "0.5", false, "", 0}, {types.FloatKindFloat, "1000000.0", false, "", 0},
	{types.FloatKindFloat, "3.0e10", false, "", 0}, {types.FloatKindFloat, "-8.0e6", false, "", 0},
	{types.FloatKindHalf, "1.0", false, "", 0}, {types.FloatKindHalf, "0xH3C00", false, "", 0}, {types.FloatKindHalf, "0xH0001", true, "", 0},
	{types.FloatKindHalf, "0xH7E00", true, "", 0}, {types.FloatKindHalf, "0xHFE00", true, "", 0}, {types.FloatKindHalf, "0xHFC00", true, "", 0}, {types.FloatKindHalf, "0xH7C00", true, "", 0},
	{types.FloatKindX86_FP80, "0xK3FFF8000000000000000", true, "", 0}, {types.FloatKindX86_FP80, "0xKBFFF8000000000000000", true, "", 0},
	{types.FloatKindX86_FP80, "0xK7FFF8000000000000000", true, "", 0}, {types.FloatKindX86_FP80, "0xKFFFFBFFFFFFFFFFFFFFF", true, "", 0}, {types.FloatKindX86_FP80, "0xK7FFFBFFFFFFFFFFFFFFF", true, "", 0},
	{types.FloatKindFP128, "0xL00000000000000003FFF000000000000", true, "", 0}, {types.FloatKindFP128, "0xL0000000000000000BFFF000000000000", true, "", 0},
	{types.FloatKindFP128, "0xL00000000000000007FFF800000000000", true, "", 0}, {types.FloatKindFP128, "0xL0000000000000000FFFF800000000000", true, "", 0},
	{types.FloatKindPPC_FP128, "0xM3FF00000000000000000000000000000", true, "", 0}, {types.FloatKindPPC_FP128, "0xMBFF00000000000000000000000000000", true, "", 0},
}

// hC10Negative: the sign the literal denotes (true = negative), for the rows
// where it is stated (infinities and NaNs of the extended kinds).
var hC10Negative = map[string]bool{
	"0xKFFFF8000000000000000": true, "0xK7FFF8000000000000000": false,
	"0xL00000000000000007FFF000000000000": false, "0xL0000000000000000FFFF000000000000": true,
	"0xL00000000000000007FFF800000000000": false, "0xL0000000000000000FFFF800000000000": true,
	"0xM7FF00000000000000000000000000000": false, "0xMFFF00000000000000000000000000000": true,
	"0xM7FF80000000000000000000000000000": false, "0xMFFF80000000000000000000000000000": true,
	"0xH7C00": false, "0xHFC00": true, "0xH7E00": false, "0xHFE00": true,
}

// VfC10_Table
//
//vf:unwind 400
//vf:shards 8
func VfC10_Table() {
	k := vfChoice("row", len(hC10Table))
	row := hC10Table[k]
	typ := &types.FloatType{Kind: row.kind}
	c, err := NewFloatFromString(typ, row.lit)
	vfReach("C10.table")
	vfAssert("C10.table.accepted", err == nil)
	if err != nil {
		return
	}
	out := c.Ident()
	vfObserveStr("out", out)
	// known finding: a ppc_fp128 pair that is not in canonical form (here a low
	// part without a high part) is re-normalised by the big.Float representation
	vfKnown("C10.ppc-fp128-noncanonical-pair", row.lit == "0xM1")
	if row.hex {
		vfAssert("C10.table.canonical-hex-kept", out == row.lit)
	}
	if row.want != "" {
		vfAssert("C10.table.expected-literal", out == row.want)
	}
	if neg, stated := hC10Negative[row.lit]; stated {
		vfAssert("C10.table.sign-is-the-literal's", c.X.Signbit() == neg)
	}
	if row.nan != 0 {
		vfAssert("C10.table.nan-classification-as-llvm-reads-it", c.NaN == (row.nan == 1))
	}
	back, err2 := NewFloatFromString(typ, out)
	vfAssert("C10.table.printed-is-accepted", err2 == nil)
	if err2 != nil {
		return
	}
	vfAssert("C10.table.print-is-fixpoint", back.Ident() == out)
	vfAssert("C10.table.nan-flag-kept", back.NaN == c.NaN)
	vfAssert("C10.table.sign-kept", back.X.Signbit() == c.X.Signbit())
	// a decimal literal must keep its own lexical class (a float literal has a '.')
	dec := true
	if len(out) > 1 {
		if out[:2] == "0x" {
			dec = false
		}
	}
	if dec {
		// LLVM reads a decimal literal as a double and then requires it to be
		// exact in the type: the printed decimal, read as a double, must be the
		// value itself
		asDouble, _, perr := big.ParseFloat(out, 10, 53, big.ToNearestEven)
		vfAssert("C10.table.decimal-parses", perr == nil)
		if perr == nil {
			vfAssert("C10.table.decimal-denotes-the-value-under-llvm-reading", asDouble.Cmp(c.X) == 0)
		}
		hasDot := false
		for i := 0; i < len(out); i++ {
			if out[i] == '.' {
				hasDot = true
			}
		}
		vfAssert("C10.table.decimal-has-fraction-point", hasDot)
	}
}
