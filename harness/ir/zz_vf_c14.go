//go:build verif

package ir

import (
	"github.com/llir/llvm/ir/constant"
	"github.com/llir/llvm/ir/metadata"
	"github.com/llir/llvm/ir/types"
	"github.com/llir/llvm/ir/value"
)

// C14: observing the IR never changes it.  One inductive step: a module is
// built twice from the same symbolic ingredients; one copy is observed
// (printed / queried) before an edit, the other is not; after the same edit
// both must print identically, printing twice gives the same text, and
// nothing panics.

type hMod struct {
	m      *Module
	f      *Func
	b      *Block
	i1, i2 *InstAdd
	named  *InstAdd
	al     *InstAlloca
	dup    *InstAdd // the first of two values named "dup"
}

func hC14Build(n1, n2 string) *hMod {
	m := NewModule()
	g0 := m.NewGlobalDef(n1, constant.NewInt(types.I32, 1))
	gu := m.NewGlobalDef("", constant.NewInt(types.I32, 2))
	f := m.NewFunc(n2, types.I32, NewParam("", types.I32))
	// constant expressions that mention a named global, the unnamed global and
	// the function (whatever text they cache must follow a later renaming or
	// renumbering)
	zero32 := constant.NewInt(types.I32, 0)
	m.NewGlobalDef("cg", constant.NewGetElementPtr(types.I32, g0, zero32))
	m.NewGlobalDef("cu", constant.NewBitCast(gu, types.I8Ptr))
	m.NewGlobalDef("cf", constant.NewPtrToInt(f, types.I64))
	b := f.NewBlock("")
	i1 := b.NewAdd(f.Params[0], constant.NewInt(types.I32, 1))
	named := b.NewAdd(i1, i1)
	named.SetName("k")
	i2 := b.NewAdd(i1, named)
	al := b.NewAlloca(types.I32)
	al.SetName("slot")
	lg := b.NewLoad(types.I32, g0) // a use of the global (its type is printed)
	lg.SetName("lg")
	le := b.NewLoad(types.I32, constant.NewGetElementPtr(types.I32, g0, zero32)) // a constant expression as operand
	le.SetName("le")
	// two values that (for the time being) share a name: a state front ends pass
	// through; edit 18 renames the first
	d1 := b.NewAdd(i1, constant.NewInt(types.I32, 7))
	d1.SetName("dup")
	d2 := b.NewAdd(i1, constant.NewInt(types.I32, 8))
	d2.SetName("dup")
	b.NewRet(i2)
	return &hMod{m: m, f: f, b: b, i1: i1, i2: i2, named: named, al: al, dup: d1}
}

const hC14Edits = 19

// hC14Edit applies edit k.  Edits 0-5 keep the numbers of already numbered
// values; 6-9 shift them.
func hC14Edit(h *hMod, k int, nm string) {
	one := constant.NewInt(types.I32, 1)
	switch k {
	case 0: // append an unnamed instruction at the end of the block
		h.b.Insts = append(h.b.Insts, NewAdd(h.i2, one))
	case 1: // append a new unnamed block
		nb := h.f.NewBlock("")
		nb.NewRet(one)
	case 2: // insert a named instruction at the front
		x := NewAdd(one, one)
		x.SetName(nm)
		h.b.Insts = append([]Instruction{x}, h.b.Insts...)
	case 3: // append an unnamed global and a new function
		h.m.NewGlobalDef("", constant.NewInt(types.I32, 3))
		h.m.NewFunc(nm+"2", types.Void)
	case 4: // replace the terminator
		h.b.Term = NewRet(h.i1)
	case 5: // rename a named value
		h.named.SetName(nm)
	case 6: // insert an unnamed instruction at the front
		h.b.Insts = append([]Instruction{NewAdd(one, one)}, h.b.Insts...)
	case 7: // give a numbered value a name
		h.i1.SetName(nm)
	case 8: // make a named value unnamed
		h.named.SetName("")
	case 10: // "strip all names" (clears the numbers a print stored), then insert an unnamed instruction first
		for _, p := range h.f.Params {
			p.SetName("")
		}
		for _, blk := range h.f.Blocks {
			blk.SetName("")
			for _, inst := range blk.Insts {
				if n, ok := inst.(interface{ SetName(string) }); ok {
					n.SetName("")
				}
			}
		}
		h.b.Insts = append([]Instruction{NewAdd(one, one)}, h.b.Insts...)
	case 11: // clear the global numbers the same way, then insert an unnamed global first
		for _, g := range h.m.Globals {
			if g.IsUnnamed() {
				g.SetName("")
			}
		}
		g := NewGlobalDef("", constant.NewInt(types.I32, 9))
		h.m.Globals = append([]*Global{g}, h.m.Globals...)
	// 12-15: assign an exported field that a derived (cached) type depends on,
	// then add a use whose printed form shows that type
	case 12: // address space of a global, then a load from it
		g := h.m.Globals[0]
		g.AddrSpace = 1
		ld := NewLoad(types.I32, g)
		ld.SetName(nm)
		h.b.Insts = append(h.b.Insts, ld)
	case 13: // content type and initialiser of a global, then a load from it
		g := h.m.Globals[0]
		g.ContentType = types.I64
		g.Init = constant.NewInt(types.I64, 7)
		ld := NewLoad(types.I64, g)
		ld.SetName(nm)
		h.b.Insts = append(h.b.Insts, ld)
	case 14: // address space of a function, then a call from a new function
		h.f.AddrSpace = 2
		caller := h.m.NewFunc(nm+"3", types.Void)
		cb := caller.NewBlock("entry")
		cb.NewCall(h.f, one).SetName("r")
		cb.NewRet(nil)
	case 15: // address space of an alloca, then a load from it
		h.al.AddrSpace = 5
		ld := NewLoad(types.I32, h.al)
		ld.SetName(nm)
		h.b.Insts = append(h.b.Insts, ld)
	case 18: // end a name clash: rename the first of the two values named "dup"
		h.dup.SetName(nm + "u")
	case 16: // rename a global that constant expressions mention
		h.m.Globals[0].SetName(nm + "g")
	case 17: // rename the function that a constant expression mentions
		h.f.SetName(nm + "f")
	case 9: // insert an unnamed global before the unnamed one
		g := NewGlobalDef("", constant.NewInt(types.I32, 9))
		h.m.Globals = append([]*Global{g}, h.m.Globals...)
	}
}

func hC14Observe(h *hMod, how int) {
	switch how {
	case 0:
		_ = h.m.String()
	case 1:
		_ = h.f.LLString()
		_ = h.m.Globals[1].Ident()
	default:
		_ = h.m.Globals[0].Type()
		_ = h.m.Globals[0].String()
		_ = h.f.Params[0].Type()
		_ = h.al.Type()
		_ = h.i2.Type()
		_ = h.i2.Ident()
		_ = h.i2.Operands()
		_ = h.b.Term.Succs()
		_ = h.f.Type()
		_ = h.b.LLString()
		// every identifier, type, text and operand query of every entity of the
		// function and of the module's globals (none of them is a print of the
		// function or the module)
		_, _, _ = h.f.Ident(), h.f.String(), h.f.Name()
		for _, p := range h.f.Params {
			_, _, _, _ = p.Ident(), p.String(), p.Type(), p.LLString()
		}
		for _, blk := range h.f.Blocks {
			_, _, _, _ = blk.Ident(), blk.String(), blk.Type(), blk.Name()
			ba := constant.NewBlockAddress(h.f, blk)
			_, _ = ba.Ident(), ba.String()
			for _, inst := range blk.Insts {
				if v, ok := inst.(value.Named); ok {
					_, _, _, _ = v.Ident(), v.String(), v.Type(), v.Name()
				}
				_ = inst.LLString()
				for _, op := range inst.Operands() {
					if *op != nil {
						_, _, _ = (*op).Ident(), (*op).String(), (*op).Type()
					}
				}
			}
			_, _, _ = blk.Term.LLString(), blk.Term.Succs(), blk.Term.Operands()
		}
		for _, g := range h.m.Globals {
			_, _, _, _ = g.Ident(), g.String(), g.Type(), g.LLString()
			if g.Init != nil {
				_, _, _ = g.Init.Ident(), g.Init.String(), g.Init.Type()
			}
		}
	}
}

// VfC14_PrintAfterEdit
//
//vf:unwind 300
//vf:shards 8
func VfC14_PrintAfterEdit() {
	n1 := vfString("g", 1)
	n2 := vfString("f", 1)
	nm := vfString("nm", 1)
	vfAssume(vfAnd(n1[0] >= 'a', n1[0] <= 'e'))
	vfAssume(vfAnd(n2[0] >= 'f', n2[0] <= 'j'))
	vfAssume(vfAnd(nm[0] >= 'l', nm[0] <= 'p'))
	k := vfChoice("edit", hC14Edits)
	how := vfChoice("observe", 3)
	a, b := hC14Build(n1, n2), hC14Build(n1, n2)
	hC14Observe(a, how)
	hC14Edit(a, k, nm)
	hC14Edit(b, k, nm)
	vfReach("C14.print-after-edit")
	// known finding: an edit that shifts the LLVM numbers of values numbered by
	// an earlier print makes the next print panic (stale IDs are indistinguishable
	// from explicitly set ones)
	vfKnown("C14.stale-ids-after-renumbering-edit", vfAnd(vfAnd(k >= 6, vfOr(k <= 8, k == 9)), how <= 1))
	want := b.m.String()
	got := a.m.String()
	vfObserveStr("want", want)
	vfAssert("C14.print-after-edit.same-text", got == want)
	vfAssert("C14.print-twice", a.m.String() == got)
}

// VfC14_Succs: the successor view follows an edit of the targets made after
// it was observed; the operand view follows an edit made after it was taken.
//
//vf:unwind 100
func VfC14_Succs() {
	f := NewFunc("f", types.Void)
	b1, b2, b3 := f.NewBlock("a"), f.NewBlock("b"), f.NewBlock("c")
	var t Terminator
	k := vfChoice("term", 4)
	cond := constant.NewInt(types.I1, 1)
	switch k {
	case 0:
		t = NewBr(b1)
	case 1:
		t = NewCondBr(cond, b1, b2)
	case 2:
		t = NewSwitch(constant.NewInt(types.I32, 1), b1, NewCase(constant.NewInt(types.I32, 2), b2))
	default:
		t = NewInvoke(NewFunc("g", types.Void), nil, b1, b2)
	}
	vfReach("C14.succs")
	before := t.Succs()
	vfAssert("C14.succs.initial", before[0] == b1)
	// retarget every block operand that is b1 to b3 through the operand slots
	for _, op := range t.Operands() {
		if *op == value.Value(b1) {
			*op = b3
		}
	}
	after := t.Succs()
	vfAssert("C14.succs.after-retarget", vfAnd(len(after) == len(before), after[0] == b3))
}

// VfC14_PrintTwice: printing twice in a row yields identical text also when
// something printed early refers to a local of a function printed later: a
// global initialised with the address of an unnamed block (the block gets its
// number when the function is numbered), a function whose body takes the
// block address of a later, not yet printed function.  The first print is an
// observer like any other: the text must not depend on it.
//
//vf:unwind 300
func VfC14_PrintTwice() {
	m := NewModule()
	f := m.NewFunc(hLetter("f"), types.Void, NewParam("", types.I32))
	entry := f.NewBlock("")
	target := f.NewBlock("")
	entry.NewBr(target)
	target.NewRet(nil)
	where := vfChoice("where", 4)
	switch where {
	case 0: // global initialiser (printed before any function)
		m.NewGlobalDef(hLetter("g"), constant.NewBlockAddress(f, target))
	case 1: // operand in an earlier function
		g := NewFunc("early", types.Void)
		gb := g.NewBlock("")
		gb.NewIndirectBr(constant.NewBlockAddress(f, target), target)
		m.Funcs = append([]*Func{g}, m.Funcs...)
		g.Parent = m
	case 3: // a constant that captured the type of a global before the global's address space was assigned
		g := m.NewGlobalDef(hLetter("g"), constant.NewInt(types.I32, 0))
		m.NewGlobalDef("table", constant.NewArray(nil, g))
		g.AddrSpace = 1
	default: // control: no early reference
	}
	vfReach("C14.print-twice")
	first := m.String()
	second := m.String()
	vfObserveStr("first", first)
	vfAssert("C14.print-twice.same-text", first == second)
	// an identically built, never printed copy prints like the second print
	m2 := NewModule()
	f2 := m2.NewFunc(f.Name(), types.Void, NewParam("", types.I32))
	e2 := f2.NewBlock("")
	t2 := f2.NewBlock("")
	e2.NewBr(t2)
	t2.NewRet(nil)
	switch where {
	case 0:
		m2.NewGlobalDef(m.Globals[0].Name(), constant.NewBlockAddress(f2, t2))
	case 1:
		g := NewFunc("early", types.Void)
		gb := g.NewBlock("")
		gb.NewIndirectBr(constant.NewBlockAddress(f2, t2), t2)
		m2.Funcs = append([]*Func{g}, m2.Funcs...)
		g.Parent = m2
	case 3:
		g := m2.NewGlobalDef(m.Globals[0].Name(), constant.NewInt(types.I32, 0))
		m2.NewGlobalDef("table", constant.NewArray(nil, g))
		g.AddrSpace = 1
		// the copy is queried before it is printed (observers must not matter)
		_ = g.Type()
		_ = g.String()
	}
	vfAssert("C14.print-twice.first-print-of-a-copy", m2.String() == second)
}

// hC14Shifts reports whether edit k, applied after edit prev (-1: none),
// changes the LLVM number of a value that an earlier print may have numbered.
func hC14Shifts(prev, k int) bool {
	switch k {
	case 6, 9:
		return true
	case 7: // names i1 (unnamed unless edit 7 already named it)
		return prev != 7
	case 8: // un-names `named` (named unless edit 8 or the strip of edit 10 un-named it)
		return vfAnd(prev != 8, prev != 10)
	case 5: // names `named` if an earlier edit had un-named it
		return vfOr(prev == 8, prev == 10)
	case 0: // an unnamed instruction at the end of the first block: before the block that edit 1 appended
		return prev == 1
	case 16: // names the first global, which is unnamed if edit 9 or 11 put an unnamed one first
		return vfOr(prev == 9, prev == 11)
	case 18: // names the first "dup", which is unnamed after the strip of edit 10
		return prev == 10
	}
	return false
}

// VfC14_History: histories of two edits with an observer (or none) before
// each of them, against the same two edits alone.  The second edit uses other
// names than the first, so applying an edit twice is legal.  Quick: three
// observer placements (print first; print in between; queries at both
// places); thorough: all sixteen.
//
//vf:unwind 300
//vf:shards 16
func VfC14_History() {
	n1 := vfString("g", 1)
	n2 := vfString("f", 1)
	nm := vfString("nm", 1)
	vfAssume(vfAnd(n1[0] >= 'a', n1[0] <= 'e'))
	vfAssume(vfAnd(n2[0] >= 'f', n2[0] <= 'j'))
	vfAssume(vfAnd(nm[0] >= 'l', nm[0] <= 'p'))
	k1 := vfChoice("edit1", hC14Edits)
	k2 := vfChoice("edit2", hC14Edits)
	o1, o2 := 3, 3
	if vfTier() > 0 {
		o1 = vfChoice("observe1", 4)
		o2 = vfChoice("observe2", 4)
	} else {
		switch vfChoice("placement", 3) {
		case 0:
			o1 = 0
		case 1:
			o2 = 0
		default:
			o1, o2 = 2, 2
		}
	}
	a, b := hC14Build(n1, n2), hC14Build(n1, n2)
	if o1 < 3 {
		hC14Observe(a, o1)
	}
	hC14Edit(a, k1, nm)
	hC14Edit(b, k1, nm)
	if o2 < 3 {
		hC14Observe(a, o2)
	}
	hC14Edit(a, k2, nm+"v")
	hC14Edit(b, k2, nm+"v")
	vfReach("C14.history")
	// known finding (as in PrintAfterEdit): a print, later an edit that shifts numbers
	stale := vfOr(vfAnd(o1 <= 1, vfOr(hC14Shifts(-1, k1), hC14Shifts(k1, k2))), vfAnd(o2 <= 1, hC14Shifts(k1, k2)))
	vfKnown("C14.stale-ids-after-renumbering-edit", stale)
	want := b.m.String()
	got := a.m.String()
	vfObserveStr("want", want)
	vfAssert("C14.history.same-text", got == want)
	vfAssert("C14.history.print-twice", a.m.String() == got)
}

// VfC14_Metadata: the IDs of metadata definitions are written by printing
// too.  A module with three unnumbered definitions (a reference chain and an
// attachment) is observed or not, then edited (a definition appended, inserted
// first, inserted in the middle, the first one removed, two swapped), then
// printed; or a definition is replaced in place, which moves nothing.
//
//vf:unwind 300
func VfC14_Metadata() {
	k := vfChoice("edit", 8)
	how := vfChoice("observe", 3)
	build := func() *Module {
		m := NewModule()
		x := &metadata.Tuple{MetadataID: -1, Fields: []metadata.Field{&metadata.String{Value: "x"}}}
		y := &metadata.Tuple{MetadataID: -1, Fields: []metadata.Field{x}}
		z := &metadata.Tuple{MetadataID: -1, Fields: []metadata.Field{y, x}}
		m.MetadataDefs = append(m.MetadataDefs, x, y, z)
		g := m.NewGlobalDef("g", constant.NewInt(types.I32, 1))
		g.Metadata = append(g.Metadata, &metadata.Attachment{Name: "dbg", Node: z})
		m.NamedMetadataDefs = map[string]*metadata.NamedDef{"nm": {Name: "nm", Nodes: []metadata.Node{y}}}
		return m
	}
	edit := func(m *Module) {
		c := &metadata.Tuple{MetadataID: -1, Fields: []metadata.Field{&metadata.String{Value: "c"}}}
		switch k {
		case 0: // append
			m.MetadataDefs = append(m.MetadataDefs, c)
		case 1: // insert first
			m.MetadataDefs = append([]metadata.Definition{c}, m.MetadataDefs...)
		case 2: // insert in the middle
			m.MetadataDefs = []metadata.Definition{m.MetadataDefs[0], c, m.MetadataDefs[1], m.MetadataDefs[2]}
		case 3: // remove the first (its users keep referring to it; it is printed inline no more: drop the references too)
			y := m.MetadataDefs[1].(*metadata.Tuple)
			z := m.MetadataDefs[2].(*metadata.Tuple)
			y.Fields = []metadata.Field{&metadata.String{Value: "y"}}
			z.Fields = []metadata.Field{y}
			m.MetadataDefs = m.MetadataDefs[1:]
		case 4: // swap two
			m.MetadataDefs[0], m.MetadataDefs[1] = m.MetadataDefs[1], m.MetadataDefs[0]
		case 6: // replace the first definition in place (a temporary node swapped for the final one); no position changes
			y := m.MetadataDefs[1].(*metadata.Tuple)
			z := m.MetadataDefs[2].(*metadata.Tuple)
			y.Fields = []metadata.Field{c}
			z.Fields = []metadata.Field{y, c}
			m.MetadataDefs[0] = c
		case 7: // replace the last definition in place
			m.MetadataDefs[2] = c
			m.Globals[0].Metadata[0].Node = c
		default: // a new attachment to an existing node, nothing moves
			m.Globals[0].Metadata = append(m.Globals[0].Metadata, &metadata.Attachment{Name: "prof", Node: m.MetadataDefs[0].(*metadata.Tuple)})
		}
	}
	a, b := build(), build()
	switch how {
	case 0:
		_ = a.String()
	case 1:
		_ = a.AssignMetadataIDs()
	default: // queries that are not prints of the module
		for _, d := range a.MetadataDefs {
			_, _ = d.Ident(), d.LLString()
		}
		_ = a.Globals[0].LLString()
	}
	edit(a)
	edit(b)
	vfReach("C14.metadata")
	// known finding: the IDs an earlier print (or AssignMetadataIDs) stored are
	// kept, so an edit that moves a definition to another position among the
	// unnumbered ones leaves the observed module numbered differently
	vfKnown("C14.metadata-ids-kept-after-print", vfAnd(how <= 1, vfAnd(k >= 1, k <= 4)))
	want := b.String()
	got := a.String()
	vfObserveStr("want", want)
	vfAssert("C14.metadata.same-text", got == want)
	vfAssert("C14.metadata.print-twice", a.String() == got)
}
