//go:build verif

package ir

import (
	"io"

	"github.com/llir/llvm/ir/constant"
	"github.com/llir/llvm/ir/enum"
	"github.com/llir/llvm/ir/metadata"
	"github.com/llir/llvm/ir/types"
)

// C19: WriteTo honours io.WriterTo for every writer behaviour: the count is
// the number of bytes the writer accepted, the error is the first error, no
// Write after an error, the chunks delivered are in order the chunks of
// String().

type hErrT struct{}

func (hErrT) Error() string { return "harness write error" }

var hErr = &hErrT{}

// hWriter is an io.Writer with symbolic behaviour: every call may fail
// (symbolic flag) after accepting a symbolic number n <= len(p) of bytes.
type hWriter struct {
	calls     int
	failed    bool
	full      []byte // chunks of the calls that succeeded, concatenated
	failChunk []byte
	failN     int
	total     int64
	short     bool // allow n == len(p) together with an error only if false
	kind      int  // which error value a failing call returns (hWriterErr)
}

// hWriterErr: the error value of a failing call.  A writer may fail with any
// error value, in particular with one of the standard sentinels that code
// might be tempted to treat specially (io.ErrShortWrite: "try again",
// io.EOF: "done"); the contract is the same for all of them.
func hWriterErr(kind int) error {
	switch kind {
	case 1:
		return io.ErrShortWrite
	case 2:
		return io.EOF
	case 3:
		return io.ErrClosedPipe
	}
	return hErr
}

const hErrKinds = 4

var hCallNames = [...]string{"c00", "c01", "c02", "c03", "c04", "c05", "c06", "c07", "c08", "c09", "c10", "c11", "c12", "c13", "c14", "c15", "c16", "c17", "c18", "c19", "c20", "c21", "c22", "c23", "c24", "c25", "c26", "c27", "c28", "c29", "c30", "c31", "c32", "c33", "c34", "c35", "c36", "c37", "c38", "c39", "c40", "c41", "c42", "c43", "c44", "c45", "c46", "c47", "c48", "c49"}

func (w *hWriter) Write(p []byte) (int, error) {
	k := w.calls
	w.calls++
	vfAssert("C19.no-write-after-error", vfNot(w.failed))
	if w.failed {
		// already a violation (reported above): fail again without forking, so
		// that a tree that keeps writing does not multiply the paths
		return 0, hWriterErr(w.kind)
	}
	if k >= len(hCallNames) {
		vfCut("more than 50 Write calls")
	}
	if !vfBool(hCallNames[k] + ".fail") {
		w.full = append(w.full, p...)
		w.total += int64(len(p))
		return len(p), nil
	}
	n := vfInt(hCallNames[k] + ".n")
	vfAssume(vfAnd(n >= 0, n <= len(p)))
	w.failed = true
	w.failChunk = append([]byte(nil), p...)
	w.failN = n
	w.total += int64(n)
	return n, hWriterErr(w.kind)
}

func hLetter(name string) string {
	s := vfString(name, 1)
	vfAssume(vfAnd(s[0] >= 'a', s[0] <= 'z'))
	return s
}

// hModule builds a module in which section k is present iff present(k).
func hModule(present func(k int) bool) *Module {
	m := NewModule()
	if present(0) {
		m.SourceFilename = hLetter("src")
	}
	if present(1) {
		m.DataLayout = "e"
	}
	if present(2) {
		m.TargetTriple = "x"
	}
	if present(3) {
		m.ModuleAsms = []string{"nop"}
	}
	var st types.Type = types.I32
	if present(4) {
		st = m.NewTypeDef(hLetter("ty"), types.NewStruct(types.I32))
	}
	var cd *ComdatDef
	if present(5) {
		cd = &ComdatDef{Name: hLetter("cd"), Kind: enum.SelectionKindAny}
		m.ComdatDefs = append(m.ComdatDefs, cd)
	}
	var g *Global
	if present(6) {
		g = m.NewGlobalDef(hLetter("g"), constant.NewInt(types.I32, 7))
		m.NewGlobal("", st) // unnamed: gets an ID while printing
	}
	if present(7) {
		tgt := NewGlobalDef("t", constant.NewInt(types.I32, 1))
		m.NewAlias(hLetter("al"), tgt)
	}
	var f *Func
	if present(9) {
		f = m.NewFunc(hLetter("f"), types.Void, NewParam("", types.I32))
		b := f.NewBlock("")
		b.NewRet(nil)
		m.NewFunc("decl", types.I32)
	}
	if present(8) {
		res := NewFunc("r", types.NewPointer(types.I32))
		m.NewIFunc(hLetter("if"), res)
	}
	if present(10) {
		m.AttrGroupDefs = append(m.AttrGroupDefs, &AttrGroupDef{ID: 0, FuncAttrs: []FuncAttribute{enum.FuncAttrNoUnwind}})
	}
	var md *metadata.Tuple
	if present(12) {
		md = &metadata.Tuple{MetadataID: -1}
		m.MetadataDefs = append(m.MetadataDefs, md)
	}
	if present(11) {
		nd := &metadata.NamedDef{Name: hLetter("nm")}
		if md != nil {
			nd.Nodes = append(nd.Nodes, md)
		}
		m.NamedMetadataDefs[nd.Name] = nd
	}
	if present(13) {
		if g != nil {
			m.UseListOrders = append(m.UseListOrders, &UseListOrder{Value: g, Indices: []uint64{1, 0}})
		}
		if f != nil {
			m.UseListOrderBBs = append(m.UseListOrderBBs, &UseListOrderBB{Func: f, Block: f.Blocks[0], Indices: []uint64{1, 0}})
		}
	}
	return m
}

const hSections = 14

// VfC19_WriteTo: configurations: all sections; only section k; all but k.
//
//vf:unwind 400
//vf:shards 16
//vf:steps 50000000
func VfC19_WriteTo() {
	ncfg := 1 + 2*hSections
	if vfTier() > 0 {
		ncfg++ // thorough: one more configuration with an entity of more than 64 KiB (minutes of interpretation)
	}
	cfg := vfChoice("cfg", ncfg)
	if cfg == 1+2*hSections {
		hC19Large()
		return
	}
	m := hModule(func(k int) bool {
		switch {
		case cfg == 0:
			return true
		case cfg <= hSections:
			return k == cfg-1
		default:
			return k != cfg-1-hSections
		}
	})
	want := m.String()
	w := &hWriter{}
	if cfg == 0 {
		w.kind = vfChoice("errkind", hErrKinds)
	}
	n, err := m.WriteTo(w)
	vfReach("C19.writeto")
	vfObserveInt("calls", w.calls)
	vfAssert("C19.count-is-accepted-bytes", n == w.total)
	if w.failed {
		vfAssert("C19.first-error-returned", err == hWriterErr(w.kind))
		got := string(w.full) + string(w.failChunk)
		vfAssert("C19.delivered-is-prefix", vfAnd(len(got) <= len(want), got == want[:minInt(len(got), len(want))]))
		vfAssert("C19.count-bounded", vfAnd(int64(len(w.full)) <= n, n <= int64(len(got))))
	} else {
		vfAssert("C19.no-error", err == nil)
		vfAssert("C19.bytes-equal-string", string(w.full) == want)
		vfAssert("C19.count-equals-length", n == int64(len(want)))
	}
}

func minInt(a, b int) int {
	if a < b {
		return a
	}
	return b
}

// VfC19_Step: one call on a fmtWriter from an arbitrary (size, err) state.
//
//vf:unwind 100
func VfC19_Step() {
	w := &hWriter{kind: vfChoice("errkind", hErrKinds)}
	size := vfInt64("size")
	vfAssume(vfAnd(size >= 0, size < 1<<40))
	fw := &fmtWriter{w: w, size: size}
	pre := vfBool("pre.err")
	if pre {
		fw.err = hErr
	}
	s := vfString("s", vfLen("ls", 0, 2))
	var n int
	var err error
	which := vfChoice("call", 3)
	switch which {
	case 0:
		n, err = fw.Fprint(s)
	case 1:
		n, err = fw.Fprintf("%s", s)
	default:
		n, err = fw.Fprintln(s)
	}
	vfReach("C19.step")
	if pre {
		vfAssert("C19.step.skip-after-error", vfAnd(w.calls == 0, vfAnd(fw.size == size, fw.err == error(hErr))))
		vfAssert("C19.step.skip-returns-zero", vfAnd(n == 0, err == nil))
		return
	}
	vfAssert("C19.step.one-write", w.calls == 1)
	vfAssert("C19.step.size", vfAnd(fw.size == size+w.total, int64(n) == w.total))
	if w.failed {
		vfAssert("C19.step.err-recorded", vfAnd(fw.err == hWriterErr(w.kind), err == hWriterErr(w.kind)))
	} else {
		vfAssert("C19.step.no-err", vfAnd(fw.err == nil, err == nil))
	}
}

// hOKWriter never fails and collects what it receives.
type hOKWriter struct{ got []byte }

func (w *hOKWriter) Write(p []byte) (int, error) {
	w.got = append(w.got, p...)
	return len(p), nil
}

// VfC19_History: the contract holds for every call whatever happened to an
// earlier call in the same process: a WriteTo against a writer that fails
// somewhere (symbolic) is followed by a WriteTo of the same or of another
// module against a healthy writer, which must deliver the whole text, count
// it, and return no error; String() still works.  sync.Pool, should the
// library use one, is modelled as handing out any pooled object or none.
//
//vf:unwind 400
//vf:shards 4
//vf:steps 50000000
func VfC19_History() {
	m := hModule(func(k int) bool { return k == 0 || k == 6 || k == 9 })
	other := NewModule()
	other.NewGlobalDef(hLetter("og"), constant.NewInt(types.I32, 1))
	w := &hWriter{}
	n1, err1 := m.WriteTo(w)
	vfAssert("C19.history.first-count", n1 == w.total)
	if w.failed {
		vfAssert("C19.history.first-error", err1 == error(hErr))
	}
	second := m
	if vfChoice("second", 2) == 1 {
		second = other
	}
	ok := &hOKWriter{}
	n2, err2 := second.WriteTo(ok)
	vfReach("C19.history")
	want := second.String()
	vfAssert("C19.history.no-error-after-earlier-failure", err2 == nil)
	vfAssert("C19.history.whole-text-delivered", string(ok.got) == want)
	vfAssert("C19.history.count-equals-length", n2 == int64(len(want)))
}

// hC19Large: one top-level entity of more than 64 KiB between two small ones
// (size thresholds in the writer path): the contract is the same.
func hC19Large() {
	m := NewModule()
	m.NewGlobalDef(hLetter("g"), constant.NewInt(types.I32, 7))
	big := make([]byte, 70000)
	for i := range big {
		big[i] = 'a' + byte(i%26)
	}
	f := m.NewFunc(string(big), types.Void)
	f.NewBlock("entry").NewRet(nil)
	m.NewGlobalDef("tail", constant.NewInt(types.I32, 1))
	want := m.String()
	w := &hWriter{}
	n, err := m.WriteTo(w)
	vfReach("C19.writeto.large")
	vfAssert("C19.count-is-accepted-bytes", n == w.total)
	if w.failed {
		vfAssert("C19.first-error-returned", err == error(hErr))
		vfAssert("C19.count-bounded", vfAnd(int64(len(w.full)) <= n, n <= int64(len(w.full)+len(w.failChunk))))
	} else {
		vfAssert("C19.no-error", err == nil)
		vfAssert("C19.count-equals-length", n == int64(len(want)))
	}
}
