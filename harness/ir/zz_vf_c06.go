//go:build verif

package ir

import (
	"github.com/llir/llvm/ir/constant"
	"github.com/llir/llvm/ir/enum"
	"github.com/llir/llvm/ir/types"
	"github.com/llir/llvm/ir/value"
)

// C06: the type reported by every instruction, value-producing terminator and
// constant expression equals LLVM's result type (LangRef), compared
// structurally with a comparison written here (not types.Equal, which is the
// subject of C16).  Operand types have symbolic widths, lengths, address
// spaces and scalability.

// hTySame: structural identity of two types.
func hTySame(t, u types.Type) bool {
	switch t := t.(type) {
	case *types.VoidType:
		_, ok := u.(*types.VoidType)
		return ok
	case *types.LabelType:
		_, ok := u.(*types.LabelType)
		return ok
	case *types.TokenType:
		_, ok := u.(*types.TokenType)
		return ok
	case *types.MetadataType:
		_, ok := u.(*types.MetadataType)
		return ok
	case *types.IntType:
		if u, ok := u.(*types.IntType); ok {
			return t.BitSize == u.BitSize
		}
	case *types.FloatType:
		if u, ok := u.(*types.FloatType); ok {
			return t.Kind == u.Kind
		}
	case *types.PointerType:
		if u, ok := u.(*types.PointerType); ok {
			return vfAnd(t.AddrSpace == u.AddrSpace, hTySame(t.ElemType, u.ElemType))
		}
	case *types.VectorType:
		if u, ok := u.(*types.VectorType); ok {
			return vfAnd(vfAnd(t.Len == u.Len, t.Scalable == u.Scalable), hTySame(t.ElemType, u.ElemType))
		}
	case *types.ArrayType:
		if u, ok := u.(*types.ArrayType); ok {
			return vfAnd(t.Len == u.Len, hTySame(t.ElemType, u.ElemType))
		}
	case *types.FuncType:
		if u, ok := u.(*types.FuncType); ok {
			if len(t.Params) != len(u.Params) {
				return false
			}
			r := vfAnd(t.Variadic == u.Variadic, hTySame(t.RetType, u.RetType))
			for i := range t.Params {
				r = vfAnd(r, hTySame(t.Params[i], u.Params[i]))
			}
			return r
		}
	case *types.StructType:
		if u, ok := u.(*types.StructType); ok {
			if len(t.TypeName) > 0 || len(u.TypeName) > 0 {
				return t.TypeName == u.TypeName
			}
			if len(t.Fields) != len(u.Fields) {
				return false
			}
			r := t.Packed == u.Packed
			for i := range t.Fields {
				r = vfAnd(r, hTySame(t.Fields[i], u.Fields[i]))
			}
			return r
		}
	}
	return false
}

func hIntTy(name string) *types.IntType {
	w := uint64(vfByte(name + ".bits"))
	vfAssume(vfAnd(w >= 1, w <= 128))
	return types.NewInt(w)
}

func hFloatTy(name string) *types.FloatType {
	k := vfByte(name + ".fkind")
	vfAssume(k <= 6)
	return &types.FloatType{Kind: types.FloatKind(k)}
}

func hPtrTy(name string, elem types.Type) *types.PointerType {
	p := types.NewPointer(elem)
	p.AddrSpace = types.AddrSpace(vfByte(name + ".as"))
	return p
}

// hMaybeVec returns elem or a vector of elem with symbolic length and
// scalability (forked).
func hMaybeVec(name string, elem types.Type) (types.Type, *types.VectorType) {
	if vfChoice(name+".isvec", 2) == 0 {
		return elem, nil
	}
	n := uint64(vfByte(name + ".len"))
	vfAssume(n >= 1)
	v := &types.VectorType{Len: n, ElemType: elem, Scalable: vfBool(name + ".scalable")}
	return v, v
}

func hV(name string, t types.Type) value.Value       { return NewParam(name, t) }
func hC(t types.Type) constant.Constant              { return constant.NewUndef(t) }
func hLike(v *types.VectorType, elem types.Type) types.Type {
	if v == nil {
		return elem
	}
	return &types.VectorType{Len: v.Len, ElemType: elem, Scalable: v.Scalable}
}

// VfC06_Compare: icmp / fcmp, instruction and constant expression.
//
//vf:unwind 100
func VfC06_Compare() {
	var elem types.Type
	kind := vfChoice("elem", 3)
	switch kind {
	case 0:
		elem = hIntTy("x")
	case 1:
		elem = hPtrTy("x", types.I8)
	default:
		elem = hFloatTy("x")
	}
	t, vt := hMaybeVec("x", elem)
	want := hLike(vt, types.I1)
	vfReach("C06.compare")
	if kind == 2 {
		got := NewFCmp(enum.FPredOEQ, hV("a", t), hV("b", t)).Type()
		vfAssert("C06.fcmp.inst", hTySame(got, want))
		gotc := constant.NewFCmp(enum.FPredOEQ, hC(t), hC(t)).Type()
		vfAssert("C06.fcmp.expr", hTySame(gotc, want))
		return
	}
	got := NewICmp(enum.IPredEQ, hV("a", t), hV("b", t)).Type()
	vfAssert("C06.icmp.inst", hTySame(got, want))
	gotc := constant.NewICmp(enum.IPredEQ, hC(t), hC(t)).Type()
	vfAssert("C06.icmp.expr", hTySame(gotc, want))
}

// VfC06_Vector: extractelement, insertelement, shufflevector, select, freeze,
// fneg, binary operations on vectors.
//
//vf:unwind 100
func VfC06_Vector() {
	var elem types.Type
	isFloat := vfChoice("elem", 2) == 1
	if isFloat {
		elem = hFloatTy("x")
	} else {
		elem = hIntTy("x")
	}
	n := uint64(vfByte("x.len"))
	vfAssume(n >= 1)
	vt := &types.VectorType{Len: n, ElemType: elem, Scalable: vfBool("x.scalable")}
	mn := uint64(vfByte("m.len"))
	vfAssume(mn >= 1)
	// LLVM: the mask of a scalable shuffle is scalable, of a fixed one fixed
	mt := &types.VectorType{Len: mn, ElemType: types.I32, Scalable: vt.Scalable}
	idx := hV("i", types.I32)
	x, y := hV("x", vt), hV("y", vt)
	vfReach("C06.vector")
	vfAssert("C06.extractelement.inst", hTySame(NewExtractElement(x, idx).Type(), elem))
	vfAssert("C06.insertelement.inst", hTySame(NewInsertElement(x, hV("e", elem), idx).Type(), vt))
	wantShuf := &types.VectorType{Len: mn, ElemType: elem, Scalable: vt.Scalable}
	vfAssert("C06.shufflevector.inst", hTySame(NewShuffleVector(x, y, hV("m", mt)).Type(), wantShuf))
	vfAssert("C06.extractelement.expr", hTySame(constant.NewExtractElement(hC(vt), hC(types.I32)).Type(), elem))
	vfAssert("C06.insertelement.expr", hTySame(constant.NewInsertElement(hC(vt), hC(elem), hC(types.I32)).Type(), vt))
	vfAssert("C06.shufflevector.expr", hTySame(constant.NewShuffleVector(hC(vt), hC(vt), hC(mt)).Type(), wantShuf))
	condT := &types.VectorType{Len: n, ElemType: types.I1, Scalable: vt.Scalable}
	vfAssert("C06.select.inst", hTySame(NewSelect(hV("c", condT), x, y).Type(), vt))
	vfAssert("C06.select.expr", hTySame(constant.NewSelect(hC(condT), hC(vt), hC(vt)).Type(), vt))
	vfAssert("C06.freeze.inst", hTySame((&InstFreeze{X: x}).Type(), vt))
	vfAssert("C06.phi.inst", hTySame(NewPhi(NewIncoming(x, NewBlock("p"))).Type(), vt))
	if isFloat {
		vfAssert("C06.fneg.inst", hTySame(NewFNeg(x).Type(), vt))
		vfAssert("C06.fadd.inst", hTySame(NewFAdd(x, y).Type(), vt))
		vfAssert("C06.fneg.expr", hTySame(constant.NewFNeg(hC(vt)).Type(), vt))
	} else {
		vfAssert("C06.add.inst", hTySame(NewAdd(x, y).Type(), vt))
		vfAssert("C06.xor.inst", hTySame(NewXor(x, y).Type(), vt))
		vfAssert("C06.shl.inst", hTySame(NewShl(x, y).Type(), vt))
		vfAssert("C06.add.expr", hTySame(constant.NewAdd(hC(vt), hC(vt)).Type(), vt))
		vfAssert("C06.xor.expr", hTySame(constant.NewXor(hC(vt), hC(vt)).Type(), vt))
	}
}

// VfC06_Memory: alloca, load, cmpxchg, atomicrmw, casts, va_arg, landingpad.
//
//vf:unwind 100
func VfC06_Memory() {
	it := hIntTy("x")
	pt := hPtrTy("p", it)
	vfReach("C06.memory")
	al := NewAlloca(it)
	vfAssert("C06.alloca.inst", hTySame(al.Type(), types.NewPointer(it)))
	vfAssert("C06.load.inst", hTySame(NewLoad(it, hV("p", pt)).Type(), it))
	cx := NewCmpXchg(hV("p", pt), hV("c", it), hV("n", it), enum.AtomicOrderingMonotonic, enum.AtomicOrderingMonotonic)
	vfAssert("C06.cmpxchg.inst", hTySame(cx.Type(), types.NewStruct(it, types.I1)))
	vfAssert("C06.atomicrmw.inst", hTySame(NewAtomicRMW(enum.AtomicOpAdd, hV("p", pt), hV("v", it), enum.AtomicOrderingMonotonic).Type(), it))
	to := hIntTy("to")
	vfAssert("C06.trunc.inst", hTySame(NewTrunc(hV("v", types.I128), to).Type(), to))
	vfAssert("C06.zext.inst", hTySame(NewZExt(hV("v", types.I1), to).Type(), to))
	vfAssert("C06.ptrtoint.inst", hTySame(NewPtrToInt(hV("p", pt), to).Type(), to))
	vfAssert("C06.inttoptr.inst", hTySame(NewIntToPtr(hV("v", it), pt).Type(), pt))
	vfAssert("C06.bitcast.inst", hTySame(NewBitCast(hV("p", pt), types.I8Ptr).Type(), types.I8Ptr))
	vfAssert("C06.trunc.expr", hTySame(constant.NewTrunc(hC(types.I128), to).Type(), to))
	vfAssert("C06.ptrtoint.expr", hTySame(constant.NewPtrToInt(hC(pt), to).Type(), to))
	vfAssert("C06.inttoptr.expr", hTySame(constant.NewIntToPtr(hC(it), pt).Type(), pt))
	vfAssert("C06.bitcast.expr", hTySame(constant.NewBitCast(hC(pt), types.I8Ptr).Type(), types.I8Ptr))
	vfAssert("C06.vaarg.inst", hTySame(NewVAArg(hV("l", types.I8Ptr), it).Type(), it))
	lp := types.NewStruct(types.I8Ptr, it)
	vfAssert("C06.landingpad.inst", hTySame(NewLandingPad(lp).Type(), lp))
}

// VfC06_Aggregate: extractvalue / insertvalue follow the index path through
// arrays and (packed) structs: every index path of a nested aggregate in which
// the indices at different depths differ.
//
//vf:unwind 100
func VfC06_Aggregate() {
	a, b, c, d := hIntTy("a"), hFloatTy("b"), hIntTy("c"), hIntTy("d")
	n := uint64(vfByte("arr.len"))
	vfAssume(n >= 3)
	leaf := &types.StructType{Fields: []types.Type{c, d, b}}
	inner := &types.StructType{Fields: []types.Type{b, c, leaf}, Packed: vfBool("inner.packed")}
	arr := types.NewArray(n, inner)
	outer := types.NewStruct(a, arr, inner)
	x := hV("x", outer)
	vfReach("C06.aggregate")
	type pth struct {
		idx  []uint64
		want types.Type
	}
	paths := []pth{
		{[]uint64{0}, a}, {[]uint64{1}, arr}, {[]uint64{2}, inner},
		{[]uint64{1, 0}, inner}, {[]uint64{1, 2}, inner},
		{[]uint64{2, 0}, b}, {[]uint64{2, 1}, c}, {[]uint64{2, 2}, leaf},
		{[]uint64{1, 2, 0}, b}, {[]uint64{1, 0, 1}, c}, {[]uint64{1, 1, 2}, leaf},
		{[]uint64{2, 2, 0}, c}, {[]uint64{2, 2, 1}, d}, {[]uint64{2, 2, 2}, b},
		{[]uint64{1, 2, 2, 0}, c}, {[]uint64{1, 0, 2, 1}, d}, {[]uint64{1, 1, 2, 2}, b},
	}
	k := vfChoice("path", len(paths))
	p := paths[k]
	vfAssert("C06.extractvalue.inst", hTySame(NewExtractValue(x, p.idx...).Type(), p.want))
	vfAssert("C06.insertvalue.inst", hTySame(NewInsertValue(x, hV("e", p.want), p.idx...).Type(), outer))
	cx := hC(outer)
	_ = cx
}

// VfC06_Calls: call, invoke, callbr yield the callee's return type (also for
// variadic callees and callees in another address space).
//
//vf:unwind 100
func VfC06_Calls() {
	var ret types.Type
	switch vfChoice("ret", 3) {
	case 0:
		ret = types.Void
	case 1:
		ret = hIntTy("r")
	default:
		ret = hPtrTy("r", types.I8)
	}
	f := NewFunc("f", ret, NewParam("a", types.I32))
	f.Sig.Variadic = vfBool("variadic")
	blk := NewBlock("b")
	arg := hV("x", types.I32)
	vfReach("C06.calls")
	vfAssert("C06.call.inst", hTySame(NewCall(f, arg).Type(), ret))
	vfAssert("C06.invoke.term", hTySame(NewInvoke(f, []value.Value{arg}, blk, blk).Type(), ret))
	vfAssert("C06.callbr.term", hTySame(NewCallBr(f, []value.Value{arg}, blk).Type(), ret))
	// through a function pointer value
	fp := hV("fp", types.NewPointer(f.Sig))
	vfAssert("C06.call.inst.pointer", hTySame(NewCall(fp, arg).Type(), ret))
	vfAssert("C06.catchswitch.term", hTySame(NewCatchSwitch(constant.None, []*Block{blk}, nil).Type(), types.Token))
}

// VfC06_Casts: casts yield their target type - every conversion constructor,
// as an instruction and as a constant expression, with a scalar or a vector
// operand (symbolic length, fixed or scalable) and the target given in full:
// lane-wise (vector to vector of the same shape) and scalar to scalar for all
// of them, and for bitcast also between a vector and a non-vector type.
//
//vf:unwind 100
func VfC06_Casts() {
	n := uint64(vfByte("len"))
	vfAssume(vfAnd(n >= 1, n <= 16))
	scal := vfBool("scalable")
	vec := func(el types.Type) types.Type { return &types.VectorType{Len: n, ElemType: el, Scalable: scal} }
	fromVec := vfChoice("from", 2) == 1
	toVec := vfChoice("to", 2) == 1
	shape := func(isVec bool, el types.Type) types.Type {
		if isVec {
			return vec(el)
		}
		return el
	}
	vfReach("C06.casts")
	pI8 := types.I8Ptr
	type cast struct {
		id       string
		from, to types.Type // element types
		inst     func(value.Value, types.Type) interface{ Type() types.Type }
		expr     func(constant.Constant, types.Type) interface{ Type() types.Type }
	}
	casts := []cast{
		{"trunc", types.I64, types.I8, func(v value.Value, t types.Type) interface{ Type() types.Type } { return NewTrunc(v, t) }, func(c constant.Constant, t types.Type) interface{ Type() types.Type } { return constant.NewTrunc(c, t) }},
		{"zext", types.I8, types.I64, func(v value.Value, t types.Type) interface{ Type() types.Type } { return NewZExt(v, t) }, func(c constant.Constant, t types.Type) interface{ Type() types.Type } { return constant.NewZExt(c, t) }},
		{"sext", types.I8, types.I64, func(v value.Value, t types.Type) interface{ Type() types.Type } { return NewSExt(v, t) }, func(c constant.Constant, t types.Type) interface{ Type() types.Type } { return constant.NewSExt(c, t) }},
		{"fptrunc", types.Double, types.Float, func(v value.Value, t types.Type) interface{ Type() types.Type } { return NewFPTrunc(v, t) }, func(c constant.Constant, t types.Type) interface{ Type() types.Type } { return constant.NewFPTrunc(c, t) }},
		{"fpext", types.Float, types.Double, func(v value.Value, t types.Type) interface{ Type() types.Type } { return NewFPExt(v, t) }, func(c constant.Constant, t types.Type) interface{ Type() types.Type } { return constant.NewFPExt(c, t) }},
		{"fptoui", types.Double, types.I32, func(v value.Value, t types.Type) interface{ Type() types.Type } { return NewFPToUI(v, t) }, func(c constant.Constant, t types.Type) interface{ Type() types.Type } { return constant.NewFPToUI(c, t) }},
		{"fptosi", types.Double, types.I32, func(v value.Value, t types.Type) interface{ Type() types.Type } { return NewFPToSI(v, t) }, func(c constant.Constant, t types.Type) interface{ Type() types.Type } { return constant.NewFPToSI(c, t) }},
		{"uitofp", types.I32, types.Double, func(v value.Value, t types.Type) interface{ Type() types.Type } { return NewUIToFP(v, t) }, func(c constant.Constant, t types.Type) interface{ Type() types.Type } { return constant.NewUIToFP(c, t) }},
		{"sitofp", types.I32, types.Double, func(v value.Value, t types.Type) interface{ Type() types.Type } { return NewSIToFP(v, t) }, func(c constant.Constant, t types.Type) interface{ Type() types.Type } { return constant.NewSIToFP(c, t) }},
		{"ptrtoint", pI8, types.I64, func(v value.Value, t types.Type) interface{ Type() types.Type } { return NewPtrToInt(v, t) }, func(c constant.Constant, t types.Type) interface{ Type() types.Type } { return constant.NewPtrToInt(c, t) }},
		{"inttoptr", types.I64, pI8, func(v value.Value, t types.Type) interface{ Type() types.Type } { return NewIntToPtr(v, t) }, func(c constant.Constant, t types.Type) interface{ Type() types.Type } { return constant.NewIntToPtr(c, t) }},
		{"addrspacecast", pI8, &types.PointerType{ElemType: types.I8, AddrSpace: 3}, func(v value.Value, t types.Type) interface{ Type() types.Type } { return NewAddrSpaceCast(v, t) }, func(c constant.Constant, t types.Type) interface{ Type() types.Type } { return constant.NewAddrSpaceCast(c, t) }},
		{"bitcast", types.I32, types.Float, func(v value.Value, t types.Type) interface{ Type() types.Type } { return NewBitCast(v, t) }, func(c constant.Constant, t types.Type) interface{ Type() types.Type } { return constant.NewBitCast(c, t) }},
	}
	k := vfChoice("cast", len(casts))
	c := casts[k]
	if c.id != "bitcast" && fromVec != toVec {
		return // only bitcast converts between a vector and a non-vector type
	}
	from, to := shape(fromVec, c.from), shape(toVec, c.to)
	if c.id == "bitcast" && fromVec != toVec {
		// e.g. <N x i32> to iM and back: the element types are integers here
		from, to = shape(fromVec, types.I32), shape(toVec, types.I64)
	}
	vfAssert("C06.casts.inst-yields-target", hTySame(c.inst(hV("v", from), to).Type(), to))
	vfAssert("C06.casts.expr-yields-target", hTySame(c.expr(hC(from), to).Type(), to))
}
