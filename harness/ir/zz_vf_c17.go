//go:build verif

package ir

import (
	"github.com/llir/llvm/ir/metadata"
)

// C17: metadata IDs are unique: explicitly numbered nodes keep their number,
// unnumbered ones receive the smallest unused numbers in list order, a
// reference prints the ID of the node it points to, re-assignment changes
// nothing; duplicate explicit IDs are the documented error.

// VfC17_AssignMetadataIDs
//
//vf:unwind 200
//vf:shards 4
func VfC17_AssignMetadataIDs() {
	maxN := 3
	if vfTier() > 0 {
		maxN = 4
	}
	n := vfLen("n", 0, maxN)
	m := NewModule()
	var defs []*metadata.Tuple
	var pre []int64
	names := [...]string{"md0", "md1", "md2", "md3"}
	for i := 0; i < n; i++ {
		id := int64(-1)
		if vfChoice("explicit"+string(rune('0'+i)), 2) == 1 {
			id = int64(vfByte(names[i]))
			vfAssume(id < 12)
		}
		t := &metadata.Tuple{MetadataID: metadata.MetadataID(id)}
		defs = append(defs, t)
		pre = append(pre, id)
		m.MetadataDefs = append(m.MetadataDefs, t)
	}
	// every node refers to its successor (the last to the first): a cycle
	for i := 0; i < n; i++ {
		defs[i].Fields = []metadata.Field{defs[(i+1)%n]}
	}
	// explicit IDs pairwise distinct?
	distinct := true
	for i := 0; i < n; i++ {
		for j := i + 1; j < n; j++ {
			if pre[i] >= 0 {
				if pre[j] >= 0 {
					distinct = vfAnd(distinct, pre[i] != pre[j])
				}
			}
		}
	}
	vfReach("C17.assign")
	err := m.AssignMetadataIDs()
	vfAssert("C17.assign.accepts-distinct", vfImp(distinct, err == nil))
	vfAssert("C17.assign.rejects-duplicates", vfImp(err == nil, distinct))
	if err != nil {
		return
	}
	// reference: smallest unused naturals, in list order
	used := func(v int64) bool {
		u := false
		for i := 0; i < n; i++ {
			if pre[i] >= 0 {
				u = vfOr(u, pre[i] == v)
			}
		}
		return u
	}
	next := int64(0)
	for i := 0; i < n; i++ {
		got := defs[i].ID()
		if pre[i] >= 0 {
			vfAssert("C17.assign.explicit-kept", got == pre[i])
			continue
		}
		// got must be unused by explicit IDs, >= next, and every value in
		// [next, got) must be used by an explicit ID
		ok := vfAnd(got >= next, vfNot(used(got)))
		for v := int64(0); v < 16; v++ {
			ok = vfAnd(ok, vfImp(vfAnd(v >= next, v < got), used(v)))
		}
		vfAssert("C17.assign.smallest-unused", ok)
		next = got + 1
	}
	for i := 0; i < n; i++ {
		for j := i + 1; j < n; j++ {
			vfAssert("C17.assign.unique", defs[i].ID() != defs[j].ID())
		}
	}
	// references print the ID of the node they point to
	for i := 0; i < n; i++ {
		want := "!{" + defs[(i+1)%n].Ident() + "}"
		vfAssert("C17.reference-prints-target-id", defs[i].LLString() == want)
	}
	// idempotent
	var ids []int64
	for i := 0; i < n; i++ {
		ids = append(ids, defs[i].ID())
	}
	vfAssert("C17.assign.idempotent.accepted", m.AssignMetadataIDs() == nil)
	for i := 0; i < n; i++ {
		vfAssert("C17.assign.idempotent.same", defs[i].ID() == ids[i])
	}
}

// VfC17_Interleaved: unique IDs and ID-printing references while two printers
// interleave (vfPar, at most 1 preemption, 2 thorough) on a module whose
// metadata was numbered by an earlier print or not at all: both texts equal
// the text of an identically built module printed alone - every definition
// printed once under its number, every reference as `!N` - and afterwards the
// definitions carry distinct, non-negative IDs.
//
//vf:unwind 300
//vf:steps 90000000
func VfC17_Interleaved() {
	m, _ := hC13Module()
	twin, _ := hC13Module()
	printed := vfChoice("printed-before", 2) == 1
	if printed {
		_ = m.String()
	}
	budget := 1
	if vfTier() > 0 {
		budget = 2
	}
	var s1, s2 string
	vfPar(func() { s1 = m.String() }, func() { s2 = m.String() }, budget)
	want := twin.String()
	vfReach("C17.interleaved")
	vfAssert("C17.interleaved.texts-are-the-sequential-text", vfAnd(s1 == want, s2 == want))
	ok := true
	for i, d := range m.MetadataDefs {
		if d.ID() < 0 {
			ok = false
		}
		for j := i + 1; j < len(m.MetadataDefs); j++ {
			if m.MetadataDefs[j].ID() == d.ID() {
				ok = false
			}
		}
	}
	vfAssert("C17.interleaved.ids-unique-and-assigned", ok)
	// (one obligation per initial state, so that a counterexample of each is
	// replayed natively)
	if printed {
		vfAssert("C17.interleaved.already-numbered.race-free", vfNoRace())
	} else {
		vfAssert("C17.interleaved.never-numbered.race-free", vfNoRace())
	}
}
