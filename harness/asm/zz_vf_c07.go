//go:build verif

package asm

import (
	"github.com/llir/llvm/ir"
	"github.com/llir/llvm/ir/constant"
	"github.com/llir/llvm/ir/types"
)

// C07 (parser side, L3): the type the parser computes for a getelementptr
// instruction / constant expression equals LLVM's and equals what the IR
// constructors compute, for every index form.  The vector length and the
// address space are symbolic digits; `vscale x` is forked.
//
//vf:unwind 300
//vf:shards 4
func VfC07_ParseGEP() {
	nd := vfString("n", 1)
	ad := vfString("as", 1)
	vfAssume(vfAnd(nd[0] >= '1', nd[0] <= '9'))
	vfAssume(vfAnd(ad[0] >= '1', ad[0] <= '9'))
	scal := vfChoice("vscale", 2) == 1
	vs := ""
	if scal {
		vs = "vscale x "
	}
	T := "{ i32, [4 x { i8, float }] }"
	ptr := T + " addrspace(" + ad + ")*"
	vecOf := func(el string) string { return "<" + vs + nd + " x " + el + ">" }
	// the same types written through type definitions: the source type as an
	// identified struct, the base pointer type and the index vector type as
	// aliases (`%IV = type <4 x i64>`), which LLVM resolves
	pre := ""
	ivec := vecOf("i64")
	if vfChoice("alias", 2) == 1 {
		pre = "%ST = type " + T + "\n%BP = type %ST addrspace(" + ad + ")*\n%IV = type " + ivec + "\n"
		T, ptr, ivec = "%ST", "%BP", "%IV"
	}
	form := vfChoice("form", 15)
	var idx string
	vecIdx := false
	if form >= 9 {
		// constant vectors with explicit elements: fixed length, two elements
		if scal {
			vfCut("constant vectors with explicit elements are fixed-length")
		}
		vfAssume(nd == "2")
		vecIdx = true
	}
	switch form {
	case 9:
		idx = "<2 x i64> <i64 1, i64 1>"
	case 10:
		idx = "<2 x i64> <i64 1, i64 2>"
	case 11:
		idx = "<2 x i64> <i64 0, i64 undef>"
	case 12:
		idx = "<2 x i64> <i64 0, i64 poison>"
	case 13:
		idx = "<2 x i64> <i64 1, i64 ptrtoint (i8* null to i64)>"
	case 14:
		idx = "<2 x i1> <i1 true, i1 false>"
	case 0:
		idx = "i64 1"
	case 1:
		idx = "i1 true"
	case 2:
		idx = "i32 zeroinitializer"
	case 3:
		idx = "i64 undef"
	case 4:
		idx = "i64 ptrtoint (i8* null to i64)"
	case 5:
		idx = "i64 add (i64 1, i64 2)"
	case 6:
		idx, vecIdx = ivec+" zeroinitializer", true
	case 7:
		idx, vecIdx = ivec+" undef", true
	default:
		idx, vecIdx = ivec+" poison", true
	}
	baseVec := vfChoice("basevec", 2) == 1
	baseT := ptr
	if baseVec {
		baseT = vecOf(ptr)
	}
	// instruction: base is a parameter; constant expression: base is null/undef
	src := pre + "@g = global " + T + " zeroinitializer\n" +
		"define void @f(" + baseT + " %p) {\n" +
		"\t%r = getelementptr " + T + ", " + baseT + " %p, " + idx + ", i32 1, i32 2, i32 1\n" +
		"\t%z = getelementptr " + T + ", " + baseT + " %p\n" + // no indices (valid LLVM): the type of the base
		"\tret void\n}\n" +
		"@c = global i8 0\n" +
		"@ag = global " + T + " zeroinitializer\n" +
		"@al = alias float, getelementptr inbounds (" + T + ", " + T + "* @ag, i32 0, i32 1, i32 2, i32 1)\n" + // the type of an alias is inferred from its aliasee

		"@e = global " + resultText(vs, nd, ad, baseVec || vecIdx) + " getelementptr (" + T + ", " + baseT + " undef, " + idx + ", i32 1, i32 2, i32 1)\n"
	m, err := ParseString("t.ll", src)
	vfReach("C07.parse")
	vfObserveStr("src", src)
	vfAssert("C07.parse.accepted", err == nil)
	if err != nil {
		return
	}
	n, as := uint64(nd[0]-'0'), types.AddrSpace(ad[0]-'0')
	var want types.Type = &types.PointerType{ElemType: types.Float, AddrSpace: as}
	if baseVec || vecIdx {
		want = &types.VectorType{Len: n, ElemType: want, Scalable: scal}
	}
	inst := m.Funcs[0].Blocks[0].Insts[0].(*ir.InstGetElementPtr)
	vfAssert("C07.parse.inst.attached", hC06Same(inst.Typ, want))
	// the result type is a literal type: it does not carry the name of the
	// (possibly aliased) base type, neither at the top nor in the pointer
	// inside a vector result
	unnamed := inst.Typ.Name() == ""
	if vt, ok := inst.Typ.(*types.VectorType); ok {
		unnamed = vfAnd(unnamed, vt.ElemType.Name() == "")
	}
	vfAssert("C07.parse.inst.result-type-is-unnamed", unnamed)
	inst.Typ = nil
	vfAssert("C07.parse.inst.recomputed", hC06Same(inst.Type(), want))
	zero := m.Funcs[0].Blocks[0].Insts[1].(*ir.InstGetElementPtr)
	var wantZero types.Type = &types.PointerType{ElemType: inst.ElemType, AddrSpace: as}
	if baseVec {
		wantZero = &types.VectorType{Len: n, ElemType: wantZero, Scalable: scal}
	}
	vfAssert("C07.parse.zero-index.attached", hC06Same(zero.Typ, wantZero))
	zero.Typ = nil
	vfAssert("C07.parse.zero-index.recomputed", hC06Same(zero.Type(), wantZero))
	vfAssert("C07.parse.alias-of-gep.type", vfAnd(len(m.Aliases) == 1, hC06Same(m.Aliases[0].Type(), &types.PointerType{ElemType: types.Float})))
	expr := m.Globals[3].Init.(*constant.ExprGetElementPtr)
	vfAssert("C07.parse.expr.attached", hC06Same(expr.Typ, want))
	vfAssert("C07.parse.expr.result-type-is-unnamed", expr.Typ.Name() == "")
	expr.Typ = nil
	vfAssert("C07.parse.expr.recomputed", hC06Same(expr.Type(), want))
}

func resultText(vs, nd, ad string, vec bool) string {
	p := "float addrspace(" + ad + ")*"
	if vec {
		return "<" + vs + nd + " x " + p + ">"
	}
	return p
}

// VfC07_ParsePairs: two getelementptr instructions and two getelementptr
// constant expressions over the same identified struct type and the same
// element types in one module, with independently symbolic address spaces (and
// vector attributes of the neighbouring instructions): each result type keeps
// its own address space once the whole module has been translated and after
// it has been printed (shared with C06 `ParsePairs`).
//
//vf:unwind 300
//vf:steps 60000000
//vf:shards 4
func VfC07_ParsePairs() { hC06Pairs("C07") }
