//go:build verif

package asm

import (
	"github.com/llir/llvm/ir"
	"github.com/llir/llvm/ir/metadata"
)

// C17 (parser side, L3): every reference to !N is the same node object as
// definition !N (forward references and cycles included), distinctness and
// inline-vs-numbered placement are preserved, repeated named metadata
// definitions are merged in textual order.  The three IDs are symbolic digits.
//
//vf:unwind 300
func VfC17_ParseMetadata() {
	d := vfString("ids", 3)
	for i := 0; i < 3; i++ {
		vfAssume(vfAnd(d[i] >= '0', d[i] <= '9'))
	}
	vfAssume(vfAnd(d[0] != d[1], vfAnd(d[0] != d[2], d[1] != d[2])))
	a, b, c := "!"+d[0:1], "!"+d[1:2], "!"+d[2:3]
	// two more operands of the repeated named metadata definition: references
	// the solver chooses among the three definitions (so that operands repeat
	// within a definition and across the definitions)
	xy := vfString("xy", 2)
	for i := 0; i < 2; i++ {
		vfAssume(vfOr(xy[i] == d[0], vfOr(xy[i] == d[1], xy[i] == d[2])))
	}
	// which of the three definitions are `distinct` (every subset: the marker
	// belongs to the definition whatever its body is - two fields, a cycle, or
	// none at all: `distinct !{}` is the canonical access-group node)
	dset := 2
	if vfChoice("distinct-set", 2) == 1 {
		dset = vfChoice("distinct-subset", 8)
	}
	dm := func(i int) string {
		if dset>>uint(i)&1 == 1 {
			return "distinct "
		}
		return ""
	}
	src := "@g = global i32 0, !dbg " + b + "\n" +
		"!named = !{" + a + ", !" + xy[0:1] + "}\n" +
		a + " = " + dm(0) + "!{" + b + ", !{" + c + "}}\n" + // forward reference and an inline tuple
		b + " = " + dm(1) + "!{" + a + ", " + c + "}\n" + // cycle a <-> b
		c + " = " + dm(2) + "!{}\n" +
		"!named = !{" + c + ", !" + xy[1:2] + "}\n"
	m, err := ParseString("t.ll", src)
	vfReach("C17.parse")
	vfObserveStr("src", src)
	vfAssert("C17.parse.accepted", err == nil)
	if err != nil {
		return
	}
	vfAssert("C17.parse.three-defs", len(m.MetadataDefs) == 3)
	if len(m.MetadataDefs) != 3 {
		return
	}
	// find the definitions by ID
	ida, idb, idc := int64(d[0]-'0'), int64(d[1]-'0'), int64(d[2]-'0')
	var na, nb, nc *metadata.Tuple
	for _, def := range m.MetadataDefs {
		t, ok := def.(*metadata.Tuple)
		if !ok {
			continue
		}
		if t.ID() == ida {
			na = t
		}
		if t.ID() == idb {
			nb = t
		}
		if t.ID() == idc {
			nc = t
		}
	}
	vfAssert("C17.parse.ids-kept", vfAnd(na != nil, vfAnd(nb != nil, nc != nil)))
	if na == nil || nb == nil || nc == nil {
		return
	}
	vfAssert("C17.parse.ascending-order", vfAnd(m.MetadataDefs[0].ID() < m.MetadataDefs[1].ID(), m.MetadataDefs[1].ID() < m.MetadataDefs[2].ID()))
	vfAssert("C17.parse.distinct-preserved", vfAnd(nb.Distinct == (dset>>1&1 == 1), vfAnd(na.Distinct == (dset&1 == 1), nc.Distinct == (dset>>2&1 == 1))))
	vfAssert("C17.parse.forward-ref-identity", na.Fields[0] == metadata.Field(nb))
	vfAssert("C17.parse.cycle-identity", vfAnd(nb.Fields[0] == metadata.Field(na), nb.Fields[1] == metadata.Field(nc)))
	inl, ok := na.Fields[1].(*metadata.Tuple)
	vfAssert("C17.parse.inline-stays-inline", ok)
	if ok {
		vfAssert("C17.parse.inline-unnumbered", inl.ID() == -1)
		vfAssert("C17.parse.inline-ref-identity", inl.Fields[0] == metadata.Field(nc))
	}
	nd := m.NamedMetadataDefs["named"]
	vfAssert("C17.parse.named-merged", vfAnd(nd != nil, len(m.NamedMetadataDefs) == 1))
	if nd != nil {
		vfAssert("C17.parse.named-keeps-every-operand", len(nd.Nodes) == 4)
		if len(nd.Nodes) == 4 {
			idOf := func(n metadata.Node) int64 {
				if t, ok := n.(*metadata.Tuple); ok {
					return t.ID()
				}
				return -7
			}
			vfAssert("C17.parse.named-textual-order", vfAnd(vfAnd(nd.Nodes[0] == metadata.Node(na), nd.Nodes[2] == metadata.Node(nc)), vfAnd(idOf(nd.Nodes[1]) == int64(xy[0]-'0'), idOf(nd.Nodes[3]) == int64(xy[1]-'0'))))
		}
	}
	att := m.Globals[0].Metadata
	vfAssert("C17.parse.attachment-identity", vfAnd(len(att) == 1, att[0].Node == metadata.MDNode(nb)))
	out := m.String()
	vfObserveStr("out", out)
	// the printed definitions carry the marker exactly where the input has it
	vfAssert("C17.parse.distinct-printed", vfAnd(hContains(out, c+" = "+dm(2)+"!{}\n"), hContains(out, b+" = "+dm(1)+"!{"+a+", "+c+"}\n")))
}

// hC17Kinds: one minimal, well-typed spelling of each of the 28 specialised
// node kinds (each accepted by the unchanged parser, each a print fixpoint).
// Carrier: !4 an empty tuple, !5 a non-empty tuple, !6 a DIGlobalVariable,
// !8 another empty tuple, !9 a DIFile; different fields of one node refer to
// different carrier nodes, so that a dropped or misdirected reference shows.
var hC17Kinds = [...]struct {
	text, prefix string
}{
	{`!DIBasicType(name: "int", size: 32, encoding: DW_ATE_signed)`, "!DIBasicType("},
	{`!DICommonBlock(scope: !8, declaration: null, name: "a")`, "!DICommonBlock("},
	{`distinct !DICompileUnit(language: DW_LANG_C99, file: !9, producer: "p", isOptimized: false, runtimeVersion: 0, emissionKind: FullDebug)`, "distinct !DICompileUnit("},
	{`!DICompositeType(tag: DW_TAG_structure_type, name: "s", size: 32, elements: !5)`, "!DICompositeType("},
	{`!DIDerivedType(tag: DW_TAG_pointer_type, baseType: !8, size: 64)`, "!DIDerivedType("},
	{`!DIEnumerator(name: "e", value: 1)`, "!DIEnumerator("},
	{`!DIExpression(DW_OP_deref)`, "!DIExpression("},
	{`!DIFile(filename: "b.c", directory: "/x")`, "!DIFile("},
	{`distinct !DIGlobalVariable(name: "g", scope: !8, file: !9, line: 1, type: !4, isLocal: false, isDefinition: true)`, "distinct !DIGlobalVariable("},
	{`!DIGlobalVariableExpression(var: !6, expr: !DIExpression())`, "!DIGlobalVariableExpression("},
	{`!DIImportedEntity(tag: DW_TAG_imported_module, scope: !8, entity: !4, line: 1)`, "!DIImportedEntity("},
	{`!DILabel(scope: !8, name: "l", file: !9, line: 1)`, "!DILabel("},
	{`distinct !DILexicalBlock(scope: !8, file: !9, line: 1, column: 1)`, "distinct !DILexicalBlock("},
	{`!DILexicalBlockFile(scope: !8, file: !9, discriminator: 0)`, "!DILexicalBlockFile("},
	{`!DILocalVariable(name: "x", scope: !8, file: !9, line: 1, type: !4)`, "!DILocalVariable("},
	{`!DILocation(line: 1, column: 1, scope: !8)`, "!DILocation("},
	{`!DIMacro(type: DW_MACINFO_define, line: 1, name: "M", value: "1")`, "!DIMacro("},
	{`!DIMacroFile(line: 0, file: !9, nodes: !5)`, "!DIMacroFile("},
	{`!DIModule(scope: null, name: "m")`, "!DIModule("},
	{`!DINamespace(name: "n", scope: null)`, "!DINamespace("},
	{`!DIObjCProperty(name: "p", file: !9, line: 1, type: !4)`, "!DIObjCProperty("},
	{`!DIStringType(name: "s", size: 32)`, "!DIStringType("},
	{`distinct !DISubprogram(name: "f", scope: !9, file: !9, line: 1, type: !8, spFlags: DISPFlagDefinition, retainedNodes: !4, thrownTypes: !5)`, "distinct !DISubprogram("},
	{`!DISubrange(count: 3)`, "!DISubrange("},
	{`!DISubroutineType(types: !8)`, "!DISubroutineType("},
	{`!DITemplateTypeParameter(name: "T", type: !8)`, "!DITemplateTypeParameter("},
	{`!DITemplateValueParameter(name: "V", type: !8, value: i32 1)`, "!DITemplateValueParameter("},
	{`!GenericDINode(tag: DW_TAG_structure_type, header: "h", operands: {!8, !5})`, "!GenericDINode("},
}

func hC17Def(m *ir.Module, id int64) metadata.Definition {
	var r metadata.Definition
	for _, d := range m.MetadataDefs {
		if d.ID() == id {
			r = d
		}
	}
	return r
}

// hC17KindOK: the node with the given ID is of the expected kind (and
// distinctness), the tuple !7 and the named metadata refer to that very node,
// and the whole graph is closed.
func hC17KindOK(m *ir.Module, id int64, prefix string) bool {
	node := hC17Def(m, id)
	tup, _ := hC17Def(m, 7).(*metadata.Tuple)
	if node == nil || tup == nil || len(tup.Fields) != 1 || len(m.NamedMetadataDefs) != 1 {
		return false
	}
	ll := node.LLString()
	ok := len(ll) >= len(prefix)
	if ok {
		ok = ll[:len(prefix)] == prefix
	}
	ok = vfAnd(ok, tup.Fields[0] == metadata.Field(node))
	for _, nd := range m.NamedMetadataDefs {
		ok = vfAnd(ok, vfAnd(len(nd.Nodes) == 1, nd.Nodes[0] == metadata.Node(node)))
	}
	closed, _ := hClosed(m)
	return vfAnd(ok, closed)
}

func hContains(s, sub string) bool {
	for i := 0; i+len(sub) <= len(s); i++ {
		if s[i:i+len(sub)] == sub {
			return true
		}
	}
	return false
}

// hC17FieldRefs: every carrier definition (!6, !8, !9) that the text of the
// node refers to is, as the same object, among the node's fields.
func hC17FieldRefs(m *ir.Module, id int64, text string) bool {
	node := hC17Def(m, id)
	if node == nil {
		return false
	}
	fields := hMDFields(node)
	ok := true
	for _, n := range [...]int64{4, 5, 6, 8, 9} {
		if !hContains(text, "!"+string(rune('0'+n))) {
			continue
		}
		def := hC17Def(m, n)
		found := false
		for _, f := range fields {
			if f == interface{}(def) {
				found = true
			}
		}
		ok = vfAnd(ok, found)
	}
	return ok
}

// VfC17_Kinds: each specialised node kind with a symbolic ID in a small
// reference graph: parsed (identity of references, kind and distinctness
// kept, graph closed), printed and parsed again (same), then all IDs cleared
// and reassigned by AssignMetadataIDs (smallest unused numbers in list order),
// printed and parsed a third time (references follow the new numbers).
//
//vf:unwind 2000
//vf:steps 400000000
//vf:shards 14
func VfC17_Kinds() {
	k := vfChoice("kind", len(hC17Kinds))
	d := vfString("id", 1)
	vfAssume(vfAnd(d[0] >= '0', d[0] <= '3'))
	id := int64(d[0] - '0')
	src := "!nm = !{!" + d + "}\n!" + d + " = " + hC17Kinds[k].text + "\n" +
		"!4 = !{}\n!5 = !{!8}\n" +
		"!6 = distinct !DIGlobalVariable(name: \"gg\", scope: !8, file: !9, line: 2, type: !8, isLocal: true, isDefinition: true)\n" +
		"!7 = !{!" + d + "}\n!8 = !{}\n!9 = !DIFile(filename: \"a.c\", directory: \"/\")\n" +
		// a reference from a call argument (`metadata !N`), next to an inline node
		"declare void @llvm.dbg.value(metadata, metadata, metadata)\n" +
		"define void @user() {\n\tcall void @llvm.dbg.value(metadata i32 0, metadata !" + d + ", metadata !DIExpression())\n\tret void\n}\n"
	m, err := ParseString("t.ll", src)
	vfReach("C17.kinds")
	vfObserveStr("src", src)
	vfAssert("C17.kinds.accepted", err == nil)
	if err != nil {
		return
	}
	vfAssert("C17.kinds.seven-defs", len(m.MetadataDefs) == 7)
	vfAssert("C17.kinds.parsed", hC17KindOK(m, id, hC17Kinds[k].prefix))
	vfAssert("C17.kinds.field-references-are-the-definitions", hC17FieldRefs(m, id, hC17Kinds[k].text))
	vfAssert("C17.kinds.call-argument-is-the-definition", hC17ArgRef(m, id))
	y := m.String()
	vfAssert("C17.kinds.call-argument-prints-the-id", hContainsStr(y, "metadata !"+d+","))
	m2, err2 := ParseString("t.ll", y)
	vfAssert("C17.kinds.print-accepted", err2 == nil)
	if err2 != nil {
		return
	}
	vfAssert("C17.kinds.print-fixpoint", m2.String() == y)
	vfAssert("C17.kinds.reparsed", hC17KindOK(m2, id, hC17Kinds[k].prefix))
	vfAssert("C17.kinds.reparsed-field-references", hC17FieldRefs(m2, id, hC17Kinds[k].text))
	vfAssert("C17.kinds.reparsed-call-argument", hC17ArgRef(m2, id))
	// renumber from scratch: the node is first in the list of definitions
	// (smallest ID), so it becomes !0 and the carrier nodes !1..!6
	for _, def := range m2.MetadataDefs {
		def.SetID(-1)
	}
	vfAssert("C17.kinds.assign-accepted", m2.AssignMetadataIDs() == nil)
	for i, def := range m2.MetadataDefs {
		vfAssert("C17.kinds.assign-smallest-unused", def.ID() == int64(i))
	}
	y3 := m2.String()
	vfObserveStr("renumbered", y3)
	m3, err3 := ParseString("t.ll", y3)
	vfAssert("C17.kinds.renumbered-accepted", err3 == nil)
	if err3 != nil {
		return
	}
	node := hC17Def(m3, 0)
	tup, isTup := hC17Def(m3, 4).(*metadata.Tuple)
	vfAssert("C17.kinds.renumbered-reference", vfAnd(vfAnd(node != nil, isTup), len(m3.MetadataDefs) == 7))
	if node != nil {
		if isTup {
			if len(tup.Fields) == 1 {
				vfAssert("C17.kinds.renumbered-reference", tup.Fields[0] == metadata.Field(node))
			}
		}
	}
}

// VfC17_RepeatedAttachments: several attachments of the same kind on a global
// variable, a declaration and a definition (legal and common: `!type`) are all
// kept, in order, each referring to its node.
//
//vf:unwind 300
func VfC17_RepeatedAttachments() {
	d := vfString("ids", 2)
	vfAssume(vfAnd(vfAnd(d[0] >= '0', d[0] <= '4'), vfAnd(d[1] >= '5', d[1] <= '9')))
	a, b := "!"+d[0:1], "!"+d[1:2]
	src := "@g = global i32 0, !type " + a + ", !type " + b + ", !dbg " + a + ", !type " + a + "\n" +
		"declare !type " + b + " !type " + a + " void @decl()\n" +
		"define void @def() !type " + a + " !type " + b + " {\n\tret void\n}\n" +
		a + " = !{}\n" + b + " = distinct !{}\n"
	m, err := ParseString("t.ll", src)
	vfReach("C17.repeated-attachments")
	vfObserveStr("src", src)
	vfAssert("C17.repeated.accepted", err == nil)
	if err != nil {
		return
	}
	na, nb := hC17Def(m, int64(d[0]-'0')), hC17Def(m, int64(d[1]-'0'))
	ga := m.Globals[0].Metadata
	vfAssert("C17.repeated.global-keeps-all", len(ga) == 4)
	if len(ga) == 4 {
		vfAssert("C17.repeated.global-nodes-in-order", vfAnd(vfAnd(ga[0].Node == metadata.MDNode(na.(*metadata.Tuple)), ga[1].Node == metadata.MDNode(nb.(*metadata.Tuple))), vfAnd(ga[2].Node == metadata.MDNode(na.(*metadata.Tuple)), ga[3].Node == metadata.MDNode(na.(*metadata.Tuple)))))
	}
	vfAssert("C17.repeated.functions-keep-all", vfAnd(len(m.Funcs[0].Metadata) == 2, len(m.Funcs[1].Metadata) == 2))
	y := m.String()
	m2, err2 := ParseString("t.ll", y)
	vfAssert("C17.repeated.print-accepted", err2 == nil)
	if err2 == nil {
		vfAssert("C17.repeated.print-keeps-all", vfAnd(len(m2.Globals[0].Metadata) == 4, vfAnd(len(m2.Funcs[0].Metadata) == 2, len(m2.Funcs[1].Metadata) == 2)))
	}
}

// hC17ArgRef: the second argument of the call in @user is a metadata value
// wrapping the very node that the module lists as definition !id.
func hC17ArgRef(m *ir.Module, id int64) bool {
	def := hC17Def(m, id)
	if def == nil || len(m.Funcs) < 2 {
		return false
	}
	call, ok := m.Funcs[1].Blocks[0].Insts[0].(*ir.InstCall)
	if !ok || len(call.Args) != 3 {
		return false
	}
	mv, ok := call.Args[1].(*metadata.Value)
	if !ok {
		return false
	}
	return mv.Value == metadata.Metadata(def)
}

func hContainsStr(s, sub string) bool {
	for i := 0; i+len(sub) <= len(s); i++ {
		if s[i:i+len(sub)] == sub {
			return true
		}
	}
	return false
}

// VfC17_InlineNodes: inline nodes are placed where they are written: every
// inline `!{}` / `!{!N}` / `!DIExpression()` of a module is an object of its
// own (two sites never share one, nor do two parses), so that numbering one of
// them - here by giving it an ID and listing it among the definitions - moves
// that one node only: the other sites, and a second module parsed from the
// same text, still print their node inline.
//
//vf:unwind 600
func VfC17_InlineNodes() {
	d := vfString("id", 1)
	vfAssume(vfAnd(d[0] >= '0', d[0] <= '6')) // below 7, the ID given to an inline node further down
	src := "@g = global i32 0, !a !{}, !b !{}\n" +
		"@h = global i32 0, !a !{!" + d + "}\n" +
		"define void @f(i32* %p) {\n\t%x = load i32, i32* %p, !invariant.load !{}\n\t%y = load i32, i32* %p, !invariant.load !{}\n\tret void\n}\n" +
		"!" + d + " = !{!{}, !{}}\n"
	m1, e1 := ParseString("a.ll", src)
	m2, e2 := ParseString("b.ll", src)
	vfReach("C17.inline-nodes")
	vfObserveStr("src", src)
	vfAssert("C17.inline.accepted", vfAnd(e1 == nil, e2 == nil))
	if e1 != nil || e2 != nil {
		return
	}
	collect := func(m *ir.Module) []*metadata.Tuple {
		var out []*metadata.Tuple
		add := func(n interface{}) {
			if t, ok := n.(*metadata.Tuple); ok {
				out = append(out, t)
			}
		}
		for _, a := range m.Globals[0].Metadata {
			add(a.Node)
		}
		for _, inst := range m.Funcs[0].Blocks[0].Insts {
			if ld, ok := inst.(*ir.InstLoad); ok {
				for _, a := range ld.Metadata {
					add(a.Node)
				}
			}
		}
		if def, ok := m.MetadataDefs[0].(*metadata.Tuple); ok {
			for _, f := range def.Fields {
				add(f)
			}
		}
		return out
	}
	n1, n2 := collect(m1), collect(m2)
	vfAssert("C17.inline.six-sites", vfAnd(len(n1) == 6, len(n2) == 6))
	if len(n1) != 6 || len(n2) != 6 {
		return
	}
	all := append(append([]*metadata.Tuple(nil), n1...), n2...)
	distinct := true
	for i := range all {
		vfAssert("C17.inline.unnumbered", all[i].ID() == -1)
		for j := i + 1; j < len(all); j++ {
			if all[i] == all[j] {
				distinct = false
			}
		}
	}
	vfAssert("C17.inline.each-site-has-its-own-node", distinct)
	want := m2.String()
	// number one inline node of the first module and list it as a definition
	n1[0].SetID(7)
	m1.MetadataDefs = append(m1.MetadataDefs, n1[0])
	_ = m1.String()
	vfAssert("C17.inline.other-module-unaffected", m2.String() == want)
	y := m1.String()
	m3, e3 := ParseString("c.ll", y)
	vfAssert("C17.inline.numbered-node-reparses", e3 == nil)
	if e3 == nil {
		c3 := collect(m3)
		// five sites are still inline; the numbered one is now a reference
		vfAssert("C17.inline.only-that-node-moved", len(c3) == 6)
		inline := 0
		for _, t := range c3 {
			if t.ID() == -1 {
				inline++
			}
		}
		vfAssert("C17.inline.only-that-node-moved", inline == 5)
	}
}
