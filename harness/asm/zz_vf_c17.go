//go:build verif

package asm

import (
	"github.com/llir/llvm/ir/metadata"
)

// C17 (parser side, L3): every reference to !N is the same node object as
// definition !N (forward references and cycles included), distinctness and
// inline-vs-numbered placement are preserved, repeated named metadata
// definitions are merged in textual order.  The three IDs are symbolic digits.
//
//vf:unwind 300
func VfC17_ParseMetadata() {
	d := vfString("ids", 3)
	for i := 0; i < 3; i++ {
		vfAssume(vfAnd(d[i] >= '0', d[i] <= '9'))
	}
	vfAssume(vfAnd(d[0] != d[1], vfAnd(d[0] != d[2], d[1] != d[2])))
	a, b, c := "!"+d[0:1], "!"+d[1:2], "!"+d[2:3]
	src := "@g = global i32 0, !dbg " + b + "\n" +
		"!named = !{" + a + "}\n" +
		a + " = !{" + b + ", !{" + c + "}}\n" + // forward reference and an inline tuple
		b + " = distinct !{" + a + ", " + c + "}\n" + // cycle a <-> b
		c + " = !{}\n" +
		"!named = !{" + c + "}\n"
	m, err := ParseString("t.ll", src)
	vfReach("C17.parse")
	vfObserveStr("src", src)
	vfAssert("C17.parse.accepted", err == nil)
	if err != nil {
		return
	}
	vfAssert("C17.parse.three-defs", len(m.MetadataDefs) == 3)
	if len(m.MetadataDefs) != 3 {
		return
	}
	// find the definitions by ID
	ida, idb, idc := int64(d[0]-'0'), int64(d[1]-'0'), int64(d[2]-'0')
	var na, nb, nc *metadata.Tuple
	for _, def := range m.MetadataDefs {
		t, ok := def.(*metadata.Tuple)
		if !ok {
			continue
		}
		if t.ID() == ida {
			na = t
		}
		if t.ID() == idb {
			nb = t
		}
		if t.ID() == idc {
			nc = t
		}
	}
	vfAssert("C17.parse.ids-kept", vfAnd(na != nil, vfAnd(nb != nil, nc != nil)))
	if na == nil || nb == nil || nc == nil {
		return
	}
	vfAssert("C17.parse.ascending-order", vfAnd(m.MetadataDefs[0].ID() < m.MetadataDefs[1].ID(), m.MetadataDefs[1].ID() < m.MetadataDefs[2].ID()))
	vfAssert("C17.parse.distinct-preserved", vfAnd(nb.Distinct, vfAnd(vfNot(na.Distinct), vfNot(nc.Distinct))))
	vfAssert("C17.parse.forward-ref-identity", na.Fields[0] == metadata.Field(nb))
	vfAssert("C17.parse.cycle-identity", vfAnd(nb.Fields[0] == metadata.Field(na), nb.Fields[1] == metadata.Field(nc)))
	inl, ok := na.Fields[1].(*metadata.Tuple)
	vfAssert("C17.parse.inline-stays-inline", ok)
	if ok {
		vfAssert("C17.parse.inline-unnumbered", inl.ID() == -1)
		vfAssert("C17.parse.inline-ref-identity", inl.Fields[0] == metadata.Field(nc))
	}
	nd := m.NamedMetadataDefs["named"]
	vfAssert("C17.parse.named-merged", vfAnd(nd != nil, len(m.NamedMetadataDefs) == 1))
	if nd != nil {
		vfAssert("C17.parse.named-textual-order", vfAnd(len(nd.Nodes) == 2, vfAnd(nd.Nodes[0] == metadata.Node(na), nd.Nodes[1] == metadata.Node(nc))))
	}
	att := m.Globals[0].Metadata
	vfAssert("C17.parse.attachment-identity", vfAnd(len(att) == 1, att[0].Node == metadata.MDNode(nb)))
	out := m.String()
	vfObserveStr("out", out)
}
