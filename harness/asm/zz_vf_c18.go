//go:build verif

package asm

import (
	"strings"

	"github.com/llir/llvm/ir"
	"github.com/llir/llvm/ir/enum"
	"github.com/llir/llvm/ir/metadata"
	"github.com/llir/llvm/ir/types"
)

// C18 (flag sets, L3): a bit-flag value made of symbolic members prints as a
// list that the real parser reads back to exactly the same set (DIFlag with
// its two-bit accessibility field, DISPFlag, AllocKind).

// hBit returns the value 1<<k for a symbolic k with lo <= 1<<k <= hi (both
// powers of two).
func hBit(name string, lo, hi uint64) uint64 {
	k := vfByte(name)
	vfAssume(k < 40)
	v := uint64(1) << k
	vfAssume(vfAnd(v >= lo, v <= hi))
	return v
}

// hBitK returns 1<<k for a forked k (the first fork of the entry, so that the
// shard workers split on it) with lo <= 1<<k <= hi.
func hBitK(name string, lo, hi uint64) uint64 {
	k := vfChoice(name, 32)
	v := uint64(1) << uint(k)
	if v < lo || v > hi {
		vfCut("bit outside the flag range")
	}
	return v
}

//vf:unwind 300
//vf:shards 16
func VfC18_FlagSets_DIFlag() {
	// every declared member above the accessibility field, whatever the
	// library's own First/Last bounds say
	f1 := hBitK("k1", 4, 1<<31)
	acc := uint64(vfByte("acc"))
	vfAssume(acc <= 3)
	// only declared members (undefined bits have no keyword)
	vfAssume(!strings.HasPrefix(enum.DIFlag(f1).String(), "DIFlag("))
	f2 := hBit("f2", 4, 1<<31)
	vfAssume(!strings.HasPrefix(enum.DIFlag(f2).String(), "DIFlag("))
	flags := enum.DIFlag(f1 | f2 | acc)
	md := &metadata.DIBasicType{MetadataID: 0, Name: "x", Flags: flags}
	src := md.Ident() + " = " + md.LLString() + "\n"
	m, err := ParseString("t.ll", src)
	vfReach("C18.flags.diflag")
	vfObserveStr("src", src)
	vfAssert("C18.DIFlag.set.accepted", err == nil)
	if err == nil {
		back := m.MetadataDefs[0].(*metadata.DIBasicType).Flags
		vfAssert("C18.DIFlag.set.roundtrip", back == flags)
	}
}

//vf:unwind 300
//vf:shards 8
func VfC18_FlagSets_DISPFlag() {
	// every declared member, whatever the library's own First/Last bounds say
	f1 := hBitK("k1", 1, 1<<31)
	f2 := hBit("f2", 1, 1<<31)
	vfAssume(!strings.HasPrefix(enum.DISPFlag(f1).String(), "DISPFlag("))
	vfAssume(!strings.HasPrefix(enum.DISPFlag(f2).String(), "DISPFlag("))
	flags := enum.DISPFlag(f1 | f2)
	md := &metadata.DISubprogram{MetadataID: 0, Name: "f", SPFlags: flags, Distinct: true}
	src := md.Ident() + " = " + md.LLString() + "\n"
	m, err := ParseString("t.ll", src)
	vfReach("C18.flags.dispflag")
	vfObserveStr("src", src)
	vfAssert("C18.DISPFlag.set.accepted", err == nil)
	if err == nil {
		back := m.MetadataDefs[0].(*metadata.DISubprogram).SPFlags
		vfAssert("C18.DISPFlag.set.roundtrip", back == flags)
	}
}

//vf:unwind 300
//vf:shards 4
func VfC18_FlagSets_AllocKind() {
	f1 := hBitK("k1", 1, 1<<31)
	f2 := hBit("f2", 1, 1<<31)
	// only declared members
	vfAssume(!strings.HasPrefix(enum.AllocKind(f1).String(), "AllocKind("))
	vfAssume(!strings.HasPrefix(enum.AllocKind(f2).String(), "AllocKind("))
	kind := enum.AllocKind(f1 | f2)
	mod := ir.NewModule()
	f := mod.NewFunc("f", types.Void)
	f.FuncAttrs = append(f.FuncAttrs, ir.AllocKind{Kind: kind})
	src := mod.String()
	m, err := ParseString("t.ll", src)
	vfReach("C18.flags.allockind")
	vfObserveStr("src", src)
	vfAssert("C18.AllocKind.set.accepted", err == nil)
	if err == nil {
		var back enum.AllocKind
		ok := false
		switch ak := m.Funcs[0].FuncAttrs[0].(type) {
		case ir.AllocKind:
			back, ok = ak.Kind, true
		case *ir.AllocKind:
			back, ok = ak.Kind, true
		}
		vfAssert("C18.AllocKind.set.kind", ok)
		if ok {
			vfAssert("C18.AllocKind.set.roundtrip", back == kind)
		}
	}
}

// VfC18_FlagFamilies: a DIFlag set and a DISPFlag set with the *same numeric
// value* printed in one module, in both orders: each prints with the keywords
// of its own family and reads back as itself (the two families share bit
// positions; whatever one printer keeps must not leak into the other).
//
//vf:unwind 300
//vf:shards 12
func VfC18_FlagFamilies() {
	k := vfChoice("bit", 12)
	order := vfChoice("order", 2)
	v := uint64(1) << uint(k)
	fa, fb := enum.DIFlag(v), enum.DISPFlag(v)
	if strings.HasPrefix(fa.String(), "DIFlag(") || strings.HasPrefix(fb.String(), "DISPFlag(") {
		vfCut("not a declared member of both families")
	}
	// two-member sets with the same numeric value where both second bits are declared too
	v2 := hBit("second", 1, 1<<11)
	if !strings.HasPrefix(enum.DIFlag(v2).String(), "DIFlag(") && !strings.HasPrefix(enum.DISPFlag(v2).String(), "DISPFlag(") && v2 > 3 {
		if vfBool("two-members") {
			fa, fb = enum.DIFlag(v|v2), enum.DISPFlag(v|v2)
		}
	}
	bt := &metadata.DIBasicType{MetadataID: 0, Name: "x", Flags: fa}
	sp := &metadata.DISubprogram{MetadataID: 1, Name: "f", SPFlags: fb, Distinct: true}
	var src string
	if order == 0 {
		src = bt.Ident() + " = " + bt.LLString() + "\n" + sp.Ident() + " = " + sp.LLString() + "\n"
	} else {
		sp.MetadataID, bt.MetadataID = 0, 1
		src = sp.Ident() + " = " + sp.LLString() + "\n" + bt.Ident() + " = " + bt.LLString() + "\n"
	}
	m, err := ParseString("t.ll", src)
	vfReach("C18.flags.families")
	vfObserveStr("src", src)
	vfAssert("C18.families.accepted", err == nil)
	if err != nil {
		return
	}
	var gotA enum.DIFlag
	var gotB enum.DISPFlag
	for _, d := range m.MetadataDefs {
		switch x := d.(type) {
		case *metadata.DIBasicType:
			gotA = x.Flags
		case *metadata.DISubprogram:
			gotB = x.SPFlags
		}
	}
	vfAssert("C18.families.diflag-roundtrip", gotA == fa)
	vfAssert("C18.families.dispflag-roundtrip", gotB == fb)
}
