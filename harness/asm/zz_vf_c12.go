//go:build verif

package asm

import "io"

// C12 (reduced, see DESIGN): the result of a parse does not depend on Go map
// iteration order, and parsing / printing neither reads nor writes mutable
// package-level state.  The same text is translated under insertion order and
// under every permutation of one range-over-map site at a time (the site is
// chosen by forking), plus all sites reversed / rotated; accept/reject and the
// printed text must agree.

func hC12Source() string {
	// two or three entries in every index map of the translator; names symbolic
	a, b := hLetterIn("a", 'a', 'c'), hLetterIn("b", 'd', 'f')
	t1, t2 := hLetterIn("t1", 'p', 'r'), hLetterIn("t2", 's', 'u')
	return "%" + t2 + " = type { %" + t1 + "* }\n%" + t1 + " = type { i32 }\n%z10 = type opaque\n%z9 = type opaque\n%zal = type %" + t1 + "\n" +
		"$" + b + " = comdat any\n$" + a + " = comdat any\n$c10 = comdat any\n$c9 = comdat any\n" +
		"@" + b + " = global i32 0, comdat($" + b + ")\n@" + a + " = global %" + t2 + " zeroinitializer, comdat($" + a + ")\n" +
		"@x = alias i32, i32* @" + b + "\n" +
		"@cmp = global i1 icmp ne (void () addrspace(1)* @h, void () addrspace(1)* null)\n" +
		"@sel = global void () addrspace(1)* select (i1 true, void () addrspace(1)* @h, void () addrspace(1)* @k)\n" +
		"@pi = global i64 ptrtoint (i32* @" + b + " to i64)\n" +
		"@use = global i32 addrspace(3)* getelementptr (i32, i32 addrspace(3)* @asg, i32 0)\n@asg = addrspace(3) global i32 0\n" +
		"declare void @h() addrspace(1)\ndeclare void @k() addrspace(1)\n" +
		"define void @f() #1 {\n\tret void, !dbg !7\n}\ndeclare void @g() #0\n" +
		"attributes #1 = { nounwind }\nattributes #0 = { noinline }\n" +
		// attribute groups that are used but not defined (materialised as empty
		// groups: the documented exception of C05), on different entities
		"declare void @u1() #7\ndeclare void @u2() #8 #6\n@u3 = global i32 0 #9\n" +
		// named scalar types next to the plain types, the same literal spelled at
		// both in different top-level entities (whichever is translated first must
		// not decide the type of the other's constant)
		"%real = type double\n%word = type i32\n" +
		"@r1 = global double 1.0\n@r2 = global %real 1.0\n@w1 = global i32 7\n@w2 = global %word 7\n" +
		"define %real @fr2() {\n\tret %real 2.5\n}\ndefine double @fr1() {\n\tret double 2.5\n}\n" +
		"!n10 = !{!7}\n!n9 = !{!3}\n!" + a + " = !{!3, !7}\n" +
		"!7 = !{!3}\n!3 = distinct !{}\n!5 = !{!\"s\"}\n"
}

// VfC12_MapOrder
//
//vf:unwind 400
//vf:shards 16
//vf:steps 100000000
func VfC12_MapOrder() {
	src := hC12Source()
	vfTrackShared(true)
	m0, e0 := ParseString("a.ll", src)
	var s0 string
	if e0 == nil {
		s0 = m0.String()
	}
	variant := vfChoice("variant", 42)
	switch {
	case variant == 0:
		vfMapOrder(1) // every map reversed
	case variant == 1:
		vfMapOrder(2) // every map rotated
	default:
		vfMapOrderSite(variant - 2) // all permutations of one site
	}
	m1, e1 := ParseString("b.ll", src)
	var s1 string
	if e1 == nil {
		s1 = m1.String()
	}
	sites := vfMapSites()
	vfMapOrder(0)
	vfReach("C12.maporder")
	vfObserveStr("src", src)
	vfObserveStr("out", s0)
	if variant >= 2 {
		if variant-2 >= sites {
			vfCut("no such range-over-map site (fewer sites than variants)")
		}
	}
	vfAssert("C12.same-verdict", (e0 == nil) == (e1 == nil))
	vfAssert("C12.same-output", s0 == s1)
	vfAssert("C12.no-shared-writes", vfSharedWrites() == 0)
}

// VfC12_Rejected: the verdict on an invalid input (two undefined names) does
// not depend on map order either.
//
//vf:unwind 400
//vf:shards 8
func VfC12_Rejected() {
	a := hLetterIn("a", 'a', 'c')
	src := "@" + a + " = global i32* @undefined1\n@q = global i32* @undefined2\n%t = type { %missing* }\n"
	_, e0 := ParseString("a.ll", src)
	variant := vfChoice("variant", 12)
	if variant < 2 {
		vfMapOrder(variant + 1)
	} else {
		vfMapOrderSite(variant - 2)
	}
	_, e1 := ParseString("b.ll", src)
	sites := vfMapSites()
	vfMapOrder(0)
	vfReach("C12.rejected")
	if variant >= 2 {
		if variant-2 >= sites {
			vfCut("no such range-over-map site (fewer sites than variants)")
		}
	}
	vfAssert("C12.rejected.same-verdict", vfAnd(e0 != nil, e1 != nil))
}

// VfC12_RejectedLeavesNoTrace: an input the library rejects because of a type
// it does not support in that place (blockaddress of a function in another
// address space, written with the pointer type LLVM gives it) leaves no trace:
// no write to package-level state, and a following ordinary blockaddress
// module is accepted and printed as in a fresh process.
//
//vf:unwind 400
func VfC12_RejectedLeavesNoTrace() {
	a := hLetterIn("a", 'a', 'c')
	plain := "define void @" + a + "() {\nbb:\n\tret void\n}\n@t = global i8* blockaddress(@" + a + ", %bb)\n"
	m0, e0 := ParseString("a.ll", plain)
	var s0 string
	if e0 == nil {
		s0 = m0.String()
	}
	odd := "define void @f() addrspace(1) {\nbb:\n\tret void\n}\n@t = global i8 addrspace(1)* blockaddress(@f, %bb)\n"
	vfTrackShared(true)
	_, eo := ParseString("o.ll", odd)
	_ = eo
	writes := vfSharedWrites()
	m1, e1 := ParseString("b.ll", plain)
	var s1 string
	if e1 == nil {
		s1 = m1.String()
	}
	vfReach("C12.rejected-no-trace")
	vfAssert("C12.no-trace.no-shared-writes", writes == 0)
	vfAssert("C12.no-trace.same-verdict", vfAnd(e0 == nil, e1 == nil))
	vfAssert("C12.no-trace.same-output", vfAnd(s0 == s1, m0.String() == s0))
}

// VfC12_History: whatever was parsed earlier in the process (an accepted
// module, a module rejected at the top level, a module rejected inside a
// function body after its locals were indexed) does not change the verdict or
// the printed output of a later parse.  sync.Pool, should the library use one,
// is modelled as handing out any pooled object or none.
//
//vf:unwind 400
//vf:shards 8
//vf:steps 100000000
func VfC12_History() {
	x := hLetterIn("x", 'p', 's')
	g := hLetterIn("g", 'a', 'c')
	// the later input: valid, or invalid (uses an undefined local)
	var src string
	valid := vfChoice("later", 2) == 0
	if valid {
		src = "@" + g + " = global i32 1\ndefine i32 @f(i32 %a) {\nentry:\n\t%" + x + " = add i32 %a, 1\n\tret i32 %" + x + "\n}\n"
	} else {
		src = "@" + g + " = global i32 1\ndefine i32 @f(i32 %a) {\nentry:\n\tret i32 %" + x + "\n}\n"
	}
	m0, e0 := ParseString("a.ll", src)
	var s0 string
	if e0 == nil {
		s0 = m0.String()
	}
	var hist string
	switch vfChoice("history", 4) {
	case 0: // accepted, same names
		hist = "@" + g + " = global i32 2\ndefine i32 @f(i32 %a) {\nentry:\n\t%" + x + " = mul i32 %a, 3\n\tret i32 %" + x + "\n}\n"
	case 1: // rejected inside the body, after %x and the blocks were indexed
		hist = "@" + g + " = global i32 2\ndefine i32 @f(i32 %a) {\nentry:\n\t%" + x + " = mul i32 %a, 3\n\tret i32 %undefined\n}\n"
	case 2: // rejected by an instruction type check in the body
		hist = "define i32 @f(i32 %a) {\nentry:\n\t%" + x + " = mul i32 %a, 3\n\t%t = trunc i32 %" + x + " to i64\n\tret i32 %" + x + "\n}\n"
	default: // rejected at the top level
		hist = "@" + g + " = global i32* @undefined\n%t = type { %missing* }\n"
	}
	_, eh := ParseString("h.ll", hist)
	_ = eh
	m1, e1 := ParseString("b.ll", src)
	var s1 string
	if e1 == nil {
		s1 = m1.String()
	}
	vfReach("C12.history")
	vfObserveStr("src", src)
	vfAssert("C12.history.expected-verdict", (e0 == nil) == valid)
	vfAssert("C12.history.same-verdict", (e0 == nil) == (e1 == nil))
	vfAssert("C12.history.same-output", s0 == s1)
}

// VfC12_Concurrent (L4): two unrelated inputs parsed and printed on two
// goroutines: both orders of the two are executed on one heap; every access
// to an object that existed before the goroutines started (package-level
// state: tables, caches, pools) is logged with the mutexes held; no two
// accesses of different goroutines to one location, one of them a write, may
// lack a common mutex, and each result equals the result of parsing that
// input alone.  Natively the two parses really run on two goroutines under
// -race.
//
//vf:unwind 400
//vf:steps 200000000
func VfC12_Concurrent() {
	a := hLetterIn("a", 'a', 'c')
	b := hLetterIn("b", 'd', 'f')
	srcA := "%t = type { i37, %t* }\n@" + a + " = global %t zeroinitializer\ndefine i37 @f(i37 %x) {\n\t%y = add i37 %x, 1\n\tret i37 %y\n}\n!nm = !{!0}\n!0 = !{!\"s\"}\n"
	srcB := "$c = comdat any\n@" + b + " = global [2 x i41] zeroinitializer, comdat($c)\ndeclare void @g(<3 x i41>)\n!0 = !DIFile(filename: \"a\", directory: \"b\")\n"
	var gotA, gotB string
	parRun(func() {
		if m, err := ParseString("a.ll", srcA); err == nil {
			gotA = m.String()
		}
	}, func() {
		if m, err := ParseString("b.ll", srcB); err == nil {
			gotB = m.String()
		}
	})
	// sequential reference results, taken afterwards: taken before, they would
	// do all first-time work (fill every cache) ahead of the goroutines
	var wantA, wantB string
	if m, err := ParseString("a.ll", srcA); err == nil {
		wantA = m.String()
	}
	if m, err := ParseString("b.ll", srcB); err == nil {
		wantB = m.String()
	}
	vfReach("C12.concurrent")
	vfAssert("C12.concurrent.accepted", vfAnd(len(wantA) > 0, len(wantB) > 0))
	vfAssert("C12.concurrent.same-output", vfAnd(gotA == wantA, gotB == wantB))
	vfAssert("C12.concurrent.race-free", vfNoRace())
}

// VfC12_Interleaved (L4, vfPar): the same two parses as two suspendable
// threads: which one starts and at which scheduling points (before a Lock,
// after an Unlock - the printer's numbering mutexes and any mutex a cache or
// pool takes) the running one is preempted are forked choices, at most 1
// (thorough: 2) preemptions; every executed interleaving is checked for data
// races by happens-before and each result must equal the result of parsing
// that input alone.
//
//vf:unwind 400
//vf:steps 200000000
func VfC12_Interleaved() {
	a := hLetterIn("a", 'a', 'c')
	b := hLetterIn("b", 'd', 'f')
	srcA := "%t = type { i37, %t* }\n@" + a + " = global %t zeroinitializer\ndefine i37 @f(i37 %x) {\n\t%y = add i37 %x, 1\n\tret i37 %y\n}\n!nm = !{!0}\n!0 = !{!\"s\"}\n"
	srcB := "$c = comdat any\n@" + b + " = global [2 x i41] zeroinitializer, comdat($c)\ndeclare void @g(<3 x i41>)\n!0 = !DIFile(filename: \"a\", directory: \"b\")\n"
	budget := 1
	if vfTier() > 0 {
		budget = 2
	}
	var gotA, gotB string
	vfPar(func() {
		if m, err := ParseString("a.ll", srcA); err == nil {
			gotA = m.String()
		}
	}, func() {
		if m, err := ParseString("b.ll", srcB); err == nil {
			gotB = m.String()
		}
	}, budget)
	var wantA, wantB string
	if m, err := ParseString("a.ll", srcA); err == nil {
		wantA = m.String()
	}
	if m, err := ParseString("b.ll", srcB); err == nil {
		wantB = m.String()
	}
	vfReach("C12.interleaved")
	vfAssert("C12.interleaved.accepted", vfAnd(len(wantA) > 0, len(wantB) > 0))
	vfAssert("C12.interleaved.same-output", vfAnd(gotA == wantA, gotB == wantB))
	vfAssert("C12.interleaved.race-free", vfNoRace())
}

// hChunkReader is an io.Reader over a text with one of the behaviours the
// io.Reader contract allows: the data in one piece or in 16-byte pieces (a
// first piece of one byte in mode 4), and io.EOF either together with the
// last piece or by a further call that returns (0, io.EOF).
type hChunkReader struct {
	data    string
	pos     int
	mode    int
	eofWith bool
}

func (r *hChunkReader) Read(p []byte) (int, error) {
	if r.pos >= len(r.data) {
		return 0, io.EOF
	}
	n := len(r.data) - r.pos
	switch r.mode {
	case 1, 3:
		if n > 16 {
			n = 16
		}
	case 4:
		if r.pos == 0 {
			n = 1
		}
	}
	if n > len(p) {
		n = len(p)
	}
	copy(p, r.data[r.pos:r.pos+n])
	r.pos += n
	if r.pos >= len(r.data) && r.eofWith {
		return n, io.EOF
	}
	return n, nil
}

// VfC12_EntryPoints: the same (symbolic-token) text through asm.Parse with a
// reader of every chunking / end-of-file behaviour, through ParseBytes and
// through ParseString gives the same verdict and the same printed module; a
// text that is rejected is rejected through every entry point.
//
//vf:unwind 600
//vf:steps 100000000
func VfC12_EntryPoints() {
	a := hLetterIn("a", 'a', 'c')
	src := "@" + a + " = global i32 1\n@q = global i32* @" + a + "\ndefine i32 @f(i32 %x) {\n\t%y = add i32 %x, 1\n\tret i32 %y\n}\n"
	if vfChoice("valid", 2) == 1 {
		// invalid: the last line uses an undefined global (so that a lost tail
		// would turn a rejected text into an accepted one)
		src += "@r = global i32* @undefined\n"
	}
	mode := vfChoice("mode", 5)
	rd := &hChunkReader{data: src, mode: mode, eofWith: vfChoice("eof-with-data", 2) == 1}
	m0, e0 := ParseString("t.ll", src)
	m1, e1 := Parse("t.ll", rd)
	m2, e2 := ParseBytes("t.ll", []byte(src))
	vfReach("C12.entry-points")
	vfObserveStr("src", src)
	vfAssert("C12.entry-points.same-verdict", vfAnd((e0 == nil) == (e1 == nil), (e0 == nil) == (e2 == nil)))
	if e0 == nil && e1 == nil && e2 == nil {
		s0 := m0.String()
		vfAssert("C12.entry-points.same-output", vfAnd(m1.String() == s0, m2.String() == s0))
	}
}

// VfC12_GoroutineSchedules: should the translator (or the printer) start
// goroutines of its own, the result must not depend on when they run.  The
// same text is translated with every such goroutine running to completion
// where it is spawned and with every one of them running only when its
// spawner waits for it (the two extreme schedules of the sequentialised
// goroutine model): same verdict, same printed output.  The text has work for
// every translation step, among them module-level use-list orders (of a global
// and of a blockaddress constant) and blockaddress constants in initialisers;
// one variant refers to a block that does not exist.
//
//vf:unwind 400
//vf:steps 200000000
func VfC12_GoroutineSchedules() {
	bad := vfChoice("undefined-block", 2) == 1
	blk := "%bb"
	if bad {
		blk = "%nosuch"
	}
	src := hC12Source() +
		"define void @ba(i8** %p) {\nbb:\n\tstore i8* blockaddress(@ba, %bb), i8** %p\n\tbr label %cc\ncc:\n\tret void\n}\n" +
		"@t1 = global i8* blockaddress(@ba, %bb)\n@t2 = global i8* blockaddress(@ba, %cc)\n" +
		"@w0 = global i32 0\n@w1 = global i32* @w0\n@w2 = global i32* @w0\n" +
		"uselistorder i32* @w0, { 1, 0 }\n" +
		"uselistorder i8* blockaddress(@ba, " + blk + "), { 1, 0 }\n"
	vfGoMode(0)
	m0, e0 := ParseString("a.ll", src)
	var s0 string
	if e0 == nil {
		s0 = m0.String()
	}
	vfGoMode(1)
	m1, e1 := ParseString("b.ll", src)
	var s1 string
	if e1 == nil {
		s1 = m1.String()
	}
	vfGoMode(0)
	vfReach("C12.goroutine-schedules")
	vfObserveStr("src", src)
	vfAssert("C12.goroutine-schedules.undefined-block-rejected", vfImp(bad, e0 != nil))
	vfAssert("C12.goroutine-schedules.same-verdict", (e0 == nil) == (e1 == nil))
	vfAssert("C12.goroutine-schedules.same-output", s0 == s1)
}
