//go:build verif

package asm

import (
	"strconv"

	"github.com/llir/llvm/ir"
)

// VfC99_Probe is an engine probe (not a registered property).
func VfC99_Probe() {
	name := vfString("g", 2)
	for i := 0; i < len(name); i++ {
		vfAssume(vfAnd(name[i] >= 'a', name[i] <= 'z'))
	}
	m, err := ParseString("t.ll", "@"+name+" = global i32 1\n")
	vfReach("l3.parsed")
	vfAssert("L3.noerr", err == nil)
	if err == nil {
		vfAssert("L3.oneglobal", len(m.Globals) == 1)
		vfObserveStr("gn", m.Globals[0].GlobalName)
		vfObserveInt("gid", int(m.Globals[0].GlobalID))
		vfAssert("L3.name", m.Globals[0].GlobalName == name)
		vfObserveStr("printed", m.String())
	}
}

func VfC99_Probe2() {
	name := vfString("g", 2)
	for i := 0; i < len(name); i++ {
		vfAssume(vfAnd(name[i] >= 'a', name[i] <= 'z'))
	}
	id, err := strconv.ParseInt(name, 10, 64)
	vfObserveInt("id", int(id))
	vfObserveBool("errnil", err == nil)
	u := unquote(name)
	vfObserveStr("u", u)
	vfReach("p2")
	gi := ir.GlobalIdent{GlobalName: u}
	g := &ir.Global{}
	g.GlobalIdent = gi
	vfObserveStr("gn", g.GlobalName)
	vfAssert("P2.name", g.GlobalName == name)
}
