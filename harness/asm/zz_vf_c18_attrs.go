//go:build verif

package asm

import (
	"github.com/llir/llvm/ir"
	"github.com/llir/llvm/ir/constant"
	"github.com/llir/llvm/ir/enum"
	"github.com/llir/llvm/ir/types"
)

// C18 end to end: every member of the attribute and linkage-like enums is put
// on a carrier (a function, parameter, return value or global built through
// the constructors), printed by the real printer and read back by the real
// parser (concolic front end); the member read back is the member written.
// The member tables hGenM_* are regenerated from go/types on every run.

func hC18Carrier() (*ir.Module, *ir.Func) {
	m := ir.NewModule()
	f := m.NewFunc("f", types.I8Ptr, ir.NewParam("p", types.I8Ptr), ir.NewParam("n", types.I32))
	b := f.NewBlock("entry")
	b.NewRet(constant.NewNull(types.I8Ptr))
	return m, f
}

func hC18Reparse(m *ir.Module) *ir.Func {
	s := m.String()
	vfObserveStr("printed", s)
	m2, err := ParseString("t.ll", s)
	vfAssert("C18.carrier.reparses", err == nil)
	if err != nil {
		return nil
	}
	vfAssert("C18.carrier.fixpoint", m2.String() == s)
	return m2.Funcs[0]
}

// hC18SameAttr: same dynamic kind and same content.
func hC18SameAttr(a, b interface{ String() string }) bool {
	switch x := a.(type) {
	case enum.FuncAttr:
		if x == enum.FuncAttrUwtable {
			// the IR has two spellings of `uwtable`: the legacy enum member and
			// UnwindTable{Kind: none}; the parser produces the latter
			if y, ok := b.(ir.UnwindTable); ok {
				return y.Kind == enum.UnwindTableKindNone
			}
		}
		y, ok := b.(enum.FuncAttr)
		return vfAnd(ok, x == y)
	case enum.ParamAttr:
		y, ok := b.(enum.ParamAttr)
		return vfAnd(ok, x == y)
	case enum.ReturnAttr:
		y, ok := b.(enum.ReturnAttr)
		return vfAnd(ok, x == y)
	case ir.UnwindTable:
		y, ok := b.(ir.UnwindTable)
		return vfAnd(ok, x.Kind == y.Kind)
	case ir.AllocKind:
		// the parser returns *ir.AllocKind, the constructors take ir.AllocKind
		if y, ok := b.(*ir.AllocKind); ok {
			return x.Kind == y.Kind
		}
		y, ok := b.(ir.AllocKind)
		return vfAnd(ok, x.Kind == y.Kind)
	case ir.AllocSize:
		y, ok := b.(ir.AllocSize)
		return vfAnd(ok, vfAnd(x.ElemSizeIndex == y.ElemSizeIndex, x.NElemsIndex == y.NElemsIndex))
	case ir.VectorScaleRange:
		y, ok := b.(ir.VectorScaleRange)
		return vfAnd(ok, vfAnd(x.Min == y.Min, x.Max == y.Max))
	case ir.Align:
		y, ok := b.(ir.Align)
		return vfAnd(ok, x == y)
	case ir.AlignStack:
		y, ok := b.(ir.AlignStack)
		return vfAnd(ok, x == y)
	case ir.Dereferenceable:
		y, ok := b.(ir.Dereferenceable)
		return vfAnd(ok, vfAnd(x.N == y.N, x.DerefOrNull == y.DerefOrNull))
	case ir.Byval:
		y, ok := b.(ir.Byval)
		return vfAnd(ok, hGenTy(x.Typ, y.Typ))
	case ir.ByRef:
		y, ok := b.(ir.ByRef)
		return vfAnd(ok, hGenTy(x.Typ, y.Typ))
	case ir.SRet:
		y, ok := b.(ir.SRet)
		return vfAnd(ok, hGenTy(x.Typ, y.Typ))
	case ir.InAlloca:
		y, ok := b.(ir.InAlloca)
		return vfAnd(ok, hGenTy(x.Typ, y.Typ))
	case ir.Preallocated:
		y, ok := b.(ir.Preallocated)
		return vfAnd(ok, hGenTy(x.Typ, y.Typ))
	case ir.ElementType:
		y, ok := b.(ir.ElementType)
		return vfAnd(ok, hGenTy(x.Typ, y.Typ))
	case ir.AttrString:
		y, ok := b.(ir.AttrString)
		return vfAnd(ok, vfEqStr(string(x), string(y)))
	case ir.AttrPair:
		y, ok := b.(ir.AttrPair)
		return vfAnd(ok, vfAnd(vfEqStr(x.Key, y.Key), vfEqStr(x.Value, y.Value)))
	}
	return false
}

// hC18Small returns a symbolic number below 10^4 (at most four decimal digits).
func hC18Small(name string) uint64 {
	v := uint64(vfUint32(name))
	vfAssume(v < 10000)
	return v
}

//vf:unwind 400
//vf:shards 16
func VfC18_FuncAttrs() {
	nEnum := len(hGenM_FuncAttr)
	k := vfChoice("attr", nEnum+9)
	m, f := hC18Carrier()
	var a ir.FuncAttribute
	switch {
	case k < nEnum:
		a = hGenM_FuncAttr[k]
	case k < nEnum+3:
		a = ir.UnwindTable{Kind: hGenM_UnwindTableKind[k-nEnum]}
	case k == nEnum+3:
		bits := enum.AllocKind(vfByte("allockind.bits") & 63)
		vfAssume(bits != 0)
		a = ir.AllocKind{Kind: bits}
	case k == nEnum+4:
		a = ir.AllocSize{ElemSizeIndex: int(hC18Small("elem")), NElemsIndex: -1}
	case k == nEnum+5:
		a = ir.AllocSize{ElemSizeIndex: int(hC18Small("elem")), NElemsIndex: int(hC18Small("n"))}
	case k == nEnum+6:
		a = ir.VectorScaleRange{Min: int(hC18Small("min")), Max: int(hC18Small("max"))}
	case k == nEnum+7:
		a = ir.VectorScaleRange{Min: -1, Max: int(hC18Small("max"))}
	default:
		a = ir.AlignStack(1 << (vfByte("alignstack.log") & 15))
	}
	f.FuncAttrs = []ir.FuncAttribute{a}
	vfReach("C18.funcattr")
	f2 := hC18Reparse(m)
	if f2 == nil {
		return
	}
	vfAssert("C18.funcattr.one", len(f2.FuncAttrs) == 1)
	if len(f2.FuncAttrs) == 1 {
		vfAssert("C18.funcattr.same-member", hC18SameAttr(a, f2.FuncAttrs[0]))
	}
}

//vf:unwind 400
//vf:shards 16
func VfC18_ParamAttrs() {
	nEnum := len(hGenM_ParamAttr)
	k := vfChoice("attr", nEnum+10)
	m, f := hC18Carrier()
	var a ir.ParamAttribute
	switch {
	case k < nEnum:
		a = hGenM_ParamAttr[k]
	case k == nEnum:
		a = ir.Align(1 << (vfByte("align.log") & 15))
	case k == nEnum+1:
		a = ir.Dereferenceable{N: hC18Small("n")}
	case k == nEnum+2:
		a = ir.Dereferenceable{N: hC18Small("n"), DerefOrNull: true}
	case k == nEnum+3:
		a = ir.Byval{Typ: types.I8}
	case k == nEnum+4:
		a = ir.ByRef{Typ: types.I8}
	case k == nEnum+5:
		a = ir.SRet{Typ: types.I8}
	case k == nEnum+6:
		a = ir.InAlloca{Typ: types.I8}
	case k == nEnum+7:
		a = ir.Preallocated{Typ: types.I8}
	case k == nEnum+8:
		a = ir.ElementType{Typ: types.I8}
	default:
		a = ir.AlignStack(1 << (vfByte("alignstack.log") & 15))
	}
	f.Params[0].Attrs = []ir.ParamAttribute{a}
	vfReach("C18.paramattr")
	f2 := hC18Reparse(m)
	if f2 == nil {
		return
	}
	vfAssert("C18.paramattr.one", len(f2.Params[0].Attrs) == 1)
	if len(f2.Params[0].Attrs) == 1 {
		vfAssert("C18.paramattr.same-member", hC18SameAttr(a, f2.Params[0].Attrs[0]))
	}
}

//vf:unwind 400
//vf:shards 8
func VfC18_ReturnAttrs() {
	nEnum := len(hGenM_ReturnAttr)
	// (ir.Align as a return attribute is not part of this carrier: the grammar
	// of llir/ll has no `align` return attribute, see C03.return-align-unparsed)
	k := vfChoice("attr", nEnum+2)
	m, f := hC18Carrier()
	var a ir.ReturnAttribute
	switch {
	case k < nEnum:
		a = hGenM_ReturnAttr[k]
	case k == nEnum:
		a = ir.Dereferenceable{N: hC18Small("n")}
	default:
		a = ir.Dereferenceable{N: hC18Small("n"), DerefOrNull: true}
	}
	f.ReturnAttrs = []ir.ReturnAttribute{a}
	vfReach("C18.returnattr")
	f2 := hC18Reparse(m)
	if f2 == nil {
		return
	}
	vfAssert("C18.returnattr.one", len(f2.ReturnAttrs) == 1)
	if len(f2.ReturnAttrs) == 1 {
		vfAssert("C18.returnattr.same-member", hC18SameAttr(a, f2.ReturnAttrs[0]))
	}
}

// VfC18_GlobalEnums: linkage, preemption, visibility, DLL storage class, TLS
// model, unnamed_addr, calling convention and comdat selection kind on a
// global variable / function / comdat definition.
//
//vf:unwind 400
//vf:shards 16
func VfC18_GlobalEnums() {
	fam := vfChoice("family", 8)
	m := ir.NewModule()
	g := m.NewGlobalDef("g", constant.NewInt(types.I32, 0))
	f := m.NewFunc("f", types.Void)
	f.NewBlock("entry").NewRet(nil)
	cd := &ir.ComdatDef{Name: "c", Kind: enum.SelectionKindAny}
	m.ComdatDefs = append(m.ComdatDefs, cd)
	g.Comdat = cd
	// every kind of top-level entity that carries these keywords: an alias, an
	// ifunc and a function declaration next to the two definitions
	tgt := m.NewGlobalDef("tgt", constant.NewInt(types.I32, 1))
	al := m.NewAlias("al", tgt)
	res := m.NewFunc("res", types.NewPointer(types.NewFunc(types.Void)))
	res.NewBlock("entry").NewRet(constant.NewNull(types.NewPointer(types.NewFunc(types.Void))))
	ifn := m.NewIFunc("ifn", res)
	decl := m.NewFunc("decl", types.Void)
	var k int
	switch fam {
	case 0:
		k = vfChoice("member", len(hGenM_Linkage))
		l := hGenM_Linkage[k]
		// external linkages are for declarations; appending is for arrays;
		// available_externally, common, ... are syntactically free
		if l == enum.LinkageExternal || l == enum.LinkageExternWeak {
			g.Init = nil
			g.Comdat = nil
			decl.Linkage = l
		} else {
			f.Linkage = l
		}
		g.Linkage = l
		al.Linkage, ifn.Linkage = l, l
	case 1:
		k = vfChoice("member", len(hGenM_Preemption))
		if hGenM_Preemption[k] == enum.PreemptionDSOLocalEquivalent {
			// `dso_local_equivalent` is the keyword of a constant, not a
			// preemption specifier of a definition (table level: C18 generated entries)
			vfCut("dso_local_equivalent is not a preemption specifier of a definition")
		}
		g.Preemption = hGenM_Preemption[k]
		f.Preemption = hGenM_Preemption[k]
		al.Preemption, ifn.Preemption, decl.Preemption = g.Preemption, g.Preemption, g.Preemption
	case 2:
		k = vfChoice("member", len(hGenM_Visibility))
		g.Visibility = hGenM_Visibility[k]
		f.Visibility = hGenM_Visibility[k]
		al.Visibility, ifn.Visibility, decl.Visibility = g.Visibility, g.Visibility, g.Visibility
	case 3:
		k = vfChoice("member", len(hGenM_DLLStorageClass))
		g.DLLStorageClass = hGenM_DLLStorageClass[k]
		f.DLLStorageClass = hGenM_DLLStorageClass[k]
		al.DLLStorageClass, ifn.DLLStorageClass, decl.DLLStorageClass = g.DLLStorageClass, g.DLLStorageClass, g.DLLStorageClass
	case 4:
		k = vfChoice("member", len(hGenM_TLSModel))
		g.TLSModel = hGenM_TLSModel[k]
		al.TLSModel, ifn.TLSModel = g.TLSModel, g.TLSModel
	case 5:
		k = vfChoice("member", len(hGenM_UnnamedAddr))
		g.UnnamedAddr = hGenM_UnnamedAddr[k]
		f.UnnamedAddr = hGenM_UnnamedAddr[k]
		al.UnnamedAddr, ifn.UnnamedAddr, decl.UnnamedAddr = g.UnnamedAddr, g.UnnamedAddr, g.UnnamedAddr
	case 6:
		k = vfChoice("member", len(hGenM_CallingConv))
		f.CallingConv = hGenM_CallingConv[k]
	default:
		k = vfChoice("member", len(hGenM_SelectionKind))
		cd.Kind = hGenM_SelectionKind[k]
	}
	vfReach("C18.globalenum")
	s := m.String()
	vfObserveStr("printed", s)
	m2, err := ParseString("t.ll", s)
	vfAssert("C18.globalenum.reparses", err == nil)
	if err != nil {
		return
	}
	vfAssert("C18.globalenum.fixpoint", m2.String() == s)
	g2, f2, cd2 := m2.Globals[0], m2.Funcs[0], m2.ComdatDefs[0]
	vfAssert("C18.globalenum.global", vfAnd(vfAnd(g2.Linkage == g.Linkage, g2.Preemption == g.Preemption), vfAnd(vfAnd(g2.Visibility == g.Visibility, g2.DLLStorageClass == g.DLLStorageClass), vfAnd(g2.TLSModel == g.TLSModel, g2.UnnamedAddr == g.UnnamedAddr))))
	vfAssert("C18.globalenum.func", vfAnd(vfAnd(f2.Linkage == f.Linkage, f2.Preemption == f.Preemption), vfAnd(vfAnd(f2.Visibility == f.Visibility, f2.DLLStorageClass == f.DLLStorageClass), vfAnd(f2.CallingConv == f.CallingConv, f2.UnnamedAddr == f.UnnamedAddr))))
	vfAssert("C18.globalenum.comdat", cd2.Kind == cd.Kind)
	al2, ifn2 := m2.Aliases[0], m2.IFuncs[0]
	var decl2 *ir.Func
	for _, x := range m2.Funcs {
		if x.Name() == "decl" {
			decl2 = x
		}
	}
	vfAssert("C18.globalenum.alias", vfAnd(vfAnd(al2.Linkage == al.Linkage, al2.Preemption == al.Preemption), vfAnd(vfAnd(al2.Visibility == al.Visibility, al2.DLLStorageClass == al.DLLStorageClass), vfAnd(al2.TLSModel == al.TLSModel, al2.UnnamedAddr == al.UnnamedAddr))))
	vfAssert("C18.globalenum.ifunc", vfAnd(vfAnd(ifn2.Linkage == ifn.Linkage, ifn2.Preemption == ifn.Preemption), vfAnd(vfAnd(ifn2.Visibility == ifn.Visibility, ifn2.DLLStorageClass == ifn.DLLStorageClass), vfAnd(ifn2.TLSModel == ifn.TLSModel, ifn2.UnnamedAddr == ifn.UnnamedAddr))))
	if decl2 != nil {
		vfAssert("C18.globalenum.declaration", vfAnd(vfAnd(decl2.Linkage == decl.Linkage, decl2.Preemption == decl.Preemption), vfAnd(vfAnd(decl2.Visibility == decl.Visibility, decl2.DLLStorageClass == decl.DLLStorageClass), decl2.UnnamedAddr == decl.UnnamedAddr)))
	}
}

// VfC18_GlobalEnumPairs: two header fields at a time (a printer that decides
// whether to write one keyword by looking at another field is only seen with
// both set): every pair of members of every two of linkage, preemption,
// visibility, DLL storage class, TLS model and unnamed_addr on a global
// variable, and of the applicable ones on a function.
//
//vf:unwind 400
//vf:shards 16
func VfC18_GlobalEnumPairs() {
	pair := vfChoice("families", 15)
	// the 15 unordered pairs of 6 families
	fa, fb := 0, 0
	k := 0
	for i := 0; i < 6; i++ {
		for j := i + 1; j < 6; j++ {
			if k == pair {
				fa, fb = i, j
			}
			k++
		}
	}
	m := ir.NewModule()
	g := m.NewGlobalDef("g", constant.NewInt(types.I32, 0))
	f := m.NewFunc("f", types.Void)
	f.NewBlock("entry").NewRet(nil)
	set := func(fam int, name string) {
		switch fam {
		case 0:
			l := hGenM_Linkage[vfChoice(name, len(hGenM_Linkage))]
			if l == enum.LinkageExternal || l == enum.LinkageExternWeak {
				g.Init = nil
				f.Blocks = nil
			}
			g.Linkage, f.Linkage = l, l
		case 1:
			p := hGenM_Preemption[vfChoice(name, len(hGenM_Preemption))]
			if p == enum.PreemptionDSOLocalEquivalent {
				vfCut("dso_local_equivalent is not a preemption specifier of a definition")
			}
			g.Preemption, f.Preemption = p, p
		case 2:
			v := hGenM_Visibility[vfChoice(name, len(hGenM_Visibility))]
			g.Visibility, f.Visibility = v, v
		case 3:
			d := hGenM_DLLStorageClass[vfChoice(name, len(hGenM_DLLStorageClass))]
			g.DLLStorageClass, f.DLLStorageClass = d, d
		case 4:
			g.TLSModel = hGenM_TLSModel[vfChoice(name, len(hGenM_TLSModel))]
		default:
			u := hGenM_UnnamedAddr[vfChoice(name, len(hGenM_UnnamedAddr))]
			g.UnnamedAddr, f.UnnamedAddr = u, u
		}
	}
	set(fa, "first")
	set(fb, "second")
	vfReach("C18.globalenum.pairs")
	s := m.String()
	vfObserveStr("printed", s)
	m2, err := ParseString("t.ll", s)
	vfAssert("C18.pairs.reparses", err == nil)
	if err != nil {
		return
	}
	g2, f2 := m2.Globals[0], m2.Funcs[0]
	vfAssert("C18.pairs.global", vfAnd(vfAnd(g2.Linkage == g.Linkage, g2.Preemption == g.Preemption), vfAnd(vfAnd(g2.Visibility == g.Visibility, g2.DLLStorageClass == g.DLLStorageClass), vfAnd(g2.TLSModel == g.TLSModel, g2.UnnamedAddr == g.UnnamedAddr))))
	vfAssert("C18.pairs.func", vfAnd(vfAnd(f2.Linkage == f.Linkage, f2.Preemption == f.Preemption), vfAnd(vfAnd(f2.Visibility == f.Visibility, f2.DLLStorageClass == f.DLLStorageClass), f2.UnnamedAddr == f.UnnamedAddr)))
	vfAssert("C18.pairs.fixpoint", m2.String() == s)
}

// VfC18_InstructionFlagSets: fast-math flag sets (one member, every pair of
// members, all members) on fadd / fcmp / call, and overflow flag sets on add:
// the set read back from the printed instruction is exactly the set written
// (`fast` is a member like the others in this IR).
//
//vf:unwind 400
//vf:shards 16
func VfC18_InstructionFlagSets() {
	nf := len(hGenM_FastMathFlag)
	i := vfChoice("first", nf)
	j := vfChoice("second", nf+2) // nf: none, nf+1: all members
	var set []enum.FastMathFlag
	switch {
	case j == nf+1:
		set = append(set, hGenM_FastMathFlag...)
	case j == nf || j == i:
		set = []enum.FastMathFlag{hGenM_FastMathFlag[i]}
	default:
		set = []enum.FastMathFlag{hGenM_FastMathFlag[i], hGenM_FastMathFlag[j]}
	}
	m := ir.NewModule()
	callee := m.NewFunc("g", types.Float)
	f := m.NewFunc("f", types.Void, ir.NewParam("x", types.Float), ir.NewParam("y", types.I32))
	b := f.NewBlock("entry")
	x, y := f.Params[0], f.Params[1]
	fa := b.NewFAdd(x, x)
	fa.FastMathFlags = set
	fc := b.NewFCmp(enum.FPredOLT, x, x)
	fc.FastMathFlags = set
	cl := b.NewCall(callee)
	cl.FastMathFlags = set
	ad := b.NewAdd(y, y)
	switch vfChoice("overflow", 4) {
	case 1:
		ad.OverflowFlags = []enum.OverflowFlag{enum.OverflowFlagNUW}
	case 2:
		ad.OverflowFlags = []enum.OverflowFlag{enum.OverflowFlagNSW}
	case 3:
		ad.OverflowFlags = []enum.OverflowFlag{enum.OverflowFlagNUW, enum.OverflowFlagNSW}
	}
	b.NewRet(nil)
	s := m.String()
	m2, err := ParseString("t.ll", s)
	vfReach("C18.instruction-flag-sets")
	vfObserveStr("printed", s)
	vfAssert("C18.instflags.reparses", err == nil)
	if err != nil {
		return
	}
	is := m2.Funcs[1].Blocks[0].Insts
	sameFMF := func(got []enum.FastMathFlag) bool {
		if len(got) != len(set) {
			return false
		}
		ok := true
		for _, a := range set {
			found := false
			for _, b := range got {
				if a == b {
					found = true
				}
			}
			ok = ok && found
		}
		return ok
	}
	vfAssert("C18.instflags.fadd", sameFMF(is[0].(*ir.InstFAdd).FastMathFlags))
	vfAssert("C18.instflags.fcmp", sameFMF(is[1].(*ir.InstFCmp).FastMathFlags))
	vfAssert("C18.instflags.call", sameFMF(is[2].(*ir.InstCall).FastMathFlags))
	got := is[3].(*ir.InstAdd).OverflowFlags
	vfAssert("C18.instflags.overflow", len(got) == len(ad.OverflowFlags))
	for k := range got {
		if k < len(ad.OverflowFlags) {
			vfAssert("C18.instflags.overflow", got[k] == ad.OverflowFlags[k])
		}
	}
}

// VfC18_TypeKeywords: the floating-point kind keywords end to end through the
// real printer and parser: a module built with the constructors uses the kind
// as a return type, a parameter type, the element type of a global array and a
// field of an identified struct; the kind read back at each site is the kind
// written (the table-level round trip of FloatKindFromString is a generated
// entry).
//
//vf:unwind 300
func VfC18_TypeKeywords() {
	kinds := [...]types.FloatKind{types.FloatKindHalf, types.FloatKindFloat, types.FloatKindDouble, types.FloatKindFP128, types.FloatKindX86_FP80, types.FloatKindPPC_FP128}
	k := kinds[vfChoice("kind", len(kinds))]
	ft := &types.FloatType{Kind: k}
	m := ir.NewModule()
	m.NewTypeDef("T", types.NewStruct(&types.FloatType{Kind: k}, types.I8))
	m.NewGlobalDef("g", constant.NewZeroInitializer(types.NewArray(2, &types.FloatType{Kind: k})))
	m.NewFunc("f", ft, ir.NewParam("p", &types.FloatType{Kind: k}))
	vfReach("C18.typekeyword")
	s := m.String()
	vfObserveStr("printed", s)
	m2, err := ParseString("t.ll", s)
	vfAssert("C18.typekeyword.reparses", err == nil)
	if err != nil {
		return
	}
	kindOf := func(t types.Type) types.FloatKind {
		if f, ok := t.(*types.FloatType); ok {
			return f.Kind
		}
		return types.FloatKind(250)
	}
	f2 := m2.Funcs[0]
	vfAssert("C18.typekeyword.return-type", kindOf(f2.Sig.RetType) == k)
	vfAssert("C18.typekeyword.parameter-type", kindOf(f2.Params[0].Type()) == k)
	at, ok := m2.Globals[0].ContentType.(*types.ArrayType)
	vfAssert("C18.typekeyword.array-element", vfAnd(ok, ok && kindOf(at.ElemType) == k))
	st, ok2 := m2.TypeDefs[0].(*types.StructType)
	vfAssert("C18.typekeyword.struct-field", vfAnd(ok2, ok2 && kindOf(st.Fields[0]) == k))
	vfAssert("C18.typekeyword.fixpoint", m2.String() == s)
}
