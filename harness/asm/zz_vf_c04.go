//go:build verif

package asm

import (
	"github.com/llir/llvm/ir"
	"github.com/llir/llvm/ir/constant"
	"github.com/llir/llvm/ir/metadata"
	"github.com/llir/llvm/ir/types"
	"github.com/llir/llvm/ir/value"
)

// C04 (L3): in a parsed module every use of a name is the very object the
// module / enclosing function lists as its definition: forward, mutual,
// self-referential and blockaddress references, locals never resolve outside
// their function, parent links agree with containment.  Identifier names are
// symbolic letters.

func hTwoLetters(n1, n2 string) (string, string) {
	a, b := hLetterIn(n1, 'a', 'f'), hLetterIn(n2, 'a', 'f')
	vfAssume(a != b)
	return a, b
}

// VfC04_Types: recursive and mutually recursive identified types.
//
//vf:unwind 300
func VfC04_Types() {
	a, b := hTwoLetters("A", "B")
	src := "%" + a + " = type { i32, %" + b + "*, %" + a + "* }\n" +
		"%" + b + " = type { %" + a + "* }\n" +
		"@g = global %" + a + " zeroinitializer\n" +
		"@h = global [2 x %" + b + "*] zeroinitializer\n"
	m, err := ParseString("t.ll", src)
	vfReach("C04.types")
	vfObserveStr("src", src)
	vfAssert("C04.types.accepted", err == nil)
	if err != nil {
		return
	}
	vfAssert("C04.types.two-defs", len(m.TypeDefs) == 2)
	if len(m.TypeDefs) != 2 {
		return
	}
	var ta, tb *types.StructType
	for _, t := range m.TypeDefs {
		st, ok := t.(*types.StructType)
		if !ok {
			continue
		}
		if st.TypeName == a {
			ta = st
		}
		if st.TypeName == b {
			tb = st
		}
	}
	vfAssert("C04.types.named-defs-present", vfAnd(ta != nil, tb != nil))
	if ta == nil || tb == nil {
		return
	}
	pb := ta.Fields[1].(*types.PointerType).ElemType
	pa := ta.Fields[2].(*types.PointerType).ElemType
	vfAssert("C04.types.forward-ref-is-def", pb == types.Type(tb))
	vfAssert("C04.types.self-ref-is-def", pa == types.Type(ta))
	vfAssert("C04.types.mutual-ref-is-def", tb.Fields[0].(*types.PointerType).ElemType == types.Type(ta))
	vfAssert("C04.types.global-content-is-def", m.Globals[0].ContentType == types.Type(ta))
	el := m.Globals[1].ContentType.(*types.ArrayType).ElemType.(*types.PointerType).ElemType
	vfAssert("C04.types.nested-use-is-def", el == types.Type(tb))
	vfAssert("C04.types.no-placeholder", vfAnd(len(ta.Fields) == 3, len(tb.Fields) == 1))
	closed, _ := hClosed(m)
	vfAssert("C04.types.closed", closed)
}

// VfC04_Globals: globals initialised with each other's addresses, alias,
// ifunc, comdat and attribute group references.
//
//vf:unwind 300
func VfC04_Globals() {
	a, b := hTwoLetters("a", "b")
	c := hLetterIn("c", 'a', 'f')
	src := "$" + c + " = comdat any\n" +
		"@" + a + " = global i8* bitcast (i8** @" + b + " to i8*), comdat($" + c + ")\n" +
		"@" + b + " = global i8* bitcast (i8** @" + a + " to i8*)\n" +
		"@x = alias i8*, i8** @" + a + "\n" +
		"@y = ifunc void (), void ()* ()* @r\n" +
		"define void ()* @r() #0 {\n\tret void ()* null\n}\n" +
		"define void @u() #0 comdat($" + c + ") {\n\tcall void ()* @r()\n\tret void\n}\n" +
		"attributes #0 = { nounwind }\n"
	m, err := ParseString("t.ll", src)
	vfReach("C04.globals")
	vfObserveStr("src", src)
	vfAssert("C04.globals.accepted", err == nil)
	if err != nil {
		return
	}
	ga, gb := m.Globals[0], m.Globals[1]
	vfAssert("C04.globals.order", vfAnd(ga.GlobalName == a, gb.GlobalName == b))
	ia := ga.Init.(*constant.ExprBitCast).From
	ib := gb.Init.(*constant.ExprBitCast).From
	vfAssert("C04.globals.forward-ref-is-def", ia == constant.Constant(gb))
	vfAssert("C04.globals.backward-ref-is-def", ib == constant.Constant(ga))
	vfAssert("C04.globals.alias-target-is-def", m.Aliases[0].Aliasee == constant.Constant(ga))
	vfAssert("C04.globals.ifunc-resolver-is-def", m.IFuncs[0].Resolver == constant.Constant(m.Funcs[0]))
	vfAssert("C04.globals.comdat-is-def", vfAnd(ga.Comdat == m.ComdatDefs[0], m.Funcs[1].Comdat == m.ComdatDefs[0]))
	ag0, ok0 := m.Funcs[0].FuncAttrs[0].(*ir.AttrGroupDef)
	ag1, ok1 := m.Funcs[1].FuncAttrs[0].(*ir.AttrGroupDef)
	vfAssert("C04.globals.attrgroup-is-def", vfAnd(vfAnd(ok0, ok1), vfAnd(ag0 == m.AttrGroupDefs[0], ag1 == m.AttrGroupDefs[0])))
	call := m.Funcs[1].Blocks[0].Insts[0].(*ir.InstCall)
	vfAssert("C04.globals.callee-is-def", call.Callee == value.Value(m.Funcs[0]))
	vfAssert("C04.globals.parents", vfAnd(m.Funcs[0].Parent == m, m.Funcs[1].Parent == m))
	closed, _ := hClosed(m)
	vfAssert("C04.globals.closed", closed)
}

// VfC04_Locals: phi and branch cycles, use before definition in layout
// order, the same local names in two functions, blockaddress of a block of a
// later function.
//
//vf:unwind 400
func VfC04_Locals() {
	x, n := hLetterIn("x", 'u', 'z'), hLetterIn("n", 'u', 'z')
	vfAssume(x != n)
	l := hLetterIn("l", 'p', 's') // loop label
	src := "@ba = global i8* blockaddress(@f, %" + l + ")\n" +
		"define i32 @f(i32 %" + x + ") {\nentry:\n\tbr label %" + l + "\n" +
		l + ":\n" +
		"\t%i = phi i32 [ %" + x + ", %entry ], [ %" + n + ", %" + l + " ]\n" +
		"\t%" + n + " = add i32 %i, 1\n" +
		"\t%c = icmp eq i32 %" + n + ", 10\n" +
		"\tbr i1 %c, label %exit, label %" + l + "\n" +
		"exit:\n\tret i32 %" + n + "\n}\n" +
		"define i32 @g(i32 %" + x + ") {\nentry:\n" +
		"\t%" + n + " = add i32 %" + x + ", 2\n" +
		"\tret i32 %" + n + "\n}\n"
	m, err := ParseString("t.ll", src)
	vfReach("C04.locals")
	vfObserveStr("src", src)
	vfAssert("C04.locals.accepted", err == nil)
	if err != nil {
		return
	}
	f, g := m.Funcs[0], m.Funcs[1]
	entry, loop, exit := f.Blocks[0], f.Blocks[1], f.Blocks[2]
	phi := loop.Insts[0].(*ir.InstPhi)
	add := loop.Insts[1].(*ir.InstAdd)
	cmp := loop.Insts[2].(*ir.InstICmp)
	vfAssert("C04.locals.phi-param", phi.Incs[0].X == value.Value(f.Params[0]))
	vfAssert("C04.locals.phi-pred-blocks", vfAnd(phi.Incs[0].Pred == value.Value(entry), phi.Incs[1].Pred == value.Value(loop)))
	vfAssert("C04.locals.use-before-def", phi.Incs[1].X == value.Value(add))
	vfAssert("C04.locals.operand-is-def", vfAnd(add.X == value.Value(phi), cmp.X == value.Value(add)))
	br := loop.Term.(*ir.TermCondBr)
	vfAssert("C04.locals.branch-targets", vfAnd(br.Cond == value.Value(cmp), vfAnd(br.TargetTrue == value.Value(exit), br.TargetFalse == value.Value(loop))))
	vfAssert("C04.locals.entry-target", entry.Term.(*ir.TermBr).Target == value.Value(loop))
	vfAssert("C04.locals.ret", exit.Term.(*ir.TermRet).X == value.Value(add))
	gadd := g.Blocks[0].Insts[0].(*ir.InstAdd)
	vfAssert("C04.locals.scoped-to-function", vfAnd(gadd.X == value.Value(g.Params[0]), g.Blocks[0].Term.(*ir.TermRet).X == value.Value(gadd)))
	vfAssert("C04.locals.not-other-function", vfAnd(gadd.X != value.Value(f.Params[0]), gadd != add))
	ba := m.Globals[0].Init.(*constant.BlockAddress)
	vfAssert("C04.locals.blockaddress-func-is-def", ba.Func == constant.Constant(f))
	vfAssert("C04.locals.blockaddress-block-is-def", ba.Block == value.Named(loop))
	ok := true
	for _, fn := range m.Funcs {
		ok = ok && fn.Parent == m
		for _, b := range fn.Blocks {
			ok = ok && b.Parent == fn
		}
	}
	vfAssert("C04.locals.parents-agree-with-containment", ok)
	closed, _ := hClosed(m)
	vfAssert("C04.locals.closed", closed)
}

// VfC04_TypeAlias: `%b = type %a` - the alias is the aliased definition and
// no placeholder survives in the module.
//
//vf:unwind 300
func VfC04_TypeAlias() {
	a, b := hTwoLetters("A", "B")
	src := "%" + a + " = type { i32 }\n%" + b + " = type %" + a + "\n@g = global %" + b + " zeroinitializer\n"
	m, err := ParseString("t.ll", src)
	vfReach("C04.alias")
	vfObserveStr("src", src)
	if err != nil {
		return // rejecting aliases would also be fine (llvm-as does not allow them)
	}
	for _, t := range m.TypeDefs {
		st, ok := t.(*types.StructType)
		if ok {
			// known finding region (see known_findings.json)
			vfKnown("C04.type-alias-placeholder", true)
			vfAssert("C04.alias.no-empty-placeholder", vfOr(len(st.Fields) > 0, st.Opaque))
		}
	}
}

// VfC04_Unnamed: unnamed functions and globals (whose names are all empty)
// must not be confused with each other: two unnamed functions with the same
// block labels and local names, blockaddress constants into both (also as the
// value of a use-list order directive), unnamed globals referring to each
// other.
//
//vf:unwind 400
func VfC04_Unnamed() {
	l := hLetterIn("l", 'p', 's')
	x := hLetterIn("x", 'u', 'z')
	body := func(k string) string {
		return "(i32 %" + x + ") {\nentry:\n\tbr label %" + l + "\n" + l + ":\n\t%res = add i32 %" + x + ", " + k + "\n\tret i32 %res\n}\n"
	}
	src := "@0 = global i8* blockaddress(@2, %" + l + ")\n" +
		"@1 = global i8* blockaddress(@3, %" + l + ")\n" +
		"define i32 @2" + body("1") +
		"define i32 @3" + body("2") +
		"@4 = global i8** @0\n"
	m, err := ParseString("t.ll", src)
	vfReach("C04.unnamed")
	vfObserveStr("src", src)
	vfAssert("C04.unnamed.accepted", err == nil)
	if err != nil {
		return
	}
	vfAssert("C04.unnamed.counts", vfAnd(len(m.Globals) == 3, len(m.Funcs) == 2))
	if len(m.Globals) != 3 || len(m.Funcs) != 2 {
		return
	}
	f0, f1 := m.Funcs[0], m.Funcs[1]
	ba0 := m.Globals[0].Init.(*constant.BlockAddress)
	ba1 := m.Globals[1].Init.(*constant.BlockAddress)
	vfAssert("C04.unnamed.blockaddress-func", vfAnd(ba0.Func == constant.Constant(f0), ba1.Func == constant.Constant(f1)))
	vfAssert("C04.unnamed.blockaddress-block", vfAnd(ba0.Block == value.Named(f0.Blocks[1]), ba1.Block == value.Named(f1.Blocks[1])))
	vfAssert("C04.unnamed.block-parent", vfAnd(ba0.Block.(*ir.Block).Parent == f0, ba1.Block.(*ir.Block).Parent == f1))
	a0 := f0.Blocks[1].Insts[0].(*ir.InstAdd)
	a1 := f1.Blocks[1].Insts[0].(*ir.InstAdd)
	vfAssert("C04.unnamed.locals-scoped", vfAnd(a0.X == value.Value(f0.Params[0]), a1.X == value.Value(f1.Params[0])))
	vfAssert("C04.unnamed.global-ref", m.Globals[2].Init == constant.Constant(m.Globals[0]))
	closed, _ := hClosed(m)
	vfAssert("C04.unnamed.closed", closed)
}

// VfC04_UseListOrder: the value of a module-level use-list order directive,
// including a blockaddress constant, is the defining object.
//
//vf:unwind 400
func VfC04_UseListOrder() {
	l := hLetterIn("l", 'p', 's')
	src := "@g = global i32 0\n@a = global i32* @g\n@b = global i32* @g\n" +
		"define void @f() {\nentry:\n\tbr label %" + l + "\n" + l + ":\n\tret void\n}\n" +
		"@p = global i8* blockaddress(@f, %" + l + ")\n@q = global i8* blockaddress(@f, %" + l + ")\n" +
		"uselistorder i32* @g, { 1, 0 }\n" +
		"uselistorder i8* blockaddress(@f, %" + l + "), { 1, 0 }\n"
	m, err := ParseString("t.ll", src)
	vfReach("C04.uselistorder")
	vfObserveStr("src", src)
	vfAssert("C04.uselistorder.accepted", err == nil)
	if err != nil {
		return
	}
	vfAssert("C04.uselistorder.count", len(m.UseListOrders) == 2)
	if len(m.UseListOrders) != 2 {
		return
	}
	vfAssert("C04.uselistorder.global-is-def", m.UseListOrders[0].Value == value.Value(m.Globals[0]))
	ba, ok := m.UseListOrders[1].Value.(*constant.BlockAddress)
	vfAssert("C04.uselistorder.blockaddress", ok)
	if ok {
		blk := m.Funcs[0].Blocks[1]
		vfAssert("C04.uselistorder.blockaddress-block-is-def", vfAnd(ba.Block == value.Named(blk), ba.Func == constant.Constant(m.Funcs[0])))
		vfAssert("C04.uselistorder.no-placeholder", ba.Block.(*ir.Block).Parent == m.Funcs[0])
	}
	closed, _ := hClosed(m)
	vfAssert("C04.uselistorder.closed", closed)
}

// VfC04_Closure: reference-rich templates (debug-info graph with cycles and a
// local value used as metadata; exception handling and indirect branches with
// blockaddress operands; module-level constants, comdats, attribute groups,
// prefix/prologue/personality; named types throughout a function).  After an
// accepted parse the whole object graph is walked (hClosed): every reference
// is the listed definition.  Names symbolic.
//
//vf:unwind 2000
//vf:steps 400000000
//vf:shards 4
func VfC04_Closure() {
	a := hLetterIn("a", 'a', 'e')
	l := hLetterIn("l", 'p', 't')
	var src string
	switch vfChoice("template", 4) {
	case 0:
		src = "define void @" + a + "(i32 %x) !dbg !4 {\n" + l + ":\n" +
			"\tcall void @llvm.dbg.value(metadata i32 %x, metadata !5, metadata !DIExpression()), !dbg !6\n" +
			"\tbr label %done, !dbg !6\ndone:\n\tret void\n}\n" +
			// a second function with the same local names and the same textual
			// metadata operands: each resolves inside its own function
			"define void @second(i32 %x) {\n" + l + ":\n" +
			"\t%y = add i32 %x, 1\n" +
			"\tcall void @llvm.dbg.value(metadata i32 %x, metadata !5, metadata !DIExpression()), !dbg !6\n" +
			"\tcall void @llvm.dbg.value(metadata i32 %y, metadata !5, metadata !DIExpression()), !dbg !6\n" +
			"\tret void\n}\n" +
			"declare void @llvm.dbg.value(metadata, metadata, metadata)\n" +
			"@gv = global i32 0, !dbg !9\n" +
			"!llvm.dbg.cu = !{!0}\n!nm = !{!1, !2}\n" +
			"!0 = distinct !DICompileUnit(language: DW_LANG_C99, file: !1, producer: \"p\", emissionKind: FullDebug, globals: !11)\n" +
			"!1 = !DIFile(filename: \"a.c\", directory: \"/\")\n" +
			"!2 = !{!3}\n!3 = distinct !{!2, i8* blockaddress(@" + a + ", %" + l + "), i32* @gv}\n" +
			"!4 = distinct !DISubprogram(name: \"f\", scope: !1, file: !1, line: 1, type: !7, unit: !0, retainedNodes: !2)\n" +
			"!5 = !DILocalVariable(name: \"x\", arg: 1, scope: !4, file: !1, line: 1, type: !8)\n" +
			"!6 = !DILocation(line: 1, column: 1, scope: !4)\n" +
			"!7 = !DISubroutineType(types: !2)\n" +
			"!8 = !DIBasicType(name: \"int\", size: 32, encoding: DW_ATE_signed)\n" +
			"!9 = !DIGlobalVariableExpression(var: !10, expr: !DIExpression())\n" +
			"!10 = distinct !DIGlobalVariable(name: \"gv\", scope: !0, file: !1, line: 1, type: !8, isLocal: false, isDefinition: true)\n" +
			"!11 = !{!9}\n"
	case 1:
		src = "declare i32 @pers(...)\ndeclare void @g()\n" +
			"@tbl = global [2 x i8*] [i8* blockaddress(@" + a + ", %" + l + "), i8* blockaddress(@" + a + ", %lp)]\n" +
			"define i32 @" + a + "(i32 %x, i8* %tt) personality i8* bitcast (i32 (...)* @pers to i8*) {\nentry:\n" +
			"\tswitch i32 %x, label %" + l + " [ i32 1, label %inv\n i32 2, label %ib ]\n" +
			l + ":\n\t%ph = phi i8* [ blockaddress(@" + a + ", %" + l + "), %entry ], [ %sel, %ib2 ]\n\tret i32 0\n" +
			"inv:\n\tinvoke void @g() to label %" + l + "2 unwind label %lp\n" +
			l + "2:\n\tret i32 1\n" +
			"lp:\n\t%e = landingpad { i8*, i32 } cleanup\n\tresume { i8*, i32 } %e\n" +
			"ib:\n\t%sel = select i1 true, i8* blockaddress(@" + a + ", %" + l + "), i8* %tt\n\tbr label %ib2\n" +
			"ib2:\n\tindirectbr i8* %sel, [ label %" + l + ", label %" + l + "2 ]\n}\n"
	case 2:
		src = "$" + a + " = comdat any\n%T = type { i32, %T*, void ()* }\n" +
			"@" + a + " = global %T { i32 1, %T* @" + a + ", void ()* @" + l + " }, comdat\n" +
			"@arr = global [2 x { i8*, i64 }] [{ i8*, i64 } { i8* bitcast (%T* @" + a + " to i8*), i64 ptrtoint (i32* getelementptr inbounds (%T, %T* @" + a + ", i32 0, i32 0) to i64) }, { i8*, i64 } zeroinitializer]\n" +
			"@al = alias %T, %T* @" + a + "\n@al2 = alias i32, getelementptr inbounds (%T, %T* @al, i32 0, i32 0)\n" +
			"declare void ()* @res()\n@ifn = ifunc void (), void ()* ()* @res\n" +
			"define void @" + l + "() #0 comdat($" + a + ") prefix i32 7 prologue i8 1 {\n\tcall void @ifn()\n\tret void\n}\n" +
			"declare void @decl() #0\nattributes #0 = { nounwind }\n" +
			"uselistorder %T* @" + a + ", { 1, 0, 2, 3, 4 }\n"
	default:
		src = "%" + a + " = type { i32, %" + l + "* }\n%" + l + " = type { %" + a + ", [2 x %" + a + "*] }\n" +
			"declare %" + a + "* @mk(%" + l + "* byval(%" + l + "))\n" +
			"define %" + a + " @f(%" + a + "* %p, <2 x %" + l + "*> %v) {\n" +
			"\t%s = alloca %" + l + "\n" +
			"\t%g = getelementptr %" + l + ", %" + l + "* %s, i32 0, i32 1, i32 1\n" +
			"\t%ld = load %" + a + "*, %" + a + "** %g\n" +
			"\t%c = call %" + a + "* @mk(%" + l + "* byval(%" + l + ") %s)\n" +
			"\t%e = extractelement <2 x %" + l + "*> %v, i32 0\n" +
			"\t%bc = bitcast %" + l + "* %e to { %" + a + ", [2 x %" + a + "*] }*\n" +
			"\t%r = load %" + a + ", %" + a + "* %c\n" +
			"\tret %" + a + " %r\n}\n"
	}
	m, err := ParseString("t.ll", src)
	vfReach("C04.closure")
	vfObserveStr("src", src)
	vfAssert("C04.closure.accepted", err == nil)
	if err != nil {
		return
	}
	ok, why := hClosed(m)
	vfObserveStr("why", why)
	vfAssert("C04.closure.every-reference-is-the-listed-definition", ok)
}

// VfC04_ClosureDeep: the four programs that between them use every
// instruction and terminator kind (built through the constructors, see
// zz_vf_c03.go) are printed and parsed; the parsed module's whole object graph
// is closed (every operand of every instruction kind is the listed
// definition).
//
//vf:unwind 2000
//vf:steps 400000000
//vf:shards 6
func VfC04_ClosureDeep() {
	check := func(m *ir.Module, f *ir.Func) {
		src := m.String()
		m2, err := ParseString("t.ll", src)
		vfReach("C04.closure-deep")
		vfObserveStr("src", src)
		vfAssert("C04.closure-deep.accepted", err == nil)
		if err != nil {
			return
		}
		ok, why := hClosed(m2)
		vfObserveStr("why", why)
		vfAssert("C04.closure-deep.every-reference-is-the-listed-definition", ok)
	}
	switch vfChoice("program", 6) {
	case 4:
		// the two all-options texts of the C02 templates
		m, err := ParseString("t.ll", hSoupHeaders(hLetterIn("a", 'i', 'n')))
		vfReach("C04.closure-deep")
		vfAssert("C04.closure-deep.accepted", err == nil)
		if err == nil {
			ok, _ := hClosed(m)
			vfAssert("C04.closure-deep.every-reference-is-the-listed-definition", ok)
		}
	case 5:
		m, err := ParseString("t.ll", hSoupInsts(hLetterIn("a", 'a', 'e')))
		vfReach("C04.closure-deep")
		vfAssert("C04.closure-deep.accepted", err == nil)
		if err == nil {
			ok, _ := hClosed(m)
			vfAssert("C04.closure-deep.every-reference-is-the-listed-definition", ok)
		}
	case 0:
		hC03ProgArith(check)
	case 1:
		hC03ProgMemory(check)
	case 2:
		hC03ProgTerminators(check)
	default:
		hC03ProgFunclets(check)
	}
}

// VfC04_Merged: definitions the language merges.  An attribute group whose ID
// (a symbolic digit) is defined on two lines (LLVM merges the lines), next to
// a group defined once, used by a function header, a call site and a global
// variable, before and after the definitions; a named metadata node defined
// twice.  The module lists one definition per ID; every use is that very
// object; the merged definition holds the attributes of both lines.
//
//vf:unwind 300
func VfC04_Merged() {
	d := vfString("id", 1)
	vfAssume(vfAnd(d[0] >= '0', d[0] <= '8'))
	use := " #" + d
	def1 := "attributes #" + d + " = { nounwind }\n"
	def2 := "attributes #" + d + " = { readnone }\n"
	src := "@g = global i32 0" + use + "\n" +
		"define void @early()" + use + " {\n\tret void\n}\n" +
		def1 +
		"declare void @mid()" + use + " #9\n" +
		"attributes #9 = { cold }\n" +
		def2 +
		"define void @late()" + use + " {\n\tcall void @mid()" + use + "\n\tret void\n}\n" +
		"!nm = !{!0}\n!0 = !{}\n!1 = !{}\n!nm = !{!1}\n"
	m, err := ParseString("t.ll", src)
	vfReach("C04.merged")
	vfObserveStr("src", src)
	vfAssert("C04.merged.accepted", err == nil)
	if err != nil {
		return
	}
	vfAssert("C04.merged.one-definition-per-id", len(m.AttrGroupDefs) == 2)
	if len(m.AttrGroupDefs) != 2 {
		return
	}
	def := m.AttrGroupDefs[0] // IDs ascend: the symbolic one is below 9
	vfAssert("C04.merged.id", vfAnd(def.ID == int64(d[0]-'0'), m.AttrGroupDefs[1].ID == 9))
	vfAssert("C04.merged.holds-both-lines", len(def.FuncAttrs) == 2)
	isDef := func(a ir.FuncAttribute) bool {
		g, ok := a.(*ir.AttrGroupDef)
		if !ok {
			return false
		}
		return g == def
	}
	early, mid, late := m.Funcs[0], m.Funcs[1], m.Funcs[2]
	vfAssert("C04.merged.use-before-is-def", vfAnd(len(early.FuncAttrs) == 1, isDef(early.FuncAttrs[0])))
	vfAssert("C04.merged.use-between-is-def", vfAnd(len(mid.FuncAttrs) == 2, isDef(mid.FuncAttrs[0])))
	vfAssert("C04.merged.use-after-is-def", vfAnd(len(late.FuncAttrs) == 1, isDef(late.FuncAttrs[0])))
	call := late.Blocks[0].Insts[0].(*ir.InstCall)
	vfAssert("C04.merged.call-site-use-is-def", vfAnd(len(call.FuncAttrs) == 1, isDef(call.FuncAttrs[0])))
	vfAssert("C04.merged.global-use-is-def", vfAnd(len(m.Globals[0].FuncAttrs) == 1, isDef(m.Globals[0].FuncAttrs[0])))
	nm := m.NamedMetadataDefs["nm"]
	vfAssert("C04.merged.named-metadata-one-definition", vfAnd(len(m.NamedMetadataDefs) == 1, nm != nil))
	if nm != nil {
		vfAssert("C04.merged.named-metadata-nodes-are-defs", vfAnd(len(nm.Nodes) == 2, vfAnd(nm.Nodes[0] == metadata.Node(m.MetadataDefs[0]), nm.Nodes[1] == metadata.Node(m.MetadataDefs[1]))))
	}
	closed, _ := hClosed(m)
	vfAssert("C04.merged.closed", closed)
}

// VfC04_BlockAddresses: several deferred references of one kind.  A global
// table with one to three blockaddress constants (forked), two more in global
// initialisers, and two function definitions that each use blockaddress
// constants of their own and of the other function's blocks as operands
// (label names symbolic): every blockaddress constant of the module refers to
// the function object and to the very block object that function lists; no
// placeholder block survives (closure walk).
//
//vf:unwind 400
func VfC04_BlockAddresses() {
	a, b := hTwoLetters("a", "b")
	n := vfLen("table", 1, 3)
	elems := [3]string{"i8* blockaddress(@f, %" + a + ")", "i8* blockaddress(@g, %" + b + ")", "i8* blockaddress(@f, %" + b + ")"}
	tbl := ""
	for i := 0; i < n; i++ {
		if i > 0 {
			tbl += ", "
		}
		tbl += elems[i]
	}
	src := "@tbl = global [" + string(rune('0'+n)) + " x i8*] [" + tbl + "]\n" +
		"@one = global i8* blockaddress(@g, %" + a + ")\n" +
		"define void @f(i8** %p) {\n" + a + ":\n\tstore i8* blockaddress(@g, %" + b + "), i8** %p\n\tbr label %" + b + "\n" + b + ":\n\tstore i8* blockaddress(@f, %" + a + "), i8** %p\n\tret void\n}\n" +
		"define void @g(i8** %p) {\n" + a + ":\n\tstore i8* blockaddress(@f, %" + b + "), i8** %p\n\tbr label %" + b + "\n" + b + ":\n\tstore i8* blockaddress(@g, %" + b + "), i8** %p\n\tret void\n}\n" +
		"@two = global i8* blockaddress(@f, %" + a + ")\n"
	m, err := ParseString("t.ll", src)
	vfReach("C04.blockaddresses")
	vfObserveStr("src", src)
	vfAssert("C04.blockaddresses.accepted", err == nil)
	if err != nil {
		return
	}
	f, g := m.Funcs[0], m.Funcs[1]
	isBA := func(c value.Value, fn *ir.Func, blk *ir.Block) bool {
		ba, ok := c.(*constant.BlockAddress)
		if !ok {
			return false
		}
		return vfAnd(ba.Func == constant.Constant(fn), ba.Block == value.Value(blk))
	}
	arr, ok := m.Globals[0].Init.(*constant.Array)
	vfAssert("C04.blockaddresses.table", vfAnd(ok, ok && len(arr.Elems) == n))
	if ok && len(arr.Elems) == n {
		want := [3][2]int{{0, 0}, {1, 1}, {0, 1}}
		fns := [2]*ir.Func{f, g}
		for i := 0; i < n; i++ {
			fn := fns[want[i][0]]
			vfAssert("C04.blockaddresses.table-entry-is-the-block", isBA(arr.Elems[i], fn, fn.Blocks[want[i][1]]))
		}
	}
	vfAssert("C04.blockaddresses.globals", vfAnd(isBA(m.Globals[1].Init, g, g.Blocks[0]), isBA(m.Globals[2].Init, f, f.Blocks[0])))
	st := func(fn *ir.Func, bi int) value.Value { return fn.Blocks[bi].Insts[0].(*ir.InstStore).Src }
	vfAssert("C04.blockaddresses.operands-in-f", vfAnd(isBA(st(f, 0), g, g.Blocks[1]), isBA(st(f, 1), f, f.Blocks[0])))
	vfAssert("C04.blockaddresses.operands-in-g", vfAnd(isBA(st(g, 0), f, f.Blocks[1]), isBA(st(g, 1), g, g.Blocks[1])))
	closed, _ := hClosed(m)
	vfAssert("C04.blockaddresses.closed", closed)
}

// VfC04_LabelLists: several terminators that carry a list of labels in one
// module: an indirectbr in each of two functions, a second indirectbr and a
// catchswitch with two handlers in the first, with the same (symbolic) label
// names in both functions: every element of every list is the block of that
// name in the enclosing function, in the order written; closure walk.
//
//vf:unwind 400
func VfC04_LabelLists() {
	a, b := hTwoLetters("a", "b")
	fn := func(name string) string {
		return "define void @" + name + "(i8* %p) personality i8* null {\nentry:\n\tindirectbr i8* %p, [label %" + a + ", label %" + b + ", label %" + a + "]\n" +
			a + ":\n\tindirectbr i8* %p, [label %" + b + ", label %cs]\n" +
			b + ":\n\tret void\n" +
			"cs:\n\t%s = catchswitch within none [label %h1, label %h2] unwind to caller\n" +
			"h1:\n\t%c1 = catchpad within %s []\n\tcatchret from %c1 to label %" + b + "\n" +
			"h2:\n\t%c2 = catchpad within %s []\n\tcatchret from %c2 to label %" + a + "\n}\n"
	}
	src := fn("f") + fn("g")
	m, err := ParseString("t.ll", src)
	vfReach("C04.label-lists")
	vfObserveStr("src", src)
	vfAssert("C04.label-lists.accepted", err == nil)
	if err != nil {
		return
	}
	for k := 0; k < 2; k++ {
		f := m.Funcs[k]
		vfAssert("C04.label-lists.blocks", len(f.Blocks) == 6)
		if len(f.Blocks) != 6 {
			return
		}
		entry, ba, bb, cs, h1, h2 := f.Blocks[0], f.Blocks[1], f.Blocks[2], f.Blocks[3], f.Blocks[4], f.Blocks[5]
		ib1, ok1 := entry.Term.(*ir.TermIndirectBr)
		ib2, ok2 := ba.Term.(*ir.TermIndirectBr)
		sw, ok3 := cs.Term.(*ir.TermCatchSwitch)
		vfAssert("C04.label-lists.kinds", vfAnd(ok1, vfAnd(ok2, ok3)))
		if !ok1 || !ok2 || !ok3 {
			return
		}
		vfAssert("C04.label-lists.first-indirectbr", vfAnd(len(ib1.ValidTargets) == 3, vfAnd(ib1.ValidTargets[0] == value.Value(ba), vfAnd(ib1.ValidTargets[1] == value.Value(bb), ib1.ValidTargets[2] == value.Value(ba)))))
		vfAssert("C04.label-lists.second-indirectbr", vfAnd(len(ib2.ValidTargets) == 2, vfAnd(ib2.ValidTargets[0] == value.Value(bb), ib2.ValidTargets[1] == value.Value(cs))))
		vfAssert("C04.label-lists.catchswitch-handlers", vfAnd(len(sw.Handlers) == 2, vfAnd(sw.Handlers[0] == value.Value(h1), sw.Handlers[1] == value.Value(h2))))
	}
	closed, _ := hClosed(m)
	vfAssert("C04.label-lists.closed", closed)
}

// VfC04_NonStructAlias: a type definition that names a non-struct type, and a
// second name for it (`%w = type i32`, `%a = type %w`; both accepted by
// llvm-as 14), used as the type of globals, a parameter and a struct field:
// every named type object reachable from the module is one of the objects
// that Module.TypeDefs lists (closure walk).
//
//vf:unwind 300
func VfC04_NonStructAlias() {
	w, a := hTwoLetters("W", "A")
	body := [...]string{"i32", "<2 x i32>", "[2 x i32]"}[vfChoice("body", 3)]
	init := [...]string{"7", "<i32 1, i32 2>", "[i32 1, i32 2]"}[vfChoice("body", 3)]
	src := "%" + w + " = type " + body + "\n%" + a + " = type %" + w + "\n" +
		"%s = type { i8, %" + a + ", %" + w + " }\n" +
		"@g = global %" + a + " " + init + "\n@h = global %" + w + " " + init + "\n@k = global %s zeroinitializer\n" +
		"declare void @f(%" + a + ", %" + w + "*)\n"
	m, err := ParseString("t.ll", src)
	vfReach("C04.non-struct-alias")
	vfObserveStr("src", src)
	vfAssert("C04.non-struct-alias.accepted", err == nil)
	if err != nil {
		return
	}
	closed, _ := hClosed(m)
	vfAssert("C04.non-struct-alias.closed", closed)
}

// VfC04_NumberedLocals: references to unnamed (numbered) blocks and values
// next to named ones.  The entry block and the parameter are named, so the
// first unnamed block is %0; every unnamed block is written with its explicit
// label `N:` or without any label (forked per block), every unnamed value with
// `%N = ` or without.  Each branch target, switch case, phi predecessor, phi
// value and the blockaddress written before the function must be the very
// block / instruction that the function lists at that position.
//
//vf:unwind 400
//vf:shards 4
func VfC04_NumberedLocals() {
	ex := func(k int, explicit string) string {
		if vfChoice("form"+string(rune('0'+k)), 2) == 0 {
			return explicit
		}
		return "\n"
	}
	exv := func(k int, explicit string) string {
		if vfChoice("form"+string(rune('0'+k)), 2) == 0 {
			return explicit
		}
		return ""
	}
	x := hLetterIn("x", 'u', 'z')
	src := "@ba = global i8* blockaddress(@f, %3)\n" +
		"define i32 @f(i32 %" + x + ") {\nentry:\n\tbr label %0\n" +
		ex(0, "0:\n") +
		"\t" + exv(1, "%1 = ") + "add i32 %" + x + ", 1\n" +
		"\tbr i1 true, label %2, label %3\n" +
		ex(2, "2:\n") +
		"\tbr label %3\n" +
		ex(3, "3:\n") +
		"\t%4 = phi i32 [ %1, %0 ], [ %" + x + ", %2 ]\n" +
		"\tswitch i32 %4, label %0 [ i32 1, label %2 i32 2, label %3 ]\n}\n"
	m, err := ParseString("t.ll", src)
	vfReach("C04.numbered-locals")
	vfObserveStr("src", src)
	vfAssert("C04.numbered.accepted", err == nil)
	if err != nil {
		return
	}
	f := m.Funcs[0]
	vfAssert("C04.numbered.four-blocks", len(f.Blocks) == 4)
	if len(f.Blocks) != 4 {
		return
	}
	entry, b0, b2, b3 := f.Blocks[0], f.Blocks[1], f.Blocks[2], f.Blocks[3]
	add := b0.Insts[0].(*ir.InstAdd)
	phi := b3.Insts[0].(*ir.InstPhi)
	vfAssert("C04.numbered.entry-target", entry.Term.(*ir.TermBr).Target == value.Value(b0))
	cbr := b0.Term.(*ir.TermCondBr)
	vfAssert("C04.numbered.condbr-targets", vfAnd(cbr.TargetTrue == value.Value(b2), cbr.TargetFalse == value.Value(b3)))
	vfAssert("C04.numbered.br-target", b2.Term.(*ir.TermBr).Target == value.Value(b3))
	vfAssert("C04.numbered.phi-preds", vfAnd(phi.Incs[0].Pred == value.Value(b0), phi.Incs[1].Pred == value.Value(b2)))
	vfAssert("C04.numbered.phi-values", vfAnd(phi.Incs[0].X == value.Value(add), phi.Incs[1].X == value.Value(f.Params[0])))
	sw := b3.Term.(*ir.TermSwitch)
	vfAssert("C04.numbered.switch-targets", vfAnd(sw.X == value.Value(phi), vfAnd(sw.TargetDefault == value.Value(b0), vfAnd(sw.Cases[0].Target == value.Value(b2), sw.Cases[1].Target == value.Value(b3)))))
	ba := m.Globals[0].Init.(*constant.BlockAddress)
	vfAssert("C04.numbered.blockaddress-block-is-def", ba.Block == value.Named(b3))
	// the successor views agree with the blocks of the function
	vfAssert("C04.numbered.succs", vfAnd(b0.Term.Succs()[0] == b2, vfAnd(b0.Term.Succs()[1] == b3, b3.Term.Succs()[0] == b0)))
	closed, _ := hClosed(m)
	vfAssert("C04.numbered.closed", closed)
	out := m.String()
	vfObserveStr("out", out)
}
