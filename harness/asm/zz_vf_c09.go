//go:build verif

package asm

import (
	"math/big"

	"github.com/llir/llvm/ir/constant"
)

// C09 (parser side, L3): an integer literal written in a module denotes its
// mathematical value after the whole parse pipeline, in every accepted
// notation: decimal (leading zeros included), negative decimal, u0x, s0x,
// true/false; and the printed module denotes the same value again.

//vf:unwind 400
//vf:shards 12
func VfC09_ParseLiteral() {
	// quick: i8 and i64; thorough: i16 as well (four-digit s0x literals)
	widths := [...]uint64{8, 64, 16}
	nw := 2
	if vfTier() > 0 {
		nw = 3
	}
	fw := vfChoice("form.width", 4*nw) // one sharded choice: notation x width
	form := fw % 4
	w := widths[fw/4]
	tyText := "i64"
	switch w {
	case 8:
		tyText = "i8"
	case 16:
		tyText = "i16"
	}
	want := new(big.Int)
	var lit string
	reprint := true
	switch form {
	case 0, 1: // decimal, possibly with leading zeros; 1: negative
		// three digits (so that a leading zero can precede two significant
		// digits, e.g. 010) at i64; two at i8 in the quick tier
		maxDigits := 2
		if vfTier() > 0 || w == 64 {
			maxDigits = 3
		}
		n := vfLen("n", 1, maxDigits)
		// the print / re-parse leg is kept to the shorter literals in the quick
		// tier (the decimal digits of the printed value are a division chain)
		reprint = n <= 2 || vfTier() > 0
		d := vfString("d", n)
		ten := big.NewInt(10)
		for i := 0; i < n; i++ {
			vfAssume(vfAnd(d[i] >= '0', d[i] <= '9'))
			want.Mul(want, ten)
			want.Add(want, big.NewInt(int64(d[i]-'0')))
		}
		lit = d
		if form == 1 {
			lit = "-" + d
			want.Neg(want)
		}
		if w == 8 {
			// stay within the type
			vfAssume(want.Cmp(big.NewInt(256)) < 0)
			vfAssume(want.Cmp(big.NewInt(-128)) >= 0)
		}
	default: // u0x / s0x with exactly ceil(w/4) digits (s0x) or 1..2 digits (u0x)
		n := 2
		if form == 3 {
			n = int((w + 3) / 4)
			if n > 9 {
				vfCut("s0x literals longer than 9 digits are covered at the constant level")
			}
		}
		d := vfString("h", n)
		sixteen := big.NewInt(16)
		for i := 0; i < n; i++ {
			b := d[i]
			v := uint64(0)
			okd := vfAnd(b >= '0', b <= '9')
			okA := vfAnd(b >= 'A', b <= 'F')
			if okd {
				v = uint64(b - '0')
			}
			if okA {
				v = uint64(b-'A') + 10
			}
			vfAssume(vfOr(okd, okA))
			switch vfChoice("hcls"+string(rune('0'+i)), 2) { // lexical class per digit
			case 0:
				vfAssume(okd)
			default:
				vfAssume(okA)
			}
			want.Mul(want, sixteen)
			want.Add(want, new(big.Int).SetUint64(v))
		}
		if form == 2 {
			lit = "u0x" + d
		} else {
			lit = "s0x" + d
			lim := new(big.Int).Lsh(big.NewInt(1), uint(w))
			vfAssume(want.Cmp(lim) < 0)
			if want.Bit(int(w)-1) == 1 {
				want.Sub(want, lim)
			}
		}
	}
	src := "@g = global " + tyText + " " + lit + "\n"
	m, err := ParseString("t.ll", src)
	vfReach("C09.parse.literal")
	vfObserveStr("src", src)
	vfAssert("C09.parse.accepted", err == nil)
	if err != nil {
		return
	}
	c, isInt := m.Globals[0].Init.(*constant.Int)
	vfAssert("C09.parse.is-int", isInt)
	if !isInt {
		return
	}
	vfAssert("C09.parse.value", c.X.Cmp(want) == 0)
	if !reprint {
		return
	}
	y := m.String()
	m2, err2 := ParseString("t.ll", y)
	vfAssert("C09.parse.print-accepted", err2 == nil)
	if err2 != nil {
		return
	}
	c2, isInt2 := m2.Globals[0].Init.(*constant.Int)
	vfAssert("C09.parse.print-is-int", isInt2)
	if isInt2 {
		vfAssert("C09.parse.print-keeps-value", c2.X.Cmp(want) == 0)
	}
}
