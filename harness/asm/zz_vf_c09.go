//go:build verif

package asm

import (
	"math/big"

	"github.com/llir/llvm/ir"
	"github.com/llir/llvm/ir/constant"
)

// C09 (parser side, L3): an integer literal written in a module denotes its
// mathematical value after the whole parse pipeline, in every accepted
// notation: decimal (leading zeros included), negative decimal, u0x, s0x,
// true/false; and the printed module denotes the same value again.

//vf:unwind 400
//vf:shards 12
func VfC09_ParseLiteral() {
	// quick: i8 and i64; thorough: i16 as well (four-digit s0x literals)
	widths := [...]uint64{8, 64, 16}
	nw := 2
	if vfTier() > 0 {
		nw = 3
	}
	fw := vfChoice("form.width", 4*nw) // one sharded choice: notation x width
	form := fw % 4
	w := widths[fw/4]
	tyText := "i64"
	switch w {
	case 8:
		tyText = "i8"
	case 16:
		tyText = "i16"
	}
	want := new(big.Int)
	var lit string
	reprint := true
	switch form {
	case 0, 1: // decimal, possibly with leading zeros; 1: negative
		// three digits (so that a leading zero can precede two significant
		// digits, e.g. 010) at i64; two at i8 in the quick tier
		maxDigits := 2
		if vfTier() > 0 || w == 64 {
			maxDigits = 3
		}
		n := vfLen("n", 1, maxDigits)
		// the print / re-parse leg is kept to the shorter literals in the quick
		// tier (the decimal digits of the printed value are a division chain)
		reprint = n <= 2 || vfTier() > 0
		d := vfString("d", n)
		ten := big.NewInt(10)
		for i := 0; i < n; i++ {
			vfAssume(vfAnd(d[i] >= '0', d[i] <= '9'))
			want.Mul(want, ten)
			want.Add(want, big.NewInt(int64(d[i]-'0')))
		}
		lit = d
		if form == 1 {
			lit = "-" + d
			want.Neg(want)
		}
		if w == 8 {
			// stay within the type
			vfAssume(want.Cmp(big.NewInt(256)) < 0)
			vfAssume(want.Cmp(big.NewInt(-128)) >= 0)
		}
	default: // u0x / s0x with exactly ceil(w/4) digits (s0x) or 1..2 digits (u0x)
		n := 2
		if form == 3 {
			n = int((w + 3) / 4)
			if n > 9 {
				vfCut("s0x literals longer than 9 digits are covered at the constant level")
			}
		}
		d := vfString("h", n)
		sixteen := big.NewInt(16)
		for i := 0; i < n; i++ {
			b := d[i]
			v := uint64(0)
			okd := vfAnd(b >= '0', b <= '9')
			okA := vfAnd(b >= 'A', b <= 'F')
			if okd {
				v = uint64(b - '0')
			}
			if okA {
				v = uint64(b-'A') + 10
			}
			vfAssume(vfOr(okd, okA))
			switch vfChoice("hcls"+string(rune('0'+i)), 2) { // lexical class per digit
			case 0:
				vfAssume(okd)
			default:
				vfAssume(okA)
			}
			want.Mul(want, sixteen)
			want.Add(want, new(big.Int).SetUint64(v))
		}
		if form == 2 {
			lit = "u0x" + d
		} else {
			lit = "s0x" + d
			lim := new(big.Int).Lsh(big.NewInt(1), uint(w))
			vfAssume(want.Cmp(lim) < 0)
			if want.Bit(int(w)-1) == 1 {
				want.Sub(want, lim)
			}
		}
	}
	src := "@g = global " + tyText + " " + lit + "\n"
	m, err := ParseString("t.ll", src)
	vfReach("C09.parse.literal")
	vfObserveStr("src", src)
	vfAssert("C09.parse.accepted", err == nil)
	if err != nil {
		return
	}
	c, isInt := m.Globals[0].Init.(*constant.Int)
	vfAssert("C09.parse.is-int", isInt)
	if !isInt {
		return
	}
	vfAssert("C09.parse.value", c.X.Cmp(want) == 0)
	if !reprint {
		return
	}
	y := m.String()
	m2, err2 := ParseString("t.ll", y)
	vfAssert("C09.parse.print-accepted", err2 == nil)
	if err2 != nil {
		return
	}
	c2, isInt2 := m2.Globals[0].Init.(*constant.Int)
	vfAssert("C09.parse.print-is-int", isInt2)
	if isInt2 {
		vfAssert("C09.parse.print-keeps-value", c2.X.Cmp(want) == 0)
	}
}

// VfC09_SameSpelling: one literal spelling (symbolic digits; decimal, negative
// decimal, u0x or s0x with two digits) used at several types and several times
// in one module - two globals of type i8, one of i16, one of i64 and an i16
// instruction operand, in both textual orders of the i8 and i16 uses: each
// occurrence denotes the value the notation gives at its own type (s0x is
// two's complement at the width of the type it is written at), whatever the
// same spelling denoted elsewhere in the module.
//
//vf:unwind 400
//vf:shards 4
func VfC09_SameSpelling() {
	form := vfChoice("form", 4)
	d := vfString("d", 2)
	var v int64 // value of the two digits
	hexv := func(b byte, cls string) int64 {
		okd := vfAnd(b >= '0', b <= '9')
		okA := vfAnd(b >= 'A', b <= 'F')
		if vfChoice(cls, 2) == 0 {
			vfAssume(okd)
			return int64(b - '0')
		}
		vfAssume(okA)
		return int64(b-'A') + 10
	}
	lit := ""
	w8, w16, w64 := int64(0), int64(0), int64(0)
	switch form {
	case 0, 1:
		vfAssume(vfAnd(vfAnd(d[0] >= '0', d[0] <= '9'), vfAnd(d[1] >= '0', d[1] <= '9')))
		v = int64(d[0]-'0')*10 + int64(d[1]-'0')
		lit = d
		if form == 1 {
			lit = "-" + d
			v = -v
		}
		w8, w16, w64 = v, v, v
	case 2:
		v = hexv(d[0], "c0")*16 + hexv(d[1], "c1")
		lit = "u0x" + d
		w8, w16, w64 = v, v, v
	default:
		v = hexv(d[0], "c0")*16 + hexv(d[1], "c1")
		lit = "s0x" + d
		w8, w16, w64 = v, v, v
		if v >= 128 {
			w8 = v - 256
		}
	}
	first, second := "@a = global i8 "+lit+"\n", "@b = global i16 "+lit+"\n"
	ia, ib := 0, 1
	if vfChoice("order", 2) == 1 {
		first, second = second, first
		ia, ib = 1, 0
	}
	src := first + second + "@c = global i8 " + lit + "\n@d = global i64 " + lit + "\n" +
		"define i16 @f(i16 %x) {\n\t%r = add i16 %x, " + lit + "\n\tret i16 %r\n}\n"
	m, err := ParseString("t.ll", src)
	vfReach("C09.same-spelling")
	vfObserveStr("src", src)
	vfAssert("C09.same-spelling.accepted", err == nil)
	if err != nil {
		return
	}
	val := func(c constant.Constant) *big.Int {
		if k, ok := c.(*constant.Int); ok {
			return k.X
		}
		return big.NewInt(123456789) // not an integer constant: fails the comparison
	}
	vfAssert("C09.same-spelling.i8", vfAnd(val(m.Globals[ia].Init).Cmp(big.NewInt(w8)) == 0, val(m.Globals[2].Init).Cmp(big.NewInt(w8)) == 0))
	vfAssert("C09.same-spelling.i16", val(m.Globals[ib].Init).Cmp(big.NewInt(w16)) == 0)
	vfAssert("C09.same-spelling.i64", val(m.Globals[3].Init).Cmp(big.NewInt(w64)) == 0)
	add, ok := m.Funcs[0].Blocks[0].Insts[0].(*ir.InstAdd)
	vfAssert("C09.same-spelling.operand-is-add", ok)
	if ok {
		k, ok2 := add.Y.(*constant.Int)
		vfAssert("C09.same-spelling.operand", vfAnd(ok2, val(k).Cmp(big.NewInt(w16)) == 0))
	}
}
