//go:build verif

package asm

import (
	"github.com/llir/llvm/ir"
	"github.com/llir/llvm/ir/value"
)

// C15 (parser side, L3): the operand and successor views of a *parsed*
// function are as complete and live as those of constructed IR: every slot
// pointer is handed out once, writing through one slot changes exactly that
// operand, and the successor view follows a retargeted block slot.  The text
// lists the same predecessor / target more than once where LLVM allows it
// (phi after a switch with two cases into one block, condbr with equal
// targets, switch cases sharing a target).

func hC15Slots(x interface{ Operands() []*value.Value }) bool {
	ops := x.Operands()
	ok := true
	// no slot is handed out twice
	for i := range ops {
		for j := range ops {
			if i < j {
				ok = vfAnd(ok, ops[i] != ops[j])
			}
		}
	}
	// writing through slot i changes slot i and nothing else
	fresh := value.Value(ir.NewParam("fresh", nil))
	for i := range ops {
		old := make([]value.Value, len(ops))
		for j := range ops {
			old[j] = *ops[j]
		}
		*ops[i] = fresh
		again := x.Operands()
		ok = vfAnd(ok, len(again) == len(ops))
		if len(again) == len(ops) {
			for j := range again {
				if j == i {
					ok = vfAnd(ok, *again[j] == fresh)
				} else {
					ok = vfAnd(ok, *again[j] == old[j])
				}
			}
		}
		*ops[i] = old[i]
	}
	return ok
}

//vf:unwind 2000
//vf:steps 400000000
func VfC15_Parsed() {
	a := hLetterIn("a", 'a', 'e')
	src := "declare i32 @pers(...)\ndeclare i32 @g(i32, i32)\n" +
		"define i32 @" + a + "(i32 %x, i1 %c, i32* %p, { i32, i8 } %agg, [4 x i32]* %arr, i32 %victim) personality i8* bitcast (i32 (...)* @pers to i8*) {\nentry:\n" +
		"\tswitch i32 %x, label %m [ i32 1, label %m\n i32 2, label %m\n i32 3, label %n ]\n" +
		"m:\n\t%ph = phi i32 [ %x, %entry ], [ %x, %entry ], [ %x, %entry ]\n" +
		"\t%s = select i1 %c, i32 %ph, i32 %x\n" +
		"\tstore i32 %s, i32* %p\n" +
		"\t%q = getelementptr [4 x i32], [4 x i32]* %arr, i32 %s, i32 %s\n" +
		"\t%iv = insertvalue { i32, i8 } %agg, i32 %s, 0\n" +
		"\t%cl = call i32 @g(i32 %s, i32 %s) [ \"deopt\"(i32 %s, i32 %x), \"tag\"(i32 %x) ]\n" +
		"\t%cl2 = call i32 @g(i32 signext %victim, i32 %victim) [ \"deopt\"(i32 %victim) ]\n" + // an argument with a parameter attribute
		"\tbr i1 %c, label %n, label %n\n" +
		"n:\n\t%ph2 = phi i32 [ 0, %entry ], [ %cl, %m ], [ %cl, %m ]\n" +
		"\t%inv = invoke i32 @g(i32 %ph2, i32 %ph2) to label %ok unwind label %lp\n" +
		"ok:\n\tret i32 %inv\n" +
		"lp:\n\t%e = landingpad { i8*, i32 } catch i8* null catch i8* null\n\tresume { i8*, i32 } %e\n}\n"
	m, err := ParseString("t.ll", src)
	vfReach("C15.parsed")
	vfObserveStr("src", src)
	vfAssert("C15.parsed.accepted", err == nil)
	if err != nil {
		return
	}
	f := m.Funcs[2]
	// substituting a value through the slots of all its users leaves no use
	// behind: replace the parameter %victim everywhere, then no instruction
	// prints it any more
	victim := value.Value(f.Params[5])
	repl := value.Value(ir.NewParam("replacement", f.Params[5].Typ))
	for _, b := range f.Blocks {
		for _, inst := range b.Insts {
			for _, op := range inst.Operands() {
				if *op == victim {
					*op = repl
				}
			}
		}
	}
	for _, b := range f.Blocks {
		for _, inst := range b.Insts {
			vfAssert("C15.parsed.substitution-leaves-no-use", !hContains(inst.LLString(), "%victim"))
		}
	}
	for _, b := range f.Blocks {
		for _, inst := range b.Insts {
			vfAssert("C15.parsed.instruction-slots", hC15Slots(inst))
		}
		vfAssert("C15.parsed.terminator-slots", hC15Slots(b.Term))
		// retarget every block slot to a fresh block: the successor view follows
		fresh := ir.NewBlock("fresh")
		n := 0
		for _, op := range b.Term.Operands() {
			if _, isBlock := (*op).(*ir.Block); isBlock {
				*op = fresh
				n++
			}
		}
		succs := b.Term.Succs()
		vfAssert("C15.parsed.succs-count", len(succs) == n)
		for _, s := range succs {
			vfAssert("C15.parsed.succs-follow", s == fresh)
		}
	}
}
