//go:build verif

package asm

import (
	"github.com/llir/llvm/ir"
	"github.com/llir/llvm/ir/types"
)

// C06 (parser side, L3): the type the parser attaches to an instruction while
// reading text equals the type the IR library computes by itself from the same
// operands, and both equal LLVM's result type.  Vector lengths and the
// bit width are symbolic digits, `vscale x` is present or absent (forked).

func hC06Same(t, u types.Type) bool {
	switch t := t.(type) {
	case *types.VoidType:
		_, ok := u.(*types.VoidType)
		return ok
	case *types.IntType:
		if u, ok := u.(*types.IntType); ok {
			return t.BitSize == u.BitSize
		}
	case *types.FloatType:
		if u, ok := u.(*types.FloatType); ok {
			return t.Kind == u.Kind
		}
	case *types.PointerType:
		if u, ok := u.(*types.PointerType); ok {
			return vfAnd(t.AddrSpace == u.AddrSpace, hC06Same(t.ElemType, u.ElemType))
		}
	case *types.VectorType:
		if u, ok := u.(*types.VectorType); ok {
			return vfAnd(vfAnd(t.Len == u.Len, t.Scalable == u.Scalable), hC06Same(t.ElemType, u.ElemType))
		}
	case *types.ArrayType:
		if u, ok := u.(*types.ArrayType); ok {
			return vfAnd(t.Len == u.Len, hC06Same(t.ElemType, u.ElemType))
		}
	case *types.FuncType:
		if u, ok := u.(*types.FuncType); ok {
			if len(t.Params) != len(u.Params) {
				return false
			}
			r := vfAnd(t.Variadic == u.Variadic, hC06Same(t.RetType, u.RetType))
			for i := range t.Params {
				r = vfAnd(r, hC06Same(t.Params[i], u.Params[i]))
			}
			return r
		}
	case *types.StructType:
		if u, ok := u.(*types.StructType); ok {
			if len(t.Fields) != len(u.Fields) {
				return false
			}
			r := t.Packed == u.Packed
			for i := range t.Fields {
				r = vfAnd(r, hC06Same(t.Fields[i], u.Fields[i]))
			}
			return r
		}
	}
	return false
}

var hC06Attached = [...]string{"C06.parse.icmp.attached", "C06.parse.fcmp.attached", "C06.parse.shufflevector.attached", "C06.parse.select.attached", "C06.parse.extractelement.attached", "C06.parse.insertelement.attached", "C06.parse.add.attached", "C06.parse.cmpxchg.attached", "C06.parse.extractvalue.attached", "C06.parse.call.attached", "C06.parse.load.attached", "C06.parse.zext.attached"}
var hC06Recomputed = [...]string{"C06.parse.icmp.recomputed", "C06.parse.fcmp.recomputed", "C06.parse.shufflevector.recomputed", "C06.parse.select.recomputed", "C06.parse.extractelement.recomputed", "C06.parse.insertelement.recomputed", "C06.parse.add.recomputed", "C06.parse.cmpxchg.recomputed", "C06.parse.extractvalue.recomputed", "C06.parse.call.recomputed", "C06.parse.load.recomputed", "C06.parse.zext.recomputed"}

//vf:unwind 300
//vf:steps 60000000
func VfC06_Parse() {
	nd := vfString("n", 1) // vector length digit
	md := vfString("m", 1) // mask length digit
	wd := vfString("w", 1) // bit width digit
	vfAssume(vfAnd(nd[0] >= '1', nd[0] <= '9'))
	vfAssume(vfAnd(md[0] >= '1', md[0] <= '9'))
	vfAssume(vfAnd(wd[0] >= '2', wd[0] <= '9'))
	scal := vfChoice("vscale", 2) == 1
	vs := ""
	if scal {
		vs = "vscale x "
	}
	iw := "i" + wd
	vi := "<" + vs + nd + " x " + iw + ">"
	vf := "<" + vs + nd + " x float>"
	vm := "<" + vs + md + " x i32>"
	vc := "<" + vs + nd + " x i1>"
	// the same types written through type aliases (`%VI = type <4 x i32>`, which
	// LLVM resolves to the aliased type)
	pre := ""
	if vfChoice("alias", 2) == 1 {
		pre = "%VI = type " + vi + "\n%VF = type " + vf + "\n"
		vi, vf = "%VI", "%VF"
	}
	src := pre + "declare " + iw + " @g(" + iw + ")\n" +
		"define void @f(" + vi + " %a, " + vi + " %b, " + vf + " %x, " + vf + " %y, " + vc + " %c, " + iw + "* %p, { " + iw + ", [3 x float] } %agg) {\n" +
		"\t%i0 = icmp eq " + vi + " %a, %b\n" +
		"\t%i1 = fcmp oeq " + vf + " %x, %y\n" +
		"\t%i2 = shufflevector " + vi + " %a, " + vi + " %b, " + vm + " zeroinitializer\n" +
		"\t%i3 = select " + vc + " %c, " + vi + " %a, " + vi + " %b\n" +
		"\t%i4 = extractelement " + vi + " %a, i32 0\n" +
		"\t%i5 = insertelement " + vi + " %a, " + iw + " 1, i32 0\n" +
		"\t%i6 = add " + vi + " %a, %b\n" +
		"\t%i7 = cmpxchg " + iw + "* %p, " + iw + " 0, " + iw + " 1 seq_cst seq_cst\n" +
		"\t%i8 = extractvalue { " + iw + ", [3 x float] } %agg, 1, 2\n" +
		"\t%i9 = call " + iw + " @g(" + iw + " 1)\n" +
		"\t%i10 = load " + iw + ", " + iw + "* %p\n" +
		"\t%i11 = zext " + vi + " %a to <" + vs + nd + " x i64>\n" +
		"\tret void\n}\n"
	m, err := ParseString("t.ll", src)
	vfReach("C06.parse")
	vfObserveStr("src", src)
	vfAssert("C06.parse.accepted", err == nil)
	if err != nil {
		return
	}
	n, mm, w := uint64(nd[0]-'0'), uint64(md[0]-'0'), uint64(wd[0]-'0')
	it := types.NewInt(w)
	vec := func(len uint64, el types.Type) types.Type {
		return &types.VectorType{Len: len, ElemType: el, Scalable: scal}
	}
	want := []types.Type{
		vec(n, types.I1), vec(n, types.I1), vec(mm, it), vec(n, it), it, vec(n, it), vec(n, it),
		types.NewStruct(it, types.I1), types.Float, it, it, vec(n, types.I64),
	}
	insts := m.Funcs[1].Blocks[0].Insts
	vfAssert("C06.parse.count", len(insts) == len(want))
	if len(insts) != len(want) {
		return
	}
	for k := range want {
		attached := insts[k].(interface{ Type() types.Type }).Type()
		vfAssert(hC06Attached[k], hC06Same(attached, want[k]))
		// a result type that is derived from the operand types (not the operand
		// type itself: select, insertelement and add return it) is a literal
		// type: it carries no type name, whatever names the operand types have
		if k != 3 && k != 5 && k != 6 {
			vfAssert("C06.parse.derived-type-is-unnamed", attached.Name() == "")
		}
	}
	// clear the cached types and let the IR library recompute them
	insts[0].(*ir.InstICmp).Typ = nil
	insts[1].(*ir.InstFCmp).Typ = nil
	insts[2].(*ir.InstShuffleVector).Typ = nil
	insts[3].(*ir.InstSelect).Typ = nil
	insts[4].(*ir.InstExtractElement).Typ = nil
	insts[5].(*ir.InstInsertElement).Typ = nil
	insts[6].(*ir.InstAdd).Typ = nil
	insts[7].(*ir.InstCmpXchg).Typ = nil
	insts[8].(*ir.InstExtractValue).Typ = nil
	insts[9].(*ir.InstCall).Typ = nil
	for k := 0; k < 10; k++ {
		re := insts[k].(interface{ Type() types.Type }).Type()
		vfAssert(hC06Recomputed[k], hC06Same(re, want[k]))
	}
}

// VfC06_ParseMore: further value-producing instruction kinds, among them the
// ones whose result type depends on a trailing or leading clause of the text
// (alloca address space, call with a spelled-out signature, variadic callee).
//
//vf:unwind 300
//vf:steps 60000000
func VfC06_ParseMore() {
	nd := vfString("n", 1)  // vector length digit
	wd := vfString("w", 1)  // bit width digit
	ad := vfString("as", 1) // address space digit
	vfAssume(vfAnd(nd[0] >= '1', nd[0] <= '9'))
	vfAssume(vfAnd(wd[0] >= '2', wd[0] <= '9'))
	vfAssume(vfAnd(ad[0] >= '1', ad[0] <= '9'))
	scal := vfChoice("vscale", 2) == 1
	vs := ""
	if scal {
		vs = "vscale x "
	}
	iw := "i" + wd
	vi := "<" + vs + nd + " x " + iw + ">"
	vf := "<" + vs + nd + " x float>"
	agg := "{ " + iw + ", [3 x float] }"
	pre := ""
	if vfChoice("alias", 2) == 1 {
		pre = "%VI = type " + vi + "\n%VF = type " + vf + "\n%SIG = type " + iw + " (" + iw + ")\n"
		vi, vf = "%VI", "%VF"
	}
	sig := iw + " (" + iw + ")"
	if pre != "" {
		sig = "%SIG"
	}
	src := pre + "declare " + iw + " @g(" + iw + ")\n" +
		"declare i32 @pf(i8*, ...)\n" +
		"declare " + iw + " (" + iw + ")* @getfp()\n" +
		"define void @f(" + vi + " %a, " + vf + " %x, " + iw + "* %p, " + agg + " %agg, i8* %va) {\n" +
		"\t%i0 = alloca " + iw + ", addrspace(" + ad + ")\n" +
		"\t%i1 = alloca " + vi + ", i32 2, align 8, addrspace(" + ad + ")\n" +
		"\t%i2 = call " + sig + " @g(" + iw + " 1)\n" +
		"\t%i3 = call i32 (i8*, ...) @pf(i8* null, " + iw + " 1)\n" +
		"\t%i4 = atomicrmw add " + iw + "* %p, " + iw + " 1 seq_cst\n" +
		"\t%i5 = va_arg i8* %va, " + vi + "\n" +
		"\t%i6 = freeze " + vi + " %a\n" +
		"\t%i7 = fneg " + vf + " %x\n" +
		"\t%i8 = ptrtoint " + iw + "* %p to i64\n" +
		"\t%i9 = insertvalue " + agg + " %agg, " + iw + " 1, 0\n" +
		"\t%i10 = fptoui " + vf + " %x to " + vi + "\n" +
		"\t%i11 = addrspacecast " + iw + "* %p to " + iw + " addrspace(" + ad + ")*\n" +
		"\t%i12 = inttoptr i64 0 to " + vi + "*\n" +
		"\t%i13 = load " + iw + ", " + iw + " addrspace(" + ad + ")* %i0\n" +
		"\t%i14 = getelementptr " + vi + ", " + vi + " addrspace(" + ad + ")* %i1, i32 1\n" +
		"\t%i15 = sitofp " + vi + " %a to " + vf + "\n" +
		"\t%i16 = lshr " + vi + " %a, %a\n" +
		"\t%i17 = frem " + vf + " %x, %x\n" +
		"\t%i18 = call " + iw + " (" + iw + ")* @getfp()\n" + // the callee returns a function pointer: the type in front is the return type
		"\t%i19 = call " + iw + " %i18(" + iw + " 1)\n" + // call through that pointer
		"\t%i20 = extractvalue { " + iw + ", { i8, float, [2 x " + iw + "] } } undef, 1, 0\n" + // index paths whose indices differ from level to level
		"\t%i21 = extractvalue { " + iw + ", { i8, float, [2 x " + iw + "] } } undef, 1, 2, 1\n" +
		"\t%i22 = extractvalue { float, { i8, " + iw + " } } undef, 1, 1\n" +
		"\tret void\n}\n"
	m, err := ParseString("t.ll", src)
	vfReach("C06.parsemore")
	vfObserveStr("src", src)
	vfAssert("C06.parsemore.accepted", err == nil)
	if err != nil {
		return
	}
	n, w, as := uint64(nd[0]-'0'), uint64(wd[0]-'0'), types.AddrSpace(ad[0]-'0')
	it := types.NewInt(w)
	vec := func(el types.Type) types.Type {
		return &types.VectorType{Len: n, ElemType: el, Scalable: scal}
	}
	ptr := func(el types.Type, as types.AddrSpace) types.Type {
		return &types.PointerType{ElemType: el, AddrSpace: as}
	}
	want := []types.Type{
		ptr(it, as), ptr(vec(it), as), it, types.I32, it, vec(it), vec(it), vec(types.Float), types.I64,
		types.NewStruct(it, types.NewArray(3, types.Float)), vec(it), ptr(it, as), ptr(vec(it), 0), it, ptr(vec(it), as),
		vec(types.Float), vec(it), vec(types.Float),
		ptr(types.NewFunc(it, it), 0), it,
		types.I8, it, it,
	}
	insts := m.Funcs[3].Blocks[0].Insts
	vfAssert("C06.parsemore.count", len(insts) == len(want))
	if len(insts) != len(want) {
		return
	}
	for k := range want {
		attached := insts[k].(interface{ Type() types.Type }).Type()
		vfAssert("C06.parsemore.attached", hC06Same(attached, want[k]))
	}
	// clear the cached types and let the IR library recompute them
	for k := range want {
		if hGenClearTyp(insts[k]) {
			re := insts[k].(interface{ Type() types.Type }).Type()
			vfAssert("C06.parsemore.recomputed", hC06Same(re, want[k]))
		}
	}
	// the printed text keeps the types the input gave (uses are printed with the
	// type of the value they refer to)
	m2, err2 := ParseString("t.ll", m.String())
	vfAssert("C06.parsemore.print-reparses", err2 == nil)
	if err2 != nil {
		return
	}
	insts2 := m2.Funcs[3].Blocks[0].Insts
	vfAssert("C06.parsemore.print-count", len(insts2) == len(want))
	if len(insts2) != len(want) {
		return
	}
	for k := range want {
		vfAssert("C06.parsemore.print-keeps-type", hC06Same(insts2[k].(interface{ Type() types.Type }).Type(), want[k]))
	}
}

// ---- two attribute sets in one module

type hC06Set struct {
	scal   bool
	vs     string // "vscale x " or ""
	wd, ad string // digits: bit width, address space
	w, as  uint64
}

func hC06NewSet(tag string) hC06Set {
	s := hC06Set{}
	s.scal = vfChoice("vscale"+tag, 2) == 1
	if s.scal {
		s.vs = "vscale x "
	}
	s.wd = vfString("w"+tag, 1)
	s.ad = vfString("as"+tag, 1)
	vfAssume(vfAnd(s.wd[0] >= '2', s.wd[0] <= '9'))
	vfAssume(vfAnd(s.ad[0] >= '0', s.ad[0] <= '7'))
	s.w, s.as = uint64(s.wd[0]-'0'), uint64(s.ad[0]-'0')
	return s
}

// hC06SetText: a global of the identified struct type in the set's address
// space, a constant getelementptr expression into it, and a function whose
// instructions derive their result types from the set's attributes.
func hC06SetText(tag string, nd string, s hC06Set) string {
	iw := "i" + s.wd
	vi := "<" + s.vs + nd + " x " + iw + ">"
	vf := "<" + s.vs + nd + " x float>"
	as := " addrspace(" + s.ad + ")"
	return "@t" + tag + " =" + as + " global %T zeroinitializer\n" +
		"@e" + tag + " = global i64" + as + "* getelementptr (%T, %T" + as + "* @t" + tag + ", i32 0, i32 1)\n" +
		"define void @f" + tag + "(" + vi + " %a, " + vi + " %b, " + vf + " %x, " + vf + " %y, %T" + as + "* %p, " + iw + as + "* %q, <" + s.vs + nd + " x i64> %ix) {\n" +
		"\t%i0 = icmp eq " + vi + " %a, %b\n" +
		"\t%i1 = fcmp oeq " + vf + " %x, %y\n" +
		"\t%i2 = shufflevector " + vi + " %a, " + vi + " %b, <" + s.vs + nd + " x i32> zeroinitializer\n" +
		"\t%i3 = getelementptr %T, %T" + as + "* %p, i32 0, i32 1\n" +
		"\t%i4 = getelementptr " + iw + ", " + iw + as + "* %q, i32 1\n" +
		"\t%i5 = zext " + vi + " %a to <" + s.vs + nd + " x i64>\n" +
		"\t%i6 = cmpxchg " + iw + as + "* %q, " + iw + " 0, " + iw + " 1 seq_cst seq_cst\n" +
		"\t%i7 = alloca %T, addrspace(" + s.ad + ")\n" +
		"\t%i8 = icmp eq %T" + as + "* %p, null\n" +
		"\t%i9 = getelementptr " + iw + ", " + iw + as + "* %q, <" + s.vs + nd + " x i64> %ix\n" + // scalar base, vector index
		"\t%i10 = getelementptr %T, %T" + as + "* %p, <" + s.vs + nd + " x i64> %ix, i32 1\n" +
		"\tret void\n}\n"
}

func hC06SetWant(n uint64, s hC06Set, td types.Type) []types.Type {
	it := types.NewInt(s.w)
	vec := func(el types.Type) types.Type {
		return &types.VectorType{Len: n, ElemType: el, Scalable: s.scal}
	}
	ptr := func(el types.Type) types.Type { return &types.PointerType{ElemType: el, AddrSpace: types.AddrSpace(s.as)} }
	return []types.Type{vec(types.I1), vec(types.I1), vec(it), ptr(types.I64), ptr(it), vec(types.I64),
		types.NewStruct(it, types.I1), ptr(td), types.I1, vec(ptr(it)), vec(ptr(types.I64))}
}

var hC06PairIDs = [...]string{".pairs.icmp", ".pairs.fcmp", ".pairs.shufflevector", ".pairs.gep-struct", ".pairs.gep", ".pairs.zext", ".pairs.cmpxchg", ".pairs.alloca", ".pairs.icmp-pointer", ".pairs.gep-vector-index", ".pairs.gep-struct-vector-index"}

// VfC06_ParsePairs: one module, two functions with the same instruction kinds
// over two independently symbolic attribute sets (scalable or fixed, element
// width, address space; same lane count, same identified struct type), plus a
// constant getelementptr expression per set.  Every result type is checked
// once the whole module has been translated and again after the module has
// been printed: the type of an instruction is its own, whatever types the
// translator or the IR library computed for other instructions in between.
//
//vf:unwind 300
//vf:steps 60000000
//vf:shards 4
func VfC06_ParsePairs() { hC06Pairs("C06") }

func hC06Pairs(pfx string) {
	nd := vfString("n", 1)
	vfAssume(vfAnd(nd[0] >= '1', nd[0] <= '9'))
	n := uint64(nd[0] - '0')
	s1, s2 := hC06NewSet("1"), hC06NewSet("2")
	src := "%T = type { i32, i64 }\n" + hC06SetText("1", nd, s1) + hC06SetText("2", nd, s2)
	m, err := ParseString("t.ll", src)
	vfReach(pfx + ".pairs")
	vfObserveStr("src", src)
	vfAssert(pfx+".pairs.accepted", err == nil)
	if err != nil {
		return
	}
	td := m.TypeDefs[0]
	sets := [2]hC06Set{s1, s2}
	for round := 0; round < 2; round++ {
		for k := 0; k < 2; k++ {
			want := hC06SetWant(n, sets[k], td)
			insts := m.Funcs[k].Blocks[0].Insts
			vfAssert(pfx+".pairs.count", len(insts) == len(want))
			if len(insts) != len(want) {
				return
			}
			for j := range want {
				vfAssert(pfx+hC06PairIDs[j], hC06Same(insts[j].(interface{ Type() types.Type }).Type(), want[j]))
			}
			ps := m.Funcs[k].Params
			vfAssert(pfx+".pairs.param-pointer-to-named", hC06Same(ps[4].Type(), &types.PointerType{ElemType: td, AddrSpace: types.AddrSpace(sets[k].as)}))
			vfAssert(pfx+".pairs.param-pointer", hC06Same(ps[5].Type(), &types.PointerType{ElemType: types.NewInt(sets[k].w), AddrSpace: types.AddrSpace(sets[k].as)}))
			vfAssert(pfx+".pairs.param-vector", hC06Same(ps[0].Type(), &types.VectorType{Len: n, ElemType: types.NewInt(sets[k].w), Scalable: sets[k].scal}))
			e := m.Globals[2*k+1].Init
			vfAssert(pfx+".pairs.gep-expr", hC06Same(e.Type(), &types.PointerType{ElemType: types.I64, AddrSpace: types.AddrSpace(sets[k].as)}))
			vfAssert(pfx+".pairs.global", hC06Same(m.Globals[2*k].Type(), &types.PointerType{ElemType: td, AddrSpace: types.AddrSpace(sets[k].as)}))
		}
		if round == 0 {
			_ = m.String()
		}
	}
}
