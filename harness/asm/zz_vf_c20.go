//go:build verif

package asm

import (
	"github.com/llir/llvm/internal/natsort"
)

// C20 (parser side, L3): the printed order of type definitions, comdat
// definitions and named metadata of a parsed module is the natural order of
// their names and depends neither on the textual order of the input nor on
// Go's map iteration order (reversed / rotated, see vfMapOrder), including
// when a type alias (`%x = type %y`, two definitions that answer to one name)
// is among them.  Names are symbolic (a letter and digits).

func hC20Names(prefix string) (string, string, string) {
	// three names: prefix + one digit, prefix + two digits, letter only
	d1 := hDigits(prefix+"1", 1, '1', '9')
	d2 := hDigits(prefix+"2", 2, '0', '9')
	l := hLetterIn(prefix+"l", 'a', 'c')
	vfAssume(d2[0] != '0')
	return "t" + d1, "t" + d2, l
}

func hC20Lines(out, sigil string) []string {
	// the names (between sigil and " = ") of the lines that start with sigil
	var names []string
	start := 0
	for i := 0; i <= len(out); i++ {
		if i == len(out) || out[i] == '\n' {
			line := out[start:i]
			start = i + 1
			if len(line) > len(sigil) && line[:len(sigil)] == sigil {
				for j := len(sigil); j+3 <= len(line); j++ {
					if line[j:j+3] == " = " {
						names = append(names, line[len(sigil):j])
						break
					}
				}
			}
		}
	}
	return names
}

//vf:unwind 600
//vf:shards 12
func VfC20_ModuleOrder() {
	kind := vfChoice("kind", 3)
	perm := vfChoice("perm", 3)
	a, b, c := hC20Names("n")
	if kind == 0 && vfChoice("name-class", 2) == 1 {
		// a numbered entity (all digits; for types: `%7`), a name that starts
		// with a byte below '0' (`$y`, `-x`, `.x`; quoted by the printer where
		// needed) and a letter
		lo := vfString("low", 1)
		vfAssume(vfOr(lo[0] == '$', vfOr(lo[0] == '-', lo[0] == '.')))
		a, b = hDigits("num", 1, '0', '9'), lo+"y"
	}
	var defs [3]string
	sigil := "%"
	extra := ""
	switch kind {
	case 0:
		defs = [3]string{"%" + a + " = type { i32 }\n", "%" + b + " = type { i64 }\n", "%" + c + " = type { i8 }\n"}
		if vfChoice("alias", 2) == 1 {
			// an alias of the first type: it is printed under the aliased name
			extra = "%zz = type %" + a + "\n"
		}
	case 1:
		sigil = "$"
		defs = [3]string{"$" + a + " = comdat any\n", "$" + b + " = comdat any\n", "$" + c + " = comdat any\n"}
	default:
		sigil = "!"
		defs = [3]string{"!" + a + " = !{}\n", "!" + b + " = !{}\n", "!" + c + " = !{}\n"}
	}
	var src string
	switch perm {
	case 0:
		src = defs[0] + defs[1] + defs[2] + extra
	case 1:
		src = extra + defs[2] + defs[0] + defs[1]
	default:
		src = defs[1] + extra + defs[2] + defs[0]
	}
	m0, e0 := ParseString("a.ll", defs[0]+defs[1]+defs[2]+extra)
	vfMapOrder(1 + vfChoice("maporder", 2))
	m1, e1 := ParseString("b.ll", src)
	vfMapOrder(0)
	vfReach("C20.module-order")
	vfObserveStr("src", src)
	vfAssert("C20.module.accepted", vfAnd(e0 == nil, e1 == nil))
	if e0 != nil || e1 != nil {
		return
	}
	s0, s1 := m0.String(), m1.String()
	vfAssert("C20.module.order-independent", s0 == s1)
	names := hC20Lines(s1, sigil)
	vfAssert("C20.module.all-printed", len(names) >= 3)
	ok := true
	for i := 0; i+1 < len(names); i++ {
		ok = vfAnd(ok, vfNot(natsort.Less(names[i+1], names[i])))
	}
	if extra == "" {
		// (an alias is printed under the name of the type it aliases but ordered
		// by its own name: known finding C04.type-alias-placeholder; with an alias
		// present only the independence of input and map order is asserted)
		vfAssert("C20.module.natural-order", ok)
	}
}

// VfC20_IDOrder: attribute groups and metadata definitions are printed by
// ascending ID whatever their IDs (three distinct symbolic digits: dense,
// sparse, not starting at zero) and whatever the textual order of the input
// and the map order of the translator.
//
//vf:unwind 600
//vf:shards 4
func VfC20_IDOrder() {
	d := vfString("ids", 3)
	for i := 0; i < 3; i++ {
		vfAssume(vfAnd(d[i] >= '0', d[i] <= '9'))
	}
	vfAssume(vfAnd(d[0] != d[1], vfAnd(d[0] != d[2], d[1] != d[2])))
	var defs [3]string
	sigil := "attributes #"
	uses := ""
	undefined := -1 // index of an attribute group that is used but not defined (materialised by the parser)
	if vfChoice("kind", 2) == 0 {
		undefined = vfChoice("undefined", 4) - 1
		for i := 0; i < 3; i++ {
			if i != undefined {
				defs[i] = "attributes #" + d[i:i+1] + " = { nounwind }\n"
			}
			uses += "declare void @f" + string(rune('a'+i)) + "() #" + d[i:i+1] + "\n"
		}
	} else {
		sigil = "!"
		for i := 0; i < 3; i++ {
			defs[i] = "!" + d[i:i+1] + " = !{i32 " + string(rune('1'+i)) + "}\n"
		}
	}
	var src string
	switch vfChoice("perm", 3) {
	case 0:
		src = uses + defs[0] + defs[1] + defs[2]
	case 1:
		src = defs[2] + uses + defs[0] + defs[1]
	default:
		src = defs[1] + defs[2] + defs[0] + uses
	}
	m0, e0 := ParseString("a.ll", uses+defs[0]+defs[1]+defs[2])
	vfMapOrder(1 + vfChoice("maporder", 2))
	m1, e1 := ParseString("b.ll", src)
	vfMapOrder(0)
	vfReach("C20.id-order")
	vfObserveStr("src", src)
	vfAssert("C20.id-order.accepted", vfAnd(e0 == nil, e1 == nil))
	if e0 != nil || e1 != nil {
		return
	}
	s0, s1 := m0.String(), m1.String()
	vfAssert("C20.id-order.order-independent", s0 == s1)
	ids := hC20Lines(s1, sigil)
	// every defined group / node is printed (a materialised group may or may
	// not be listed); whatever is listed ascends (single digits)
	minLines := 3
	if undefined >= 0 {
		minLines = 2
	}
	vfAssert("C20.id-order.all-printed", vfAnd(len(ids) >= minLines, len(ids) <= 3))
	asc := true
	for i := 0; i < len(ids); i++ {
		asc = vfAnd(asc, len(ids[i]) == 1)
	}
	if asc {
		for i := 0; i+1 < len(ids); i++ {
			asc = vfAnd(asc, ids[i][0] < ids[i+1][0])
		}
	}
	vfAssert("C20.id-order.ascending", asc)
}

// hC20Pos: index of the first occurrence of sub in s, or -1.
func hC20Pos(s, sub string) int {
	for i := 0; i+len(sub) <= len(s); i++ {
		if s[i:i+len(sub)] == sub {
			return i
		}
	}
	return -1
}

// VfC20_TextualOrder: global variables, aliases, ifuncs and functions are
// each printed in the order in which the input defines them - whatever their
// names (symbolic, so any natural order among them), whatever the permutation
// of the definitions, whatever separates them in the text (a new line, a
// space, a tab: several definitions on one line are legal) and whatever the
// map order of the translator; the entities of one kind keep their order also
// when entities of the other kinds stand between them.
//
//vf:unwind 600
//vf:shards 16
func VfC20_TextualOrder() {
	kind := vfChoice("kind", 4)
	a, b, c := hC20Names("n")
	names := [3]string{a, b, c}
	seps := [...]string{"\n", " ", "\t", "\n\n"}
	sep := seps[vfChoice("sep", len(seps))]
	var defs [3]string
	tail, mark := "", " ="
	for i := 0; i < 3; i++ {
		switch kind {
		case 0:
			defs[i] = "@" + names[i] + " = global i32 " + string(rune('1'+i))
		case 1:
			defs[i] = "declare void @" + names[i] + "(i32)"
			mark = "("
		case 2:
			defs[i] = "@" + names[i] + " = alias i32, i32* @tgt"
			tail = "@tgt = global i32 0"
		default:
			defs[i] = "@" + names[i] + " = ifunc void (), void ()* ()* @res"
			tail = "declare void ()* @res()"
		}
	}
	// an entity of another kind between the definitions
	other := "@zzo = global i8 0"
	if kind == 0 {
		other = "declare void @zzo()"
	}
	perms := [6][3]int{{0, 1, 2}, {0, 2, 1}, {1, 0, 2}, {1, 2, 0}, {2, 0, 1}, {2, 1, 0}}
	p := perms[vfChoice("perm", 6)]
	src := defs[p[0]] + sep + other + sep + defs[p[1]] + sep + defs[p[2]]
	if tail != "" {
		if vfChoice("tail-first", 2) == 1 {
			src = tail + sep + src
		} else {
			src = src + sep + tail
		}
	}
	src += "\n"
	vfMapOrder(vfChoice("maporder", 3))
	m, err := ParseString("t.ll", src)
	vfMapOrder(0)
	vfReach("C20.textual-order")
	vfObserveStr("src", src)
	vfAssert("C20.textual.accepted", err == nil)
	if err != nil {
		return
	}
	// the module lists them in textual order
	var listed []string
	switch kind {
	case 0:
		for _, g := range m.Globals {
			listed = append(listed, g.Name())
		}
	case 1:
		for _, f := range m.Funcs {
			listed = append(listed, f.Name())
		}
	case 2:
		for _, x := range m.Aliases {
			listed = append(listed, x.Name())
		}
	default:
		for _, x := range m.IFuncs {
			listed = append(listed, x.Name())
		}
	}
	k := 0
	inOrder := true
	for _, n := range listed {
		if n == "zzo" || n == "tgt" || n == "res" {
			continue
		}
		if k < 3 {
			inOrder = vfAnd(inOrder, n == names[p[k]])
		}
		k++
	}
	vfAssert("C20.textual.module-lists-in-textual-order", vfAnd(inOrder, k == 3))
	// and prints them so
	out := m.String()
	p0 := hC20Pos(out, "@"+names[p[0]]+mark)
	p1 := hC20Pos(out, "@"+names[p[1]]+mark)
	p2 := hC20Pos(out, "@"+names[p[2]]+mark)
	vfAssert("C20.textual.printed-in-textual-order", vfAnd(p0 >= 0, vfAnd(p0 < p1, p1 < p2)))
}
