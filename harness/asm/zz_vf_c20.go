//go:build verif

package asm

import (
	"github.com/llir/llvm/internal/natsort"
)

// C20 (parser side, L3): the printed order of type definitions, comdat
// definitions and named metadata of a parsed module is the natural order of
// their names and depends neither on the textual order of the input nor on
// Go's map iteration order (reversed / rotated, see vfMapOrder), including
// when a type alias (`%x = type %y`, two definitions that answer to one name)
// is among them.  Names are symbolic (a letter and digits).

func hC20Names(prefix string) (string, string, string) {
	// three names: prefix + one digit, prefix + two digits, letter only
	d1 := hDigits(prefix+"1", 1, '1', '9')
	d2 := hDigits(prefix+"2", 2, '0', '9')
	l := hLetterIn(prefix+"l", 'a', 'c')
	vfAssume(d2[0] != '0')
	return "t" + d1, "t" + d2, l
}

func hC20Lines(out, sigil string) []string {
	// the names (between sigil and " = ") of the lines that start with sigil
	var names []string
	start := 0
	for i := 0; i <= len(out); i++ {
		if i == len(out) || out[i] == '\n' {
			line := out[start:i]
			start = i + 1
			if len(line) > len(sigil) && line[:len(sigil)] == sigil {
				for j := len(sigil); j+3 <= len(line); j++ {
					if line[j:j+3] == " = " {
						names = append(names, line[len(sigil):j])
						break
					}
				}
			}
		}
	}
	return names
}

//vf:unwind 600
//vf:shards 12
func VfC20_ModuleOrder() {
	kind := vfChoice("kind", 3)
	perm := vfChoice("perm", 3)
	a, b, c := hC20Names("n")
	if kind == 0 && vfChoice("name-class", 2) == 1 {
		// a numbered entity (all digits; for types: `%7`), a name that starts
		// with a byte below '0' (`$y`, `-x`, `.x`; quoted by the printer where
		// needed) and a letter
		lo := vfString("low", 1)
		vfAssume(vfOr(lo[0] == '$', vfOr(lo[0] == '-', lo[0] == '.')))
		a, b = hDigits("num", 1, '0', '9'), lo+"y"
	}
	var defs [3]string
	sigil := "%"
	extra := ""
	switch kind {
	case 0:
		defs = [3]string{"%" + a + " = type { i32 }\n", "%" + b + " = type { i64 }\n", "%" + c + " = type { i8 }\n"}
		if vfChoice("alias", 2) == 1 {
			// an alias of the first type: it is printed under the aliased name
			extra = "%zz = type %" + a + "\n"
		}
	case 1:
		sigil = "$"
		defs = [3]string{"$" + a + " = comdat any\n", "$" + b + " = comdat any\n", "$" + c + " = comdat any\n"}
	default:
		sigil = "!"
		defs = [3]string{"!" + a + " = !{}\n", "!" + b + " = !{}\n", "!" + c + " = !{}\n"}
	}
	var src string
	switch perm {
	case 0:
		src = defs[0] + defs[1] + defs[2] + extra
	case 1:
		src = extra + defs[2] + defs[0] + defs[1]
	default:
		src = defs[1] + extra + defs[2] + defs[0]
	}
	m0, e0 := ParseString("a.ll", defs[0]+defs[1]+defs[2]+extra)
	vfMapOrder(1 + vfChoice("maporder", 2))
	m1, e1 := ParseString("b.ll", src)
	vfMapOrder(0)
	vfReach("C20.module-order")
	vfObserveStr("src", src)
	vfAssert("C20.module.accepted", vfAnd(e0 == nil, e1 == nil))
	if e0 != nil || e1 != nil {
		return
	}
	s0, s1 := m0.String(), m1.String()
	vfAssert("C20.module.order-independent", s0 == s1)
	names := hC20Lines(s1, sigil)
	vfAssert("C20.module.all-printed", len(names) >= 3)
	ok := true
	for i := 0; i+1 < len(names); i++ {
		ok = vfAnd(ok, vfNot(natsort.Less(names[i+1], names[i])))
	}
	if extra == "" {
		// (an alias is printed under the name of the type it aliases but ordered
		// by its own name: known finding C04.type-alias-placeholder; with an alias
		// present only the independence of input and map order is asserted)
		vfAssert("C20.module.natural-order", ok)
	}
}

// VfC20_IDOrder: attribute groups and metadata definitions are printed by
// ascending ID whatever their IDs (three distinct symbolic digits: dense,
// sparse, not starting at zero) and whatever the textual order of the input
// and the map order of the translator.
//
//vf:unwind 600
//vf:shards 4
func VfC20_IDOrder() {
	d := vfString("ids", 3)
	for i := 0; i < 3; i++ {
		vfAssume(vfAnd(d[i] >= '0', d[i] <= '9'))
	}
	vfAssume(vfAnd(d[0] != d[1], vfAnd(d[0] != d[2], d[1] != d[2])))
	var defs [3]string
	sigil := "attributes #"
	uses := ""
	undefined := -1 // index of an attribute group that is used but not defined (materialised by the parser)
	if vfChoice("kind", 2) == 0 {
		undefined = vfChoice("undefined", 4) - 1
		for i := 0; i < 3; i++ {
			if i != undefined {
				defs[i] = "attributes #" + d[i:i+1] + " = { nounwind }\n"
			}
			uses += "declare void @f" + string(rune('a'+i)) + "() #" + d[i:i+1] + "\n"
		}
	} else {
		sigil = "!"
		for i := 0; i < 3; i++ {
			defs[i] = "!" + d[i:i+1] + " = !{i32 " + string(rune('1'+i)) + "}\n"
		}
	}
	var src string
	switch vfChoice("perm", 3) {
	case 0:
		src = uses + defs[0] + defs[1] + defs[2]
	case 1:
		src = defs[2] + uses + defs[0] + defs[1]
	default:
		src = defs[1] + defs[2] + defs[0] + uses
	}
	m0, e0 := ParseString("a.ll", uses+defs[0]+defs[1]+defs[2])
	vfMapOrder(1 + vfChoice("maporder", 2))
	m1, e1 := ParseString("b.ll", src)
	vfMapOrder(0)
	vfReach("C20.id-order")
	vfObserveStr("src", src)
	vfAssert("C20.id-order.accepted", vfAnd(e0 == nil, e1 == nil))
	if e0 != nil || e1 != nil {
		return
	}
	s0, s1 := m0.String(), m1.String()
	vfAssert("C20.id-order.order-independent", s0 == s1)
	ids := hC20Lines(s1, sigil)
	// every defined group / node is printed (a materialised group may or may
	// not be listed); whatever is listed ascends (single digits)
	minLines := 3
	if undefined >= 0 {
		minLines = 2
	}
	vfAssert("C20.id-order.all-printed", vfAnd(len(ids) >= minLines, len(ids) <= 3))
	asc := true
	for i := 0; i < len(ids); i++ {
		asc = vfAnd(asc, len(ids[i]) == 1)
	}
	if asc {
		for i := 0; i+1 < len(ids); i++ {
			asc = vfAnd(asc, ids[i][0] < ids[i+1][0])
		}
	}
	vfAssert("C20.id-order.ascending", asc)
}
