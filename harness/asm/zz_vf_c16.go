//go:build verif

package asm

import (
	"github.com/llir/llvm/ir"
	"github.com/llir/llvm/ir/constant"
	"github.com/llir/llvm/ir/types"
)

// C16 (parser side, L3): a type keeps its identity through print and parse:
// the type read back from the printed text is Equal to the type printed (both
// ways) and structurally the same under the reference comparison (hC06Same),
// so that types differing in any attribute (variadic or not, packed or not,
// scalable or not, address space, lengths, widths) stay different.  Widths,
// lengths and the address space are symbolic digits.

//vf:unwind 600
//vf:shards 16
func VfC16_ParseTypes() {
	wd := vfString("w", 1)
	nd := vfString("n", 1)
	ad := vfString("as", 1)
	vfAssume(vfAnd(wd[0] >= '2', wd[0] <= '9'))
	vfAssume(vfAnd(nd[0] >= '1', nd[0] <= '9'))
	vfAssume(vfAnd(ad[0] >= '1', ad[0] <= '9'))
	it := types.NewInt(uint64(wd[0] - '0'))
	n := uint64(nd[0] - '0')
	as := types.AddrSpace(ad[0] - '0')
	fn := func(ret types.Type, variadic bool, params ...types.Type) *types.FuncType {
		f := types.NewFunc(ret, params...)
		f.Variadic = variadic
		return f
	}
	pas := func(el types.Type) types.Type { return &types.PointerType{ElemType: el, AddrSpace: as} }
	var t types.Type
	switch vfChoice("shape", 22) {
	case 0:
		t = it
	case 1:
		t = types.Half
	case 2:
		t = types.X86_FP80
	case 3:
		t = pas(it)
	case 4:
		t = &types.VectorType{Len: n, ElemType: it}
	case 5:
		t = &types.VectorType{Len: n, ElemType: it, Scalable: true}
	case 6:
		t = types.NewArray(n, it)
	case 7:
		t = types.NewStruct(it, types.I8)
	case 8:
		s := types.NewStruct(it, types.I8)
		s.Packed = true
		t = s
	case 9:
		t = types.NewStruct()
	case 10:
		t = fn(it, false)
	case 11:
		t = fn(it, true) // variadic, no fixed parameters
	case 12:
		t = fn(types.Void, true)
	case 13:
		t = fn(types.Void, false, it)
	case 14:
		t = fn(types.Void, true, it)
	case 15:
		t = types.NewStruct(types.NewPointer(fn(types.Void, true)), it)
	case 16:
		t = types.NewArray(n, types.NewPointer(fn(types.NewPointer(fn(types.Void, true)), false)))
	case 17:
		t = fn(pas(fn(it, true, types.I8Ptr)), false, pas(it))
	case 18:
		t = &types.VectorType{Len: n, ElemType: pas(it), Scalable: true}
	case 19:
		t = types.NewArray(0, types.NewStruct(types.NewArray(n, it)))
	case 20:
		t = pas(pas(types.NewStruct(types.Double, &types.VectorType{Len: n, ElemType: types.Float})))
	default:
		t = types.NewPointer(types.NewArray(n, fn(it, true).RetType))
	}
	m := ir.NewModule()
	pt := types.NewPointer(t)
	m.NewGlobalDef("g", constant.NewNull(pt))
	s := m.String()
	m2, err := ParseString("t.ll", s)
	vfReach("C16.parse.types")
	vfObserveStr("printed", s)
	vfAssert("C16.parse.accepted", err == nil)
	if err != nil {
		return
	}
	back, isPtr := m2.Globals[0].ContentType.(*types.PointerType)
	vfAssert("C16.parse.is-pointer", isPtr)
	if !isPtr {
		return
	}
	t2 := back.ElemType
	vfAssert("C16.parse.equal", vfAnd(t.Equal(t2), t2.Equal(t)))
	vfAssert("C16.parse.same-structure", hC06Same(t, t2))
	vfAssert("C16.parse.same-text", t2.LLString() == t.LLString())
}

// VfC16_ParsePairs: two sets of types that differ in one attribute each
// (address space of a pointer to the same identified struct and to the same
// integer type, scalability of vectors of the same length, element width) in
// one module: every type read back is structurally its own, whatever the
// translator did for the other set (shared with C06 `ParsePairs`).
//
//vf:unwind 300
//vf:steps 60000000
//vf:shards 4
func VfC16_ParsePairs() { hC06Pairs("C16") }
