//go:build verif

package asm

import (
	"github.com/llir/llvm/ir"
	"github.com/llir/llvm/ir/value"
)

// C08 (parser side, L3): every numbering LLVM accepts is accepted with each
// %N / @N bound to the right value, and printing a parsed module never fails.

// VfC08_ParseLocals: a function in which every unnamed value is written either
// with its explicit LLVM number or implicitly (forked per value).
//
//vf:unwind 200
//vf:shards 4
func VfC08_ParseLocals() {
	ex := func(k int, explicit, implicit string) string {
		if vfChoice("form"+string(rune('0'+k)), 2) == 0 {
			return explicit
		}
		return implicit
	}
	src := "%sig = type void (i32)\ndeclare i32 @g()\ndeclare void @v()\ndeclare void @w(i32)\ndeclare void @va(i32, ...)\ndeclare void ()* @gp()\n" +
		"define i32 @f(i32" + ex(0, " %0", "") + ", i32" + ex(1, " %1", "") + ") {\n" +
		ex(2, "2:\n", "") +
		"\t" + ex(3, "%3 = ", "") + "add i32 %0, %1\n" +
		"\tcall void @v()\n" +
		"\tcall void (i32) @w(i32 %0)\n" + // full function type in front of the callee: still void
		"\tcall void (i32, ...) @va(i32 %0, i32 %1)\n" +
		"\t" + ex(4, "%4 = ", "") + "call i32 @g()\n" +
		"\tcall %sig @w(i32 %1)\n" + // the signature through a type alias: still void, no number
		"\t%fp = call void ()* @gp()\n" + // the callee returns a function pointer: a value (named here)
		"\tcall void %fp()\n" +
		"\tbr label %5\n" +
		"5:\n" +
		"\t" + ex(5, "%6 = ", "") + "mul i32 %3, %4\n" +
		"\tret i32 %6\n}\n"
	m, err := ParseString("t.ll", src)
	vfReach("C08.parse.locals")
	vfObserveStr("src", src)
	vfAssert("C08.parse.accepts-llvm-numbering", err == nil)
	if err != nil {
		return
	}
	f := m.Funcs[5]
	b0, b1 := f.Blocks[0], f.Blocks[1]
	add := b0.Insts[0].(*ir.InstAdd)
	call := b0.Insts[4].(*ir.InstCall)
	mul := b1.Insts[0].(*ir.InstMul)
	vfAssert("C08.parse.binds.params", vfAnd(add.X == value.Value(f.Params[0]), add.Y == value.Value(f.Params[1])))
	vfAssert("C08.parse.binds.insts", vfAnd(mul.X == value.Value(add), mul.Y == value.Value(call)))
	vfAssert("C08.parse.binds.block", b0.Term.(*ir.TermBr).Target == value.Value(b1))
	vfAssert("C08.parse.binds.ret", b1.Term.(*ir.TermRet).X == value.Value(mul))
	out := m.String() // must not panic
	vfObserveStr("out", out)
	vfAssert("C08.parse.numbers", vfAnd(vfAnd(f.Params[0].ID() == 0, f.Params[1].ID() == 1), vfAnd(vfAnd(b0.ID() == 2, add.ID() == 3), vfAnd(vfAnd(call.ID() == 4, b1.ID() == 5), mul.ID() == 6))))
}

// VfC08_ParseGlobals: up to three unnamed top-level entities (global
// variable, function, alias) in every textual order, numbered @0,@1,... in
// textual order as LLVM requires: the parser accepts them and the module can
// be printed.
//
//vf:unwind 200
//vf:shards 4
func VfC08_ParseGlobals() {
	n := vfLen("n", 1, 3)
	src := ""
	var kinds []int
	for i := 0; i < n; i++ {
		k := vfChoice("kind"+string(rune('0'+i)), 3)
		kinds = append(kinds, k)
		id := "@" + string(rune('0'+i))
		switch k {
		case 0:
			src += id + " = global i32 0\n"
		case 1:
			src += "define void " + id + "() {\n\tret void\n}\n"
		default:
			src += id + " = alias i32, i32* @t\n"
		}
		// other numbered top-level definitions (attribute groups, metadata) may
		// stand anywhere between the globals; their numbers are unrelated
		switch vfChoice("between"+string(rune('0'+i)), 3) {
		case 1:
			src += "attributes #" + string(rune('5'+i)) + " = { nounwind }\n"
		case 2:
			src += "!" + string(rune('3'+i)) + " = !{}\n"
		}
	}
	src += "@t = global i32 7\n@user = global i32* @0\n"
	// known finding: the printer numbers by group (globals, aliases, ifuncs,
	// functions), the parser by textual order
	sorted := true
	rank := func(k int) int {
		switch k {
		case 0:
			return 0
		case 2:
			return 1
		}
		return 2
	}
	for i := 1; i < len(kinds); i++ {
		if rank(kinds[i-1]) > rank(kinds[i]) {
			sorted = false
		}
	}
	vfKnown("C08.global-numbering-by-group", !sorted)
	m, err := ParseString("t.ll", src)
	vfReach("C08.parse.globals")
	vfObserveStr("src", src)
	vfAssert("C08.parse.globals.accepted", err == nil)
	if err != nil {
		return
	}
	out := m.String() // printing a parsed module must not fail
	vfObserveStr("out", out)
	vfAssert("C08.parse.globals.printed", len(out) > 0)
}
