//go:build verif

package asm

import (
	"github.com/llir/llvm/ir"
	"github.com/llir/llvm/ir/constant"
	"github.com/llir/llvm/ir/value"
)

// C08 (parser side, L3): every numbering LLVM accepts is accepted with each
// %N / @N bound to the right value, and printing a parsed module never fails.

// VfC08_ParseLocals: a function in which every unnamed value is written either
// with its explicit LLVM number or implicitly (forked per value).
//
//vf:unwind 200
//vf:shards 4
func VfC08_ParseLocals() {
	ex := func(k int, explicit, implicit string) string {
		if vfChoice("form"+string(rune('0'+k)), 2) == 0 {
			return explicit
		}
		return implicit
	}
	// an ID may be written with leading zeros (`%02` is %2 for LLVM), at its
	// definition, at its uses or both
	spell := vfChoice("spelling", 4)
	d := func(n string) string { // at a definition
		if spell == 1 || spell == 3 {
			return "0" + n
		}
		return n
	}
	u := func(n string) string { // at a use
		if spell >= 2 {
			return "00" + n
		}
		return n
	}
	src := "%sig = type void (i32)\ndeclare i32 @g()\ndeclare void @v()\ndeclare void @w(i32)\ndeclare void @va(i32, ...)\ndeclare void ()* @gp()\n" +
		"define i32 @f(i32" + ex(0, " %"+d("0"), "") + ", i32" + ex(1, " %"+d("1"), "") + ") {\n" +
		ex(2, d("2")+":\n", "") +
		"\t" + ex(3, "%"+d("3")+" = ", "") + "add i32 %" + u("0") + ", %" + u("1") + "\n" +
		"\tcall void @v()\n" +
		"\tcall void (i32) @w(i32 %0)\n" + // full function type in front of the callee: still void
		"\tcall void (i32, ...) @va(i32 %0, i32 %1)\n" +
		"\t" + ex(4, "%"+d("4")+" = ", "") + "call i32 @g()\n" +
		"\tcall %sig @w(i32 %1)\n" + // the signature through a type alias: still void, no number
		"\t%fp = call void ()* @gp()\n" + // the callee returns a function pointer: a value (named here)
		"\tcall void %fp()\n" +
		"\tbr label %" + u("5") + "\n" +
		d("5") + ":\n" +
		"\t" + ex(5, "%"+d("6")+" = ", "") + "mul i32 %" + u("3") + ", %" + u("4") + "\n" +
		"\tret i32 %" + u("6") + "\n}\n"
	m, err := ParseString("t.ll", src)
	vfReach("C08.parse.locals")
	vfObserveStr("src", src)
	vfAssert("C08.parse.accepts-llvm-numbering", err == nil)
	if err != nil {
		return
	}
	f := m.Funcs[5]
	b0, b1 := f.Blocks[0], f.Blocks[1]
	add := b0.Insts[0].(*ir.InstAdd)
	call := b0.Insts[4].(*ir.InstCall)
	mul := b1.Insts[0].(*ir.InstMul)
	vfAssert("C08.parse.binds.params", vfAnd(add.X == value.Value(f.Params[0]), add.Y == value.Value(f.Params[1])))
	vfAssert("C08.parse.binds.insts", vfAnd(mul.X == value.Value(add), mul.Y == value.Value(call)))
	vfAssert("C08.parse.binds.block", b0.Term.(*ir.TermBr).Target == value.Value(b1))
	vfAssert("C08.parse.binds.ret", b1.Term.(*ir.TermRet).X == value.Value(mul))
	out := m.String() // must not panic
	vfObserveStr("out", out)
	vfAssert("C08.parse.numbers", vfAnd(vfAnd(f.Params[0].ID() == 0, f.Params[1].ID() == 1), vfAnd(vfAnd(b0.ID() == 2, add.ID() == 3), vfAnd(vfAnd(call.ID() == 4, b1.ID() == 5), mul.ID() == 6))))
}

// hUnnamedEntity: the text of an unnamed top-level entity of kind k (global
// variable, function, alias, ifunc) written with the number id; @t and @res
// are defined by the caller.
func hUnnamedEntity(k int, id string) string {
	switch k {
	case 0:
		return id + " = global i32 0\n"
	case 1:
		return "define void " + id + "() {\n\tret void\n}\n"
	case 2:
		return id + " = alias i32, i32* @t\n"
	}
	return id + " = ifunc void (), void ()* ()* @res\n"
}

// VfC08_ParseGlobals: up to three unnamed top-level entities (global
// variable, function, alias, ifunc) in every textual order, numbered @0,@1,... in
// textual order as LLVM requires: the parser accepts them and the module can
// be printed.
//
//vf:unwind 200
//vf:shards 4
func VfC08_ParseGlobals() {
	n := vfLen("n", 1, 3)
	src := ""
	// the numbers may be written with leading zeros (`@00` is @0 for LLVM)
	zeros := ""
	if vfChoice("leading-zeros", 2) == 1 {
		zeros = "0"
	}
	var kinds []int
	for i := 0; i < n; i++ {
		k := vfChoice("kind"+string(rune('0'+i)), 4)
		kinds = append(kinds, k)
		id := "@" + zeros + string(rune('0'+i))
		src += hUnnamedEntity(k, id)
		// other numbered top-level definitions (attribute groups, metadata) may
		// stand anywhere between the globals; their numbers are unrelated
		switch vfChoice("between"+string(rune('0'+i)), 3) {
		case 1:
			src += "attributes #" + string(rune('5'+i)) + " = { nounwind }\n"
		case 2:
			src += "!" + string(rune('3'+i)) + " = !{}\n"
		}
	}
	src += "@t = global i32 7\n@user = global i32* @" + zeros + zeros + "0\ndeclare void ()* @res()\n"
	// known finding: the printer numbers by group (globals, aliases, ifuncs,
	// functions), the parser by textual order
	sorted := true
	rank := func(k int) int {
		switch k {
		case 0:
			return 0
		case 2:
			return 1
		case 3:
			return 2
		}
		return 3
	}
	for i := 1; i < len(kinds); i++ {
		if rank(kinds[i-1]) > rank(kinds[i]) {
			sorted = false
		}
	}
	vfKnown("C08.global-numbering-by-group", !sorted)
	m, err := ParseString("t.ll", src)
	vfReach("C08.parse.globals")
	vfObserveStr("src", src)
	vfAssert("C08.parse.globals.accepted", err == nil)
	if err != nil {
		return
	}
	out := m.String() // printing a parsed module must not fail
	vfObserveStr("out", out)
	vfAssert("C08.parse.globals.printed", len(out) > 0)
}

// VfC08_ParseParams: a function header (declaration or definition) with three
// parameters, each written without a name, with a name, or with an explicit
// number whose digit the solver chooses.  A header is accepted when every
// written number is what LLVM 14 expects there (LLParser::parseArgumentList,
// calibrated with llvm-as 14: the counter the written number is compared with
// is advanced by every unnamed parameter except an unnamed first parameter
// without a number) or the position among the unnamed parameters (what the
// printer emits; the two differ only after an unnamed first parameter), and is
// rejected when some number is neither (misplaced or repeated); an accepted
// header numbers the unnamed parameters by position, prints without panicking
// and the printed text is accepted again.
//
//vf:unwind 200
func VfC08_ParseParams() {
	isDef := vfChoice("definition", 2) == 1
	hdr := ""
	expect := 0 // LLVM's counter
	pos := 0    // unnamed parameters so far
	valid := true
	var wantID [3]int
	var unnamed [3]bool
	for i := 0; i < 3; i++ {
		if i > 0 {
			hdr += ", "
		}
		hdr += "i32"
		switch vfChoice("form"+string(rune('0'+i)), 3) {
		case 0: // no name
			unnamed[i] = true
			wantID[i] = pos
			pos++
			if i > 0 {
				expect++
			}
		case 1: // named
			hdr += " %p" + string(rune('a'+i))
		default: // explicit number
			d := vfString("digit"+string(rune('0'+i)), 1)
			vfAssume(vfAnd(d[0] >= '0', d[0] <= '4'))
			hdr += " %" + d
			if vfAnd(int(d[0]-'0') != expect, int(d[0]-'0') != pos) {
				valid = false
			}
			unnamed[i] = true
			wantID[i] = pos
			pos++
			expect++
		}
	}
	src := "declare i32 @f(" + hdr + ")\n"
	if isDef {
		src = "define i32 @f(" + hdr + ") {\n\tret i32 7\n}\n"
	}
	vfPanicOK(false)
	m, err := ParseString("t.ll", src)
	vfReach("C08.params")
	vfObserveStr("src", src)
	vfAssert("C08.params.verdict", (err == nil) == valid)
	if err != nil {
		return
	}
	out := m.String() // must not panic
	vfObserveStr("out", out)
	f := m.Funcs[0]
	for i := 0; i < 3; i++ {
		if unnamed[i] {
			vfAssert("C08.params.numbered-by-position", vfAnd(f.Params[i].IsUnnamed(), f.Params[i].ID() == int64(wantID[i])))
		} else {
			vfAssert("C08.params.name-kept", f.Params[i].Name() == "p"+string(rune('a'+i)))
		}
	}
	m2, err2 := ParseString("t2.ll", out)
	vfAssert("C08.params.output-accepted", err2 == nil)
	if err2 == nil {
		vfAssert("C08.params.fixpoint", m2.String() == out)
	}
}

// VfC08_ParseEH: values of token type take numbers like any other value: a
// function whose catchswitch (a value-producing terminator), catchpad and
// cleanuppad results and blocks are unnamed, each written with its explicit
// LLVM number or implicitly (forked per value); accepted by llvm-as 14.
//
//vf:unwind 200
func VfC08_ParseEH() {
	ex := func(k int, explicit string) string {
		if vfChoice("form"+string(rune('0'+k)), 2) == 0 {
			return explicit
		}
		return ""
	}
	src := "declare i32 @pers(...)\ndeclare void @v()\n" +
		"define void @f() personality i8* bitcast (i32 (...)* @pers to i8*) {\n" +
		"\tinvoke void @v() to label %1 unwind label %2\n" +
		ex(0, "1:\n") + "\tret void\n" +
		ex(1, "2:\n") + "\t" + ex(2, "%3 = ") + "catchswitch within none [label %4] unwind label %7\n" +
		ex(3, "4:\n") + "\t" + ex(4, "%5 = ") + "catchpad within %3 [i8* null, i32 64, i8* null]\n" +
		"\tcatchret from %5 to label %6\n" +
		ex(5, "6:\n") + "\tret void\n" +
		ex(6, "7:\n") + "\t" + ex(7, "%8 = ") + "cleanuppad within none []\n" +
		"\tcleanupret from %8 unwind to caller\n}\n"
	m, err := ParseString("t.ll", src)
	vfReach("C08.parse.eh")
	vfObserveStr("src", src)
	vfAssert("C08.parse.eh.accepts-llvm-numbering", err == nil)
	if err != nil {
		return
	}
	f := m.Funcs[2]
	vfAssert("C08.parse.eh.blocks", len(f.Blocks) == 6)
	if len(f.Blocks) != 6 {
		return
	}
	cs, ok := f.Blocks[2].Term.(*ir.TermCatchSwitch)
	cp, ok2 := f.Blocks[3].Insts[0].(*ir.InstCatchPad)
	cl, ok3 := f.Blocks[5].Insts[0].(*ir.InstCleanupPad)
	vfAssert("C08.parse.eh.kinds", vfAnd(ok, vfAnd(ok2, ok3)))
	if !ok || !ok2 || !ok3 {
		return
	}
	vfAssert("C08.parse.eh.binds", vfAnd(cp.CatchSwitch == value.Value(cs), vfAnd(f.Blocks[3].Term.(*ir.TermCatchRet).CatchPad == value.Value(cp), f.Blocks[5].Term.(*ir.TermCleanupRet).CleanupPad == value.Value(cl))))
	out := m.String() // must not panic
	vfObserveStr("out", out)
	vfAssert("C08.parse.eh.numbers", vfAnd(vfAnd(vfAnd(f.Blocks[0].ID() == 0, f.Blocks[1].ID() == 1), vfAnd(f.Blocks[2].ID() == 2, cs.ID() == 3)),
		vfAnd(vfAnd(f.Blocks[3].ID() == 4, cp.ID() == 5), vfAnd(f.Blocks[4].ID() == 6, vfAnd(f.Blocks[5].ID() == 7, cl.ID() == 8)))))
	_, err2 := ParseString("t2.ll", out)
	vfAssert("C08.parse.eh.output-accepted", err2 == nil)
}

// VfC08_ParseBlockAddress: numeric block references from outside the function.
// A function with four blocks, each named or unnamed (forked), so that named
// and unnamed blocks interleave in every way; a global table takes the address
// of every block (by name or by its LLVM number), branches inside refer to the
// next block the same way: each blockaddress and each branch target is the
// very block with that name / number, and the module prints and is accepted
// again.
//
//vf:unwind 300
func VfC08_ParseBlockAddress() {
	var named [4]bool
	var ref [4]string // how block k is referred to: %nK or %N
	id := 0
	for k := 0; k < 4; k++ {
		named[k] = vfChoice("named"+string(rune('0'+k)), 2) == 1
		if named[k] {
			ref[k] = "%n" + string(rune('0'+k))
		} else {
			ref[k] = "%" + string(rune('0'+id))
			id++
		}
	}
	body := ""
	for k := 0; k < 4; k++ {
		if named[k] {
			body += "n" + string(rune('0'+k)) + ":\n"
		} else if k > 0 {
			body += ref[k][1:] + ":\n"
		}
		if k < 3 {
			body += "\tbr label " + ref[k+1] + "\n"
		} else {
			body += "\tret void\n"
		}
	}
	src := "@t = global [4 x i8*] [i8* blockaddress(@f, " + ref[0] + "), i8* blockaddress(@f, " + ref[1] + "), i8* blockaddress(@f, " + ref[2] + "), i8* blockaddress(@f, " + ref[3] + ")]\n" +
		"define void @f() {\n" + body + "}\n"
	m, err := ParseString("t.ll", src)
	vfReach("C08.parse.blockaddress")
	vfObserveStr("src", src)
	vfAssert("C08.parse.blockaddress.accepted", err == nil)
	if err != nil {
		return
	}
	f := m.Funcs[0]
	arr, ok := m.Globals[0].Init.(*constant.Array)
	vfAssert("C08.parse.blockaddress.table", vfAnd(ok, ok && len(arr.Elems) == 4 && len(f.Blocks) == 4))
	if !ok || len(arr.Elems) != 4 || len(f.Blocks) != 4 {
		return
	}
	for k := 0; k < 4; k++ {
		ba, isBA := arr.Elems[k].(*constant.BlockAddress)
		vfAssert("C08.parse.blockaddress.binds-the-block", vfAnd(isBA, isBA && ba.Block == value.Value(f.Blocks[k])))
		if k < 3 {
			vfAssert("C08.parse.blockaddress.branch-binds-the-block", f.Blocks[k].Term.(*ir.TermBr).Target == value.Value(f.Blocks[k+1]))
		}
	}
	out := m.String()
	vfObserveStr("out", out)
	_, err2 := ParseString("t2.ll", out)
	vfAssert("C08.parse.blockaddress.output-accepted", err2 == nil)
}
