//go:build verif

package asm

// C05 (L3): undefined or doubly defined names are reported as errors: never a
// crash, never a module with the reference dropped or rebound.  Each template
// has one reference (or definition) site whose name is a symbolic letter; the
// solver decides which names are undefined / duplicated.

func hLetterIn(name string, lo, hi byte) string {
	s := vfString(name, 1)
	vfAssume(vfAnd(s[0] >= lo, s[0] <= hi))
	return s
}

type hC05Tmpl struct {
	id      string // obligation group
	pre     string // text before the symbolic name
	post    string // text after it
	defined string // names that are defined at that site (each one letter)
	digit   bool   // the name is a digit (metadata / attribute group IDs)
	accept  bool   // undefined names are accepted (documented exception)
}

var hC05Undef = []hC05Tmpl{
	{id: "type", pre: "%a = type { i32 }\n%b = type { %", post: "* }\n", defined: "ab"},
	{id: "type-alias", pre: "%a = type { i32 }\n%b = type %", post: "\n", defined: "a"},
	{id: "global", pre: "@a = global i32 0\n@b = global i32* @", post: "\n", defined: "ab"}, // @b = ... @b is a valid self-reference
	{id: "callee", pre: "declare void @a()\ndefine void @b() {\n\tcall void @", post: "()\n\tret void\n}\n", defined: "ab"},
	{id: "local", pre: "define i32 @f(i32 %a) {\n\t%b = add i32 %a, 1\n\t%c = add i32 %", post: ", 1\n\tret i32 %c\n}\n", defined: "abc"}, // %c is defined (a use of itself is a dominance error, not an undefined name)
	{id: "label", pre: "define void @f() {\na:\n\tbr label %", post: "\nb:\n\tret void\n}\n", defined: "ab"},
	{id: "phi-pred", pre: "define i32 @f() {\na:\n\tbr label %b\nb:\n\t%x = phi i32 [ 1, %", post: " ]\n\tret i32 %x\n}\n", defined: "ab"},
	{id: "comdat", pre: "$a = comdat any\n@g = global i32 0, comdat($", post: ")\n", defined: "a"},
	{id: "blockaddress-func", pre: "define void @a() {\nb:\n\tret void\n}\n@g = global i8* blockaddress(@", post: ", %b)\n", defined: "a"},
	{id: "blockaddress-block", pre: "define void @f() {\na:\n\tret void\n}\n@g = global i8* blockaddress(@f, %", post: ")\n", defined: "a"},
	{id: "uselistorder", pre: "@a = global i32 0\n@b = global i32* @a\n@c = global i32* @a\nuselistorder i32* @", post: ", { 1, 0 }\n", defined: "abc"},
	{id: "uselistorder-blockaddress", pre: "define void @f() {\na:\n\tret void\n}\n@p = global i8* blockaddress(@f, %a)\n@q = global i8* blockaddress(@f, %a)\nuselistorder i8* blockaddress(@f, %", post: "), { 1, 0 }\n", defined: "a"},
	{id: "uselistorder-bb", pre: "define void @f(i1 %c) {\na:\n\tbr i1 %c, label %b, label %b\nb:\n\tret void\n}\nuselistorder_bb @f, %", post: ", { 1, 0 }\n", defined: "ab"},
	{id: "metadata-attachment", pre: "@g = global i32 0, !dbg !", post: "\n!0 = !{}\n!1 = !{}\n", defined: "01", digit: true},
	{id: "metadata-tuple", pre: "!0 = !{}\n!1 = !{!", post: "}\n", defined: "01", digit: true},
	{id: "metadata-named", pre: "!0 = !{}\n!nm = !{!", post: "}\n", defined: "0", digit: true},
	{id: "metadata-di-field", pre: "!0 = !DIFile(filename: \"a\", directory: \"b\")\n!1 = !{}\n!5 = !DISubrange(count: !", post: ")\n", defined: "01", digit: true},
	{id: "blockaddress-declared-func", pre: "declare void @a()\ndefine void @d() {\nb:\n\tret void\n}\n@g = global i8* blockaddress(@", post: ", %b)\n", defined: "d"},                        // @a is only declared: it has no block %b
	{id: "blockaddress-other-func-label", pre: "define void @f() {\na:\n\tret void\n}\ndefine void @g() {\nb:\n\tret void\n}\n@x = global i8* blockaddress(@f, %", post: ")\n", defined: "a"}, // %b exists, but in @g
	{id: "blockaddress-operand", pre: "define i8* @f() {\na:\n\t%p = getelementptr i8, i8* blockaddress(@f, %", post: "), i32 0\n\tret i8* %p\n}\n", defined: "a"},
	{id: "blockaddress-metadata", pre: "define void @f() {\na:\n\tret void\n}\n!0 = !{i8* blockaddress(@f, %", post: ")}\n", defined: "a"},
	{id: "local-other-func", pre: "define i32 @f(i32 %a) {\n\tret i32 %a\n}\ndefine i32 @g(i32 %b) {\n\tret i32 %", post: "\n}\n", defined: "b"}, // %a exists, but in @f
	{id: "label-other-func", pre: "define void @f() {\na:\n\tret void\n}\ndefine void @g() {\nb:\n\tbr label %", post: "\n}\n", defined: "b"},
	{id: "alias-target", pre: "@a = global i32 0\n@x = alias i32, i32* @", post: "\n", defined: "a"},
	{id: "ifunc-resolver", pre: "declare i32 ()* @a()\n@x = ifunc i32 (), i32 ()* ()* @", post: "\n", defined: "a"},
	{id: "personality", pre: "declare i32 @a(...)\ndefine void @f() personality i8* bitcast (i32 (...)* @", post: " to i8*) {\n\tret void\n}\n", defined: "a"},
	{id: "invoke-label", pre: "declare void @g()\ndefine void @f() personality i8* null {\na:\n\tinvoke void @g() to label %", post: " unwind label %b\nb:\n\t%l = landingpad i32 cleanup\n\tret void\n}\n", defined: "ab"},
	{id: "switch-label", pre: "define void @f(i32 %x) {\na:\n\tswitch i32 %x, label %b [ i32 1, label %", post: " ]\nb:\n\tret void\n}\n", defined: "ab"},
	{id: "type-in-signature", pre: "%a = type opaque\ndeclare void @f(%", post: "*)\n", defined: "a"},
	{id: "comdat-func", pre: "$a = comdat any\ndefine void @f() comdat($", post: ") {\n\tret void\n}\n", defined: "a"},
	{id: "metadata-func-attachment", pre: "define void @f() !dbg !", post: " {\n\tret void\n}\n!0 = distinct !DISubprogram(name: \"f\")\n", defined: "0", digit: true},
	{id: "metadata-inst-attachment", pre: "define void @f() {\n\tret void, !dbg !", post: "\n}\n!0 = !{}\n!1 = !{}\n", defined: "01", digit: true},
	// a faulty field of a function header that is followed by further, valid fields
	{id: "comdat-then-personality", pre: "$a = comdat any\ndeclare i32 @p(...)\ndefine void @f() comdat($", post: ") personality i8* bitcast (i32 (...)* @p to i8*) {\n\tret void\n}\n", defined: "a"},
	{id: "prefix-then-prologue", pre: "@a = global i32 0\n@z = global i32 1\ndefine void @f() prefix i32* @", post: " prologue i32* @z {\n\tret void\n}\n", defined: "a"},
	{id: "prologue-then-personality", pre: "@a = global i32 0\ndeclare i32 @p(...)\ndefine void @f() prologue i32* @", post: " personality i8* bitcast (i32 (...)* @p to i8*) {\n\tret void\n}\n", defined: "a"},
	{id: "comdat-then-prefix", pre: "$a = comdat any\n@z = global i32 1\ndefine void @f() comdat($", post: ") prefix i32* @z {\n\tret void\n}\n", defined: "a"},
	{id: "attrgroup", pre: "define void @f() #", post: " {\n\tret void\n}\nattributes #0 = { nounwind }\n", defined: "0", digit: true, accept: true},
	// a named type written inside an attribute (parameter, function, attribute group, call site)
	{id: "type-in-param-attr", pre: "%a = type { i32 }\ndeclare void @f(%a* byval(%", post: "))\n", defined: "a"},
	{id: "type-in-func-attr", pre: "%a = type { i32 }\ndeclare void @f() preallocated(%", post: ")\n", defined: "a"},
	{id: "type-in-attrgroup-attr", pre: "%a = type { i32 }\ndeclare void @f() #0\nattributes #0 = { preallocated(%", post: ") }\n", defined: "a"},
	{id: "type-in-call-attr", pre: "%a = type { i32 }\ndeclare void @g()\ndefine void @f() {\n\tcall void @g() preallocated(%", post: ")\n\tret void\n}\n", defined: "a"},
	{id: "type-in-call-arg-attr", pre: "%a = type { i32 }\ndeclare void @g(%a*)\ndefine void @f(%a* %p) {\n\tcall void @g(%a* sret(%", post: ") %p)\n\tret void\n}\n", defined: "a"},
}

var hC05UndefIDs = [...]string{"C05.type.undefined-is-error", "C05.type-alias.undefined-is-error", "C05.global.undefined-is-error", "C05.callee.undefined-is-error", "C05.local.undefined-is-error", "C05.label.undefined-is-error", "C05.phi-pred.undefined-is-error", "C05.comdat.undefined-is-error", "C05.blockaddress-func.undefined-is-error", "C05.blockaddress-block.undefined-is-error", "C05.uselistorder.undefined-is-error", "C05.uselistorder-blockaddress.undefined-is-error", "C05.uselistorder-bb.undefined-is-error", "C05.metadata-attachment.undefined-is-error", "C05.metadata-tuple.undefined-is-error", "C05.metadata-named.undefined-is-error", "C05.metadata-di-field.undefined-is-error", "C05.blockaddress-declared-func.undefined-is-error", "C05.blockaddress-other-func-label.undefined-is-error", "C05.blockaddress-operand.undefined-is-error", "C05.blockaddress-metadata.undefined-is-error", "C05.local-other-func.undefined-is-error", "C05.label-other-func.undefined-is-error", "C05.alias-target.undefined-is-error", "C05.ifunc-resolver.undefined-is-error", "C05.personality.undefined-is-error", "C05.invoke-label.undefined-is-error", "C05.switch-label.undefined-is-error", "C05.type-in-signature.undefined-is-error", "C05.comdat-func.undefined-is-error", "C05.metadata-func-attachment.undefined-is-error", "C05.metadata-inst-attachment.undefined-is-error", "C05.comdat-then-personality.undefined-is-error", "C05.prefix-then-prologue.undefined-is-error", "C05.prologue-then-personality.undefined-is-error", "C05.comdat-then-prefix.undefined-is-error", "C05.attrgroup.undefined-is-materialised", "C05.type-in-param-attr.undefined-is-error", "C05.type-in-func-attr.undefined-is-error", "C05.type-in-attrgroup-attr.undefined-is-error", "C05.type-in-call-attr.undefined-is-error", "C05.type-in-call-arg-attr.undefined-is-error"}
var hC05DefIDs = [...]string{"C05.type.defined-is-accepted", "C05.type-alias.defined-is-accepted", "C05.global.defined-is-accepted", "C05.callee.defined-is-accepted", "C05.local.defined-is-accepted", "C05.label.defined-is-accepted", "C05.phi-pred.defined-is-accepted", "C05.comdat.defined-is-accepted", "C05.blockaddress-func.defined-is-accepted", "C05.blockaddress-block.defined-is-accepted", "C05.uselistorder.defined-is-accepted", "C05.uselistorder-blockaddress.defined-is-accepted", "C05.uselistorder-bb.defined-is-accepted", "C05.metadata-attachment.defined-is-accepted", "C05.metadata-tuple.defined-is-accepted", "C05.metadata-named.defined-is-accepted", "C05.metadata-di-field.defined-is-accepted", "C05.blockaddress-declared-func.defined-is-accepted", "C05.blockaddress-other-func-label.defined-is-accepted", "C05.blockaddress-operand.defined-is-accepted", "C05.blockaddress-metadata.defined-is-accepted", "C05.local-other-func.defined-is-accepted", "C05.label-other-func.defined-is-accepted", "C05.alias-target.defined-is-accepted", "C05.ifunc-resolver.defined-is-accepted", "C05.personality.defined-is-accepted", "C05.invoke-label.defined-is-accepted", "C05.switch-label.defined-is-accepted", "C05.type-in-signature.defined-is-accepted", "C05.comdat-func.defined-is-accepted", "C05.metadata-func-attachment.defined-is-accepted", "C05.metadata-inst-attachment.defined-is-accepted", "C05.comdat-then-personality.defined-is-accepted", "C05.prefix-then-prologue.defined-is-accepted", "C05.prologue-then-personality.defined-is-accepted", "C05.comdat-then-prefix.defined-is-accepted", "C05.attrgroup.defined-is-accepted", "C05.type-in-param-attr.defined-is-accepted", "C05.type-in-func-attr.defined-is-accepted", "C05.type-in-attrgroup-attr.defined-is-accepted", "C05.type-in-call-attr.defined-is-accepted", "C05.type-in-call-arg-attr.defined-is-accepted"}

// VfC05_Undefined
//
//vf:unwind 300
//vf:shards 16
func VfC05_Undefined() {
	k := vfChoice("template", len(hC05Undef))
	t := hC05Undef[k]
	var name string
	if t.digit {
		name = hLetterIn("name", '0', '4')
	} else {
		name = hLetterIn("name", 'a', 'e')
	}
	src := t.pre + name + t.post
	isDef := false
	for i := 0; i < len(t.defined); i++ {
		isDef = vfOr(isDef, name[0] == t.defined[i])
	}
	m, err := ParseString("t.ll", src)
	vfReach("C05.undefined")
	vfObserveStr("src", src)
	if t.accept {
		vfAssert(hC05UndefIDs[k], vfAnd(err == nil, m != nil))
		return
	}
	vfAssert(hC05UndefIDs[k], vfImp(vfNot(isDef), vfAnd(err != nil, m == nil)))
	vfAssert(hC05DefIDs[k], vfImp(isDef, vfAnd(err == nil, m != nil)))
}

type hC05Dup struct {
	id   string
	a, b string // text around the two definition names: a + n1 + mid + n2 + b
	mid  string
	dig  bool
	seq  bool // numbered (unnamed) definitions: the first is 0, the second 0 (duplicate) or 1
}

var hC05Dups = []hC05Dup{
	{id: "global", a: "@", mid: " = global i32 0\n@", b: " = global i32 1\n"},
	{id: "global-func", a: "@", mid: " = global i32 0\ndeclare void @", b: "()\n"},
	{id: "type", a: "%", mid: " = type { i32 }\n%", b: " = type { i64 }\n"},
	{id: "comdat", a: "$", mid: " = comdat any\n$", b: " = comdat largest\n"},
	{id: "local", a: "define void @f() {\n\t%", mid: " = add i32 1, 1\n\t%", b: " = add i32 2, 2\n\tret void\n}\n"},
	{id: "param", a: "define void @f(i32 %", mid: ", i32 %", b: ") {\n\tret void\n}\n"},
	{id: "label", a: "define void @f() {\n", mid: ":\n\tbr label %z\n", b: ":\n\tbr label %z\nz:\n\tret void\n}\n"},
	{id: "metadata", a: "!", mid: " = !{}\n!", b: " = !{!\"x\"}\n", dig: true},
	// one namespace, different kinds of definition
	{id: "param-label", a: "define void @f(i32 %", mid: ") {\n", b: ":\n\tret void\n}\n"},
	{id: "label-inst", a: "define void @f() {\n", mid: ":\n\t%", b: " = add i32 1, 1\n\tret void\n}\n"},
	{id: "param-inst", a: "define void @f(i32 %", mid: ") {\n\t%", b: " = add i32 1, 1\n\tret void\n}\n"},
	{id: "inst-invoke", a: "declare i32 @g()\ndefine void @f() personality i8* null {\n\t%", mid: " = add i32 1, 1\n\t%", b: " = invoke i32 @g() to label %ok unwind label %lp\nok:\n\tret void\nlp:\n\t%l = landingpad i32 cleanup\n\tret void\n}\n"},
	{id: "global-number", a: "@", mid: " = global i32 0\n@", b: " = global i32 1\n", dig: true, seq: true},
	{id: "func-number", a: "declare void @", mid: "()\ndefine void @", b: "() {\n\tret void\n}\n", dig: true, seq: true},
	{id: "local-number", a: "define i32 @f(i32 %x) {\nentry:\n\t%", mid: " = add i32 %x, 1\n\t%", b: " = add i32 %x, 2\n\tret i32 %x\n}\n", dig: true, seq: true},
	{id: "global-alias", a: "@t = global i32 0\n@", mid: " = global i32 1\n@", b: " = alias i32, i32* @t\n"},
	{id: "func-ifunc", a: "declare void ()* @r()\ndeclare void @", mid: "()\n@", b: " = ifunc void (), void ()* ()* @r\n"},
	// parameters of a declaration (no body whose locals would be indexed)
	{id: "param-decl", a: "declare void @f(i32 %", mid: ", i32 %", b: ")\n"},
	// a body after an opaque definition of the same type (known finding: the
	// translator deliberately lets a body replace an earlier `opaque`)
	{id: "type-after-opaque", a: "%", mid: " = type opaque\n%", b: " = type { i32 }\n"},
}

var hC05DupIDs = [...]string{"C05.global.duplicate-is-error", "C05.global-func.duplicate-is-error", "C05.type.duplicate-is-error", "C05.comdat.duplicate-is-error", "C05.local.duplicate-is-error", "C05.param.duplicate-is-error", "C05.label.duplicate-is-error", "C05.metadata.duplicate-is-error", "C05.param-label.duplicate-is-error", "C05.label-inst.duplicate-is-error", "C05.param-inst.duplicate-is-error", "C05.inst-invoke.duplicate-is-error", "C05.global-number.duplicate-is-error", "C05.func-number.duplicate-is-error", "C05.local-number.duplicate-is-error", "C05.global-alias.duplicate-is-error", "C05.func-ifunc.duplicate-is-error", "C05.param-decl.duplicate-is-error", "C05.type-after-opaque.duplicate-is-error"}
var hC05DistinctIDs = [...]string{"C05.global.distinct-is-accepted", "C05.global-func.distinct-is-accepted", "C05.type.distinct-is-accepted", "C05.comdat.distinct-is-accepted", "C05.local.distinct-is-accepted", "C05.param.distinct-is-accepted", "C05.label.distinct-is-accepted", "C05.metadata.distinct-is-accepted", "C05.param-label.distinct-is-accepted", "C05.label-inst.distinct-is-accepted", "C05.param-inst.distinct-is-accepted", "C05.inst-invoke.distinct-is-accepted", "C05.global-number.distinct-is-accepted", "C05.func-number.distinct-is-accepted", "C05.local-number.distinct-is-accepted", "C05.global-alias.distinct-is-accepted", "C05.func-ifunc.distinct-is-accepted", "C05.param-decl.distinct-is-accepted", "C05.type-after-opaque.distinct-is-accepted"}

// VfC05_Duplicate
//
//vf:unwind 300
//vf:shards 16
func VfC05_Duplicate() {
	k := vfChoice("template", len(hC05Dups))
	t := hC05Dups[k]
	var n1, n2 string
	if t.dig {
		n1, n2 = hLetterIn("n1", '0', '3'), hLetterIn("n2", '0', '3')
	} else {
		n1, n2 = hLetterIn("n1", 'a', 'c'), hLetterIn("n2", 'a', 'c')
	}
	if t.seq {
		vfAssume(vfAnd(n1[0] == '0', n2[0] <= '1'))
	}
	src := t.a + n1 + t.mid + n2 + t.b
	m, err := ParseString("t.ll", src)
	vfReach("C05.duplicate")
	vfObserveStr("src", src)
	same := n1 == n2
	vfKnown("C05.type-redefined-after-opaque", vfAnd(t.id == "type-after-opaque", same))
	vfAssert(hC05DupIDs[k], vfImp(same, vfAnd(err != nil, m == nil)))
	vfAssert(hC05DistinctIDs[k], vfImp(vfNot(same), vfAnd(err == nil, m != nil)))
}

// hRename rewrites every occurrence of the one-letter (or one-digit) name
// `from` — after a sigil (@ % $ ! #) or as a label definition at the start of
// a line — to the name `to`.
func hRename(text string, from byte, to string) string {
	out := ""
	for i := 0; i < len(text); i++ {
		c := text[i]
		isName := false
		if c == from {
			nextOK := i+1 >= len(text) || !(text[i+1] >= 'a' && text[i+1] <= 'z' || text[i+1] >= '0' && text[i+1] <= '9' || text[i+1] == '_' || text[i+1] == '.')
			if i > 0 {
				p := text[i-1]
				if (p == '@' || p == '%' || p == '$' || p == '!' || p == '#') && nextOK {
					isName = true
				}
			}
			if i+1 < len(text) && text[i+1] == ':' && (i == 0 || text[i-1] == '\n') {
				isName = true
			}
		}
		if isName {
			out += to
		} else {
			out += string(c)
		}
	}
	return out
}

// VfC05_History: an undefined name stays an error whatever was parsed earlier
// in the process: a module that *defines* that very name at the same kind of
// site (the same template with a defined name renamed to it) is parsed first.
// sync.Pool, should the library use one, is modelled as handing out any pooled
// object or none.
//
//vf:unwind 300
//vf:shards 16
func VfC05_History() {
	k := vfChoice("template", len(hC05Undef))
	t := hC05Undef[k]
	if t.accept {
		vfCut("undefined attribute groups are materialised (documented exception)")
	}
	var name string
	if t.digit {
		name = hLetterIn("name", '6', '9')
	} else {
		name = hLetterIn("name", 'u', 'w')
	}
	// the earlier, valid module: the first defined name renamed to `name`
	d := t.defined[0]
	earlier := hRename(t.pre+string(d)+t.post, d, name)
	_, errE := ParseString("e.ll", earlier)
	src := t.pre + name + t.post
	m, err := ParseString("t.ll", src)
	vfReach("C05.history")
	vfObserveStr("earlier", earlier)
	vfObserveStr("src", src)
	vfAssert("C05.history.earlier-accepted", errE == nil)
	vfAssert("C05.history.undefined-is-still-error", vfAnd(err != nil, m == nil))
}

// VfC05_SpellingClasses: a numbered entity %N / @N and a named entity whose
// name is the digit string "N" are different entities (LLVM: `%7` is numbered
// type 7, `%"7"` the type named "7"; calibrated with llvm-as 14).  Each
// template defines only one of the two spellings and uses the other, with both
// digits chosen by the solver: the use is undefined whatever the digits are,
// so the input must be rejected, never bound to the other spelling's entity.
//
//vf:unwind 300
func VfC05_SpellingClasses() {
	d := hLetterIn("def", '0', '9')
	u := hLetterIn("use", '0', '9')
	src := ""
	switch vfChoice("template", 6) {
	case 0:
		src = "%" + d + " = type { i32 }\n@g = global %\"" + u + "\" zeroinitializer\n"
	case 1:
		src = "%\"" + d + "\" = type { i32 }\n@g = global %" + u + " zeroinitializer\n"
	case 2:
		vfAssume(d == "0") // unnamed globals are numbered from @0
		src = "@0 = global i32 1\n@g = global i32* @\"" + u + "\"\n"
	case 3:
		src = "@\"" + d + "\" = global i32 1\n@g = global i32* @" + u + "\n"
	case 4:
		vfAssume(d == "0")
		src = "define i32 @f(i32) {\nentry:\n\tret i32 %\"" + u + "\"\n}\n"
	default:
		src = "define void @f() {\n\"" + d + "\":\n\tbr label %" + u + "\n}\n"
	}
	vfPanicOK(false)
	m, err := ParseString("t.ll", src)
	vfReach("C05.spelling-classes")
	vfObserveStr("src", src)
	vfAssert("C05.spelling-classes.other-spelling-is-undefined", vfAnd(err != nil, m == nil))
}

// hC05GlobalEntity: the text of a top-level entity of the global namespace of
// kind k named n (@t and @r are defined by the caller).
func hC05GlobalEntity(k int, n string) string {
	switch k {
	case 0:
		return "@" + n + " = global i32 0\n"
	case 1:
		return "declare void @" + n + "()\n"
	case 2:
		return "define void @" + n + "() {\n\tret void\n}\n"
	case 3:
		return "@" + n + " = alias i32, i32* @t\n"
	case 4:
		return "@" + n + " = ifunc void (), void ()* ()* @r\n"
	}
	return "declare i32 @" + n + "(i32)\n" // a declaration with another signature
}

// VfC05_GlobalPairs: every ordered pair of kinds of definition in the global
// namespace (global variable, declaration, definition, alias, ifunc, a
// declaration with another signature): the same name twice is an error
// whatever the two kinds and their order are (LLVM has no forward
// declaration that a later definition may complete: `declare @f` followed by
// `define @f` is "invalid redefinition of function"), two names are accepted.
//
//vf:unwind 300
//vf:shards 12
func VfC05_GlobalPairs() {
	k1 := vfChoice("first", 6)
	k2 := vfChoice("second", 6)
	n1, n2 := hLetterIn("n1", 'a', 'c'), hLetterIn("n2", 'a', 'c')
	src := "@t = global i32 0\ndeclare void ()* @r()\n" + hC05GlobalEntity(k1, n1)
	// something may stand between the two, and a use of the name may follow
	if vfChoice("between", 2) == 1 {
		src += "@mid = global i8 1\n"
	}
	src += hC05GlobalEntity(k2, n2)
	m, err := ParseString("t.ll", src)
	vfReach("C05.global-pairs")
	vfObserveStr("src", src)
	same := n1 == n2
	vfAssert("C05.global-pairs.duplicate-is-error", vfImp(same, vfAnd(err != nil, m == nil)))
	vfAssert("C05.global-pairs.distinct-is-accepted", vfImp(vfNot(same), vfAnd(err == nil, m != nil)))
}
