//go:build verif

package asm

import (
	"math/big"

	"github.com/llir/llvm/ir"
	"github.com/llir/llvm/ir/constant"
	"github.com/llir/llvm/ir/enum"
	"github.com/llir/llvm/ir/types"
	"github.com/llir/llvm/ir/value"
)

// C03 (reduced, see DESIGN): IR built through the public constructors from
// well-typed operands is accepted by every constructor, every builder appends
// exactly the new instruction and sets parent links, printing never crashes,
// and the printed text is faithful: the library's own parser reads it back to
// a module that prints identically (the re-parse runs through the concolic
// front end on the symbolic text).  Bit width, names and constants symbolic.

type hC03 struct {
	m  *ir.Module
	f  *ir.Func
	b  *ir.Block
	n  int // instructions appended so far
	it *types.IntType
}

func (h *hC03) appended(id string) {
	h.n++
	vfAssert(id, len(h.b.Insts) == h.n)
}

func hC03Start(group string) *hC03 {
	w := uint64(vfByte("w"))
	vfAssume(vfAnd(w >= 2, w <= 9))
	it := types.NewInt(w)
	m := ir.NewModule()
	fname := hLetterIn("fname", 'a', 'e')
	f := m.NewFunc(fname+group, types.Void,
		ir.NewParam("x", it), ir.NewParam("y", it), ir.NewParam("p", types.NewPointer(it)),
		ir.NewParam("d", types.Double), ir.NewParam("v", types.NewVector(4, it)), ir.NewParam("c", types.I1))
	b := f.NewBlock(hLetterIn("bname", 'f', 'j'))
	vfAssert("C03.linkage.func-parent", vfAnd(f.Parent == m, len(m.Funcs) == 1))
	vfAssert("C03.linkage.block-parent", vfAnd(b.Parent == f, len(f.Blocks) == 1))
	return &hC03{m: m, f: f, b: b, it: it}
}

func hC03Finish(h *hC03) {
	vfReach("C03.built")
	s := h.m.String()
	vfObserveStr("printed", s)
	m2, err := ParseString("t.ll", s)
	vfAssert("C03.print.reparses", err == nil)
	if err != nil {
		return
	}
	vfAssert("C03.print.faithful", m2.String() == s)
	f2 := m2.Funcs[len(m2.Funcs)-1]
	vfAssert("C03.print.same-instruction-count", len(f2.Blocks[0].Insts) == len(h.b.Insts))
}

// VfC03_Arith: binary, bitwise, unary, compare, select, conversion.
//
//vf:unwind 400
//vf:steps 100000000
func VfC03_Arith() {
	h := hC03Start("a")
	b, it := h.b, h.it
	x, y, p, d, c := value.Value(h.f.Params[0]), value.Value(h.f.Params[1]), value.Value(h.f.Params[2]), value.Value(h.f.Params[3]), value.Value(h.f.Params[5])
	k := constant.NewInt(it, int64(vfByte("k")&1))
	b.NewAdd(x, k)
	h.appended("C03.linkage.appended")
	b.NewSub(x, y)
	b.NewMul(x, y)
	b.NewUDiv(x, y)
	b.NewSDiv(x, y)
	b.NewURem(x, y)
	b.NewSRem(x, y)
	b.NewShl(x, y)
	b.NewLShr(x, y)
	b.NewAShr(x, y)
	b.NewAnd(x, y)
	b.NewOr(x, y)
	b.NewXor(x, y)
	h.n += 12
	b.NewFAdd(d, d)
	b.NewFSub(d, d)
	b.NewFMul(d, d)
	b.NewFDiv(d, d)
	b.NewFRem(d, d)
	b.NewFNeg(d)
	h.n += 6
	cmp := b.NewICmp(enum.IPredSLT, x, y)
	b.NewFCmp(enum.FPredOLT, d, d)
	b.NewSelect(cmp, x, y)
	b.NewSelect(c, x, y)
	h.n += 4
	wide := b.NewZExt(x, types.I64)
	b.NewSExt(x, types.I64)
	b.NewTrunc(wide, it) // well-typed: i64 -> iW with W <= 9
	b.NewFPTrunc(d, types.Float)
	fl := b.NewFPExt(constant.NewFloat(types.Float, 1), types.Double)
	b.NewFPToUI(fl, it)
	b.NewFPToSI(d, it)
	b.NewUIToFP(x, types.Double)
	b.NewSIToFP(x, types.Double)
	pi := b.NewPtrToInt(p, types.I64)
	b.NewIntToPtr(pi, types.NewPointer(it))
	b.NewBitCast(p, types.I8Ptr)
	as := types.NewPointer(it)
	as.AddrSpace = 1
	b.NewAddrSpaceCast(p, as)
	h.n += 13
	vfAssert("C03.linkage.all-appended", len(b.Insts) == h.n)
	b.NewRet(nil)
	vfAssert("C03.linkage.term-set", b.Term != nil)
	hC03Finish(h)
}

// VfC03_Memory: memory, vector, aggregate, other.
//
//vf:unwind 400
//vf:steps 100000000
func VfC03_Memory() {
	h := hC03Start("m")
	b, it := h.b, h.it
	x, p, v := value.Value(h.f.Params[0]), value.Value(h.f.Params[2]), value.Value(h.f.Params[4])
	one := constant.NewInt(types.I32, 1)
	al := b.NewAlloca(it)
	h.appended("C03.linkage.appended")
	b.NewStore(x, al) // well-typed: iW into iW*
	ld := b.NewLoad(it, p)
	b.NewFence(enum.AtomicOrderingAcquire)
	b.NewCmpXchg(p, x, ld, enum.AtomicOrderingMonotonic, enum.AtomicOrderingMonotonic)
	b.NewAtomicRMW(enum.AtomicOpAdd, p, x, enum.AtomicOrderingSequentiallyConsistent)
	h.n += 5
	st := types.NewStruct(it, types.NewArray(2, types.I8), types.NewStruct(types.I8, types.I64, types.NewStruct(types.Float, types.I16)))
	sp := b.NewAlloca(st)
	b.NewGetElementPtr(st, sp, constant.NewInt(types.I32, 0), one, one)
	agg := b.NewLoad(st, sp)
	b.NewExtractValue(agg, 1, 0)
	b.NewInsertValue(agg, x, 0)
	// index paths whose indices differ from level to level
	ev := b.NewExtractValue(agg, 2, 0)         // i8
	b.NewAdd(ev, constant.NewInt(types.I8, 1)) // the use prints the result type
	ev2 := b.NewExtractValue(agg, 2, 2, 1)     // i16
	b.NewAdd(ev2, constant.NewInt(types.I16, 1))
	b.NewInsertValue(agg, constant.NewInt(types.I64, 5), 2, 1) // well-typed: i64 into field 2.1
	b.NewInsertValue(agg, constant.NewInt(types.I16, 5), 2, 2, 1)
	h.n += 11
	e := b.NewExtractElement(v, one)
	iv := b.NewInsertElement(v, e, one)
	mask := constant.NewZeroInitializer(types.NewVector(4, types.I32))
	b.NewShuffleVector(v, iv, mask)
	h.n += 3
	callee := h.m.NewFunc("callee", it, ir.NewParam("a", it))
	call := b.NewCall(callee, x)
	b.NewPhi(ir.NewIncoming(call, b))
	h.n += 2
	vfAssert("C03.linkage.all-appended", len(b.Insts) == h.n)
	b.NewRet(nil)
	// the callee was added after f: f is not the last function; move it last
	h.m.Funcs = []*ir.Func{callee, h.f}
	hC03Finish(h)
}

// VfC03_Terminators: br, condbr, switch, indirectbr, invoke/landingpad,
// resume, unreachable, ret with value.
//
//vf:unwind 400
//vf:steps 100000000
func VfC03_Terminators() {
	w := uint64(vfByte("w"))
	vfAssume(vfAnd(w >= 2, w <= 9))
	it := types.NewInt(w)
	m := ir.NewModule()
	callee := m.NewFunc("callee", types.Void)
	f := m.NewFunc(hLetterIn("fname", 'a', 'e'), it, ir.NewParam("x", it), ir.NewParam("c", types.I1))
	f.Personality = callee
	x, c := value.Value(f.Params[0]), value.Value(f.Params[1])
	entry := f.NewBlock("entry")
	b1, b2, b3, b4, b5, lp := f.NewBlock("b1"), f.NewBlock("b2"), f.NewBlock("b3"), f.NewBlock("b4"), f.NewBlock("b5"), f.NewBlock("lp")
	entry.NewCondBr(c, b1, b2)
	b1.NewSwitch(x, b2, ir.NewCase(constant.NewInt(it, int64(vfByte("k")&1)), b3), ir.NewCase(constant.NewInt(it, 2), b4))
	b2.NewBr(b3)
	b3.NewInvoke(callee, nil, b4, lp)
	b4.NewRet(x)
	b5.NewUnreachable()
	lpt := types.NewStruct(types.I8Ptr, types.I32)
	pad := lp.NewLandingPad(lpt)
	pad.Cleanup = true
	lp.NewResume(pad)
	vfAssert("C03.linkage.blocks", vfAnd(len(f.Blocks) == 7, lp.Parent == f))
	vfAssert("C03.linkage.terms", vfAnd(vfAnd(entry.Term != nil, b1.Term != nil), vfAnd(b3.Term != nil, lp.Term != nil)))
	vfReach("C03.built")
	s := m.String()
	vfObserveStr("printed", s)
	m2, err := ParseString("t.ll", s)
	vfAssert("C03.print.reparses", err == nil)
	if err != nil {
		return
	}
	vfAssert("C03.print.faithful", m2.String() == s)
	vfAssert("C03.print.same-block-count", len(m2.Funcs[1].Blocks) == 7)
}

// VfC03_TypeChecks: a well-typed construction is never rejected by a
// constructor's own type check (trunc, store, extractvalue, insertvalue).
//
//vf:unwind 200
func VfC03_TypeChecks() {
	wf, wt := uint64(vfByte("from.bits")), uint64(vfByte("to.bits"))
	vfAssume(vfAnd(wt >= 1, wf > wt)) // LLVM: the source must be wider than the target
	from, to := types.NewInt(wf), types.NewInt(wt)
	n := uint64(vfByte("len"))
	vfAssume(n >= 1)
	scal := vfBool("scalable")
	vfReach("C03.typechecks")
	ir.NewTrunc(ir.NewParam("x", from), to)
	vf, vt := &types.VectorType{Len: n, ElemType: from, Scalable: scal}, &types.VectorType{Len: n, ElemType: to, Scalable: scal}
	ir.NewTrunc(ir.NewParam("v", vf), vt)
	as := types.AddrSpace(vfByte("as"))
	ir.NewStore(ir.NewParam("x", from), ir.NewParam("p", &types.PointerType{ElemType: from, AddrSpace: as}))
	ir.NewStore(ir.NewParam("v", vf), ir.NewParam("p", &types.PointerType{ElemType: vf, AddrSpace: as}))
	al := uint64(vfByte("alen"))
	vfAssume(al >= 3)
	agg := types.NewStruct(from, types.NewArray(al, to))
	ir.NewExtractValue(ir.NewParam("a", agg), 1, 2)
	ir.NewInsertValue(ir.NewParam("a", agg), ir.NewParam("e", to), 1, 2)
	// floating-point conversions between every pair of kinds ordered by width
	// (half 16 < float 32 < double 64 < x86_fp80 80 < fp128 128; ppc_fp128 is
	// 128 bits too and is only converted from / to the narrower kinds)
	kinds := [...]*types.FloatType{types.Half, types.Float, types.Double, types.X86_FP80, types.FP128, types.PPC_FP128}
	for i := 0; i < len(kinds); i++ {
		for j := i + 1; j < len(kinds); j++ {
			if i == 4 && j == 5 {
				continue
			}
			ir.NewFPExt(ir.NewParam("n", kinds[i]), kinds[j])
			ir.NewFPTrunc(ir.NewParam("w", kinds[j]), kinds[i])
			ir.NewFPExt(ir.NewParam("nv", &types.VectorType{Len: n, ElemType: kinds[i], Scalable: scal}), &types.VectorType{Len: n, ElemType: kinds[j], Scalable: scal})
		}
		ir.NewFPToSI(ir.NewParam("f", kinds[i]), to)
		ir.NewUIToFP(ir.NewParam("i", from), kinds[i])
	}
	ir.NewZExt(ir.NewParam("z", to), from)
	ir.NewSExt(ir.NewParam("s", to), from)
	ir.NewPtrToInt(ir.NewParam("p", &types.PointerType{ElemType: from, AddrSpace: as}), to)
	ir.NewIntToPtr(ir.NewParam("q", to), &types.PointerType{ElemType: from, AddrSpace: as})
	vfAssert("C03.constructors.accept-well-typed", true)
}

// ---------------------------------------------------------------------------
// Structural faithfulness (generated comparator, see zz_vf_c03_gen.go): the
// constructed function and the re-parse of its printed text agree instruction
// by instruction on dynamic type, result name and type, every operand (type
// and identifier) and every flag/enum/alignment field; and this still holds
// after any single-field variation (one flag set, one enum member chosen, ...)
// of any one instruction of the program.

// hC03Targets lists the instructions and terminators of f that have at least
// one generated variation, in layout order.
func hC03All(f *ir.Func) []interface{} {
	var all []interface{}
	for _, b := range f.Blocks {
		for _, i := range b.Insts {
			all = append(all, i)
		}
		if b.Term != nil {
			all = append(all, b.Term)
		}
	}
	return all
}

func hC03Deep(m *ir.Module, f *ir.Func) {
	all := hC03All(f)
	var tg []interface{}
	var cum []int
	total := 0
	for _, x := range all {
		if n := hGenNumVary(x); n > 0 {
			tg = append(tg, x)
			total += n
			cum = append(cum, total)
		}
	}
	// variation 0 = the program as constructed
	v := vfChoice("variation", total+1)
	if v > 0 {
		v--
		for i, x := range tg {
			if v < cum[i] {
				k := v
				if i > 0 {
					k = v - cum[i-1]
				}
				hGenVary(x, k)
				break
			}
		}
	}
	vfReach("C03.deep.built")
	s := m.String()
	vfObserveStr("printed", s)
	// LLVM validity that the library's own parser does not enforce: an
	// instruction or terminator of type void is printed without a result
	// ("instructions returning void cannot have a name"), a value with one
	for _, x := range all {
		tv, isValue := x.(interface{ Type() types.Type })
		ls, hasText := x.(interface{ LLString() string })
		if isValue && hasText {
			text := ls.LLString()
			named := len(text) > 0 && text[0] == '%'
			vfAssert("C03.deep.result-is-printed-iff-the-type-is-not-void", named == !types.Equal(tv.Type(), types.Void))
		}
	}
	m2, err := ParseString("t.ll", s)
	vfAssert("C03.deep.reparses", err == nil)
	if err != nil {
		return
	}
	var f2 *ir.Func
	for _, g := range m2.Funcs {
		if vfEqStr(g.Name(), f.Name()) {
			f2 = g
		}
	}
	vfAssert("C03.deep.function-found", f2 != nil)
	if f2 == nil {
		return
	}
	all2 := hC03All(f2)
	vfAssert("C03.deep.same-count", len(all2) == len(all))
	if len(all2) != len(all) {
		return
	}
	for i := range all {
		vfAssert("C03.deep.same-instruction", hGenSame(all[i], all2[i]))
	}
	vfAssert("C03.deep.fixpoint", m2.String() == s)
}

// hC03Arith, hC03Mem, hC03Terms, hC03Funclets build the four programs; between
// them they call every instruction and terminator constructor.

// hC03ProgArith builds the program and hands it to after.
func hC03ProgArith(after func(*ir.Module, *ir.Func)) {
	m := ir.NewModule()
	it := types.I32
	f := m.NewFunc(hLetterIn("fname", 'a', 'e'), types.Void,
		ir.NewParam("x", it), ir.NewParam("y", it), ir.NewParam("p", types.NewPointer(it)),
		ir.NewParam("d", types.Double), ir.NewParam("v", types.NewVector(4, it)), ir.NewParam("c", types.I1))
	b := f.NewBlock("entry")
	x, y, p, d, c := value.Value(f.Params[0]), value.Value(f.Params[1]), value.Value(f.Params[2]), value.Value(f.Params[3]), value.Value(f.Params[5])
	b.NewAdd(x, constant.NewInt(it, int64(vfByte("k")&7))) // symbolic constant operand
	b.NewSub(x, y)
	b.NewMul(x, y)
	b.NewUDiv(x, y)
	b.NewSDiv(x, y)
	b.NewURem(x, y)
	b.NewSRem(x, y)
	b.NewShl(x, y)
	b.NewLShr(x, y)
	b.NewAShr(x, y)
	b.NewAnd(x, y)
	b.NewOr(x, y)
	b.NewXor(x, y)
	b.NewFAdd(d, d)
	b.NewFSub(d, d)
	b.NewFMul(d, d)
	b.NewFDiv(d, d)
	b.NewFRem(d, d)
	b.NewFNeg(d)
	cmp := b.NewICmp(enum.IPredSLT, x, y)
	b.NewFCmp(enum.FPredOLT, d, d)
	b.NewSelect(cmp, d, d)
	b.NewSelect(c, x, y)
	wide := b.NewZExt(x, types.I64)
	b.NewSExt(x, types.I64)
	b.NewTrunc(wide, types.I8)
	b.NewFPTrunc(d, types.Float)
	fl := b.NewFPExt(constant.NewFloat(types.Float, 1), types.Double)
	b.NewFPToUI(fl, it)
	b.NewFPToSI(d, it)
	b.NewUIToFP(x, types.Double)
	b.NewSIToFP(x, types.Double)
	pi := b.NewPtrToInt(p, types.I64)
	b.NewIntToPtr(pi, types.NewPointer(it))
	b.NewBitCast(p, types.I8Ptr)
	as := types.NewPointer(it)
	as.AddrSpace = 1
	b.NewAddrSpaceCast(p, as)
	b.Insts = append(b.Insts, ir.NewInstFreeze(x)) // no builder method exists for freeze
	b.NewRet(nil)
	after(m, f)
}

//vf:unwind 600
//vf:steps 200000000
//vf:shards 16
func VfC03_DeepArith() { hC03ProgArith(hC03Deep) }

// hC03ProgMemory builds the program and hands it to after.
func hC03ProgMemory(after func(*ir.Module, *ir.Func)) {
	m := ir.NewModule()
	it := types.I32
	callee := m.NewFunc("callee", types.Double, ir.NewParam("a", it))
	vcallee := m.NewFunc("vcallee", it, ir.NewParam("a", it))
	vcallee.Sig.Variadic = true
	vvoid := m.NewFunc("vvoid", types.Void, ir.NewParam("a", it))
	vvoid.Sig.Variadic = true
	f := m.NewFunc(hLetterIn("fname", 'a', 'e'), types.Void,
		ir.NewParam("x", it), ir.NewParam("p", types.NewPointer(it)), ir.NewParam("v", types.NewVector(4, it)), ir.NewParam("d", types.Double), ir.NewParam("va", types.I8Ptr), ir.NewParam("ps", types.NewPointer(types.NewStruct(it, types.NewArray(2, types.I8), types.NewStruct(types.I8, types.I64)))), ir.NewParam("arr", types.NewPointer(types.NewArray(4, types.I32))))
	b := f.NewBlock("entry")
	x, p, v, d, va := value.Value(f.Params[0]), value.Value(f.Params[1]), value.Value(f.Params[2]), value.Value(f.Params[3]), value.Value(f.Params[4])
	one := constant.NewInt(types.I32, 1)
	al := b.NewAlloca(it)
	b.NewStore(x, al)
	ld := b.NewLoad(it, p)
	b.NewFence(enum.AtomicOrderingAcquire)
	b.NewCmpXchg(p, x, ld, enum.AtomicOrderingMonotonic, enum.AtomicOrderingMonotonic)
	b.NewAtomicRMW(enum.AtomicOpAdd, p, x, enum.AtomicOrderingSequentiallyConsistent)
	st := types.NewStruct(it, types.NewArray(2, types.I8), types.NewStruct(types.I8, types.I64))
	sp := b.NewAlloca(st)
	// (the getelementptr is taken from a parameter: its cached result type
	// depends on the type of its base, which a later variation of the alloca's
	// address space would change under it)
	b.NewGetElementPtr(st, f.Params[5], constant.NewInt(types.I32, 0), one, one)
	agg := b.NewLoad(st, sp)
	b.NewExtractValue(agg, 1, 0)
	b.NewInsertValue(agg, x, 0)
	b.NewInsertValue(agg, constant.NewInt(types.I64, int64(vfByte("k")&7)), 2, 1)
	// getelementptr with vector-typed constant indices that are not vector
	// literals: the result is a vector of pointers (used below, so that its
	// type is printed)
	arrT := types.NewArray(4, types.I32)
	i64v := types.NewVector(2, types.I64)
	gz := b.NewGetElementPtr(arrT, f.Params[6], constant.NewInt(types.I64, 0), constant.NewZeroInitializer(i64v))
	b.NewExtractElement(gz, one)
	gu := b.NewGetElementPtr(arrT, f.Params[6], constant.NewUndef(i64v), constant.NewInt(types.I64, 1))
	b.NewExtractElement(gu, one)
	g0 := b.NewGetElementPtr(arrT, f.Params[6]) // no indices (valid LLVM)
	b.NewLoad(arrT, g0)
	e := b.NewExtractElement(v, one)
	iv := b.NewInsertElement(v, e, one)
	b.NewShuffleVector(v, iv, constant.NewZeroInitializer(types.NewVector(4, types.I32)))
	call := b.NewCall(callee, x)
	b.NewCall(vcallee, x, d)
	b.NewCall(vvoid, x, d) // variadic and void: printed with its signature, without a result
	b.NewPhi(ir.NewIncoming(call, b))
	b.NewVAArg(va, it)
	b.NewRet(nil)
	after(m, f)
}

//vf:unwind 600
//vf:steps 200000000
//vf:shards 16
func VfC03_DeepMemory() { hC03ProgMemory(hC03Deep) }

// hC03ProgTerminators builds the program and hands it to after.
func hC03ProgTerminators(after func(*ir.Module, *ir.Func)) {
	m := ir.NewModule()
	it := types.I32
	callee := m.NewFunc("callee", types.Void)
	f := m.NewFunc(hLetterIn("fname", 'a', 'e'), it, ir.NewParam("x", it), ir.NewParam("c", types.I1), ir.NewParam("t", types.I8Ptr))
	f.Personality = callee
	x, c, t := value.Value(f.Params[0]), value.Value(f.Params[1]), value.Value(f.Params[2])
	entry := f.NewBlock("entry")
	b1, b2, b3, b4, b5, b6, b7, lp := f.NewBlock("b1"), f.NewBlock("b2"), f.NewBlock("b3"), f.NewBlock("b4"), f.NewBlock("b5"), f.NewBlock("b6"), f.NewBlock("b7"), f.NewBlock("lp")
	entry.NewCondBr(c, b1, b2)
	b1.NewSwitch(x, b2, ir.NewCase(constant.NewInt(it, int64(vfByte("k")&3)), b3), ir.NewCase(constant.NewInt(it, 4), b4))
	b2.NewBr(b3)
	b3.NewInvoke(callee, nil, b4, lp)
	b4.NewRet(x)
	b5.NewUnreachable()
	b6.NewIndirectBr(t, b4, b5)
	b7.NewCallBr(ir.NewInlineAsm(types.NewPointer(types.NewFunc(types.Void)), "", ""), nil, b4, b5)
	pad := lp.NewLandingPad(types.NewStruct(types.I8Ptr, types.I32))
	pad.Cleanup = true
	lp.NewResume(pad)
	after(m, f)
}

//vf:unwind 600
//vf:steps 200000000
//vf:shards 16
func VfC03_DeepTerminators() { hC03ProgTerminators(hC03Deep) }

// hC03ProgFunclets builds the program and hands it to after.
func hC03ProgFunclets(after func(*ir.Module, *ir.Func)) {
	m := ir.NewModule()
	callee := m.NewFunc("callee", types.Void)
	f := m.NewFunc(hLetterIn("fname", 'a', 'e'), types.Void)
	f.Personality = callee
	entry, ok, cs, cp, cl := f.NewBlock("entry"), f.NewBlock("ok"), f.NewBlock("cs"), f.NewBlock("cp"), f.NewBlock("cl")
	entry.NewInvoke(callee, nil, ok, cs)
	ok.NewInvoke(callee, nil, ok, cl)
	sw := cs.NewCatchSwitch(constant.None, []*ir.Block{cp}, nil)
	pad := cp.NewCatchPad(sw, constant.NewNull(types.I8Ptr))
	cp.NewCatchRet(pad, ok)
	cpad := cl.NewCleanupPad(constant.None)
	cl.NewCleanupRet(cpad, nil)
	after(m, f)
}

//vf:unwind 600
//vf:steps 200000000
//vf:shards 16
func VfC03_DeepFunclets() { hC03ProgFunclets(hC03Deep) }

// VfC03_DeepModule: module-level entities (global variables, alias, ifunc,
// declared and defined functions), each one named or unnamed (forked), built
// through the module builder methods; the printed text is accepted by the
// parser and the re-parsed module has the same entities with the same
// identifiers, types and initialisers, in the same lists.
//
//vf:unwind 600
//vf:steps 200000000
//vf:shards 16
func VfC03_DeepModule() {
	mask := vfChoice("unnamed.mask", 64) // bit i set: entity i is unnamed
	nm := func(i int, s string) string {
		if mask>>uint(i)&1 == 1 {
			return ""
		}
		return s
	}
	a := hLetterIn("a", 'a', 'e')
	m := ir.NewModule()
	// optional parts are exported fields set after construction: an address
	// space on a global variable / on a function, before their first use
	asOf := vfChoice("addrspace.of", 3)
	g1 := m.NewGlobalDef(nm(0, a+"1"), constant.NewInt(types.I32, int64(vfByte("k")&7)))
	if asOf == 1 {
		g1.AddrSpace = 3
	}
	if vfChoice("comdat", 2) == 1 {
		// a comdat whose name is the number an unnamed first global receives
		// (only a *named* global may use the bare `comdat` form)
		cd := &ir.ComdatDef{Name: "0", Kind: enum.SelectionKindAny}
		m.ComdatDefs = append(m.ComdatDefs, cd)
		g1.Comdat = cd
	}
	g2 := m.NewGlobalDef(nm(1, a+"2"), g1)
	decl := m.NewFunc(nm(2, a+"3"), types.NewPointer(types.NewFunc(types.I32)))
	if asOf == 2 {
		decl.AddrSpace = 2
		m.NewGlobalDef("fnptr", decl)
	}
	def := m.NewFunc(nm(3, a+"4"), types.I32, ir.NewParam("", types.I32))
	b := def.NewBlock("")
	v := b.NewAdd(def.Params[0], constant.NewInt(types.I32, 1))
	ld := b.NewLoad(types.I32, g1)
	// a call of the declared function (which may live in address space 2): LLVM
	// requires the call to name the callee's address space (calibrated with
	// llvm-as 14: "defined with type 'T addrspace(2)*' but expected 'T*'")
	cl := b.NewCall(decl)
	if pt, ok := decl.Type().(*types.PointerType); ok {
		vfAssert("C03.deepmodule.call-addrspace-is-the-callee's", cl.AddrSpace == pt.AddrSpace)
	}
	b.NewRet(b.NewAdd(v, ld))
	al := m.NewAlias(nm(4, a+"5"), g1)
	ifn := m.NewIFunc(nm(5, a+"6"), decl)
	// LLVM's verifier ("IFunc resolver has incorrect type", calibrated with
	// llvm-as 14): the resolver returns a pointer to the ifunc's function type,
	// i.e. the ifunc's own (pointer) type is the resolver's return type
	vfAssert("C03.deepmodule.ifunc-type-is-resolved-function-type", hGenTy(ifn.Type(), decl.Sig.RetType))
	_ = g2
	vfReach("C03.deepmodule.built")
	s := m.String()
	vfObserveStr("printed", s)
	m2, err := ParseString("t.ll", s)
	vfAssert("C03.deepmodule.reparses", err == nil)
	if err != nil {
		return
	}
	vfAssert("C03.deepmodule.same-shape", vfAnd(vfAnd(len(m2.Globals) == len(m.Globals), len(m2.Funcs) == 2), vfAnd(len(m2.Aliases) == 1, len(m2.IFuncs) == 1)))
	if len(m2.Globals) != len(m.Globals) || len(m2.Funcs) != 2 || len(m2.Aliases) != 1 || len(m2.IFuncs) != 1 {
		return
	}
	for i := range m.Globals {
		x, y := m.Globals[i], m2.Globals[i]
		vfAssert("C03.deepmodule.global", vfAnd(vfAnd(vfEqStr(x.Ident(), y.Ident()), hGenTy(x.Type(), y.Type())), vfAnd(hGenTy(x.ContentType, y.ContentType), hGenVal(x.Init, y.Init))))
	}
	for i := range m.Funcs {
		x, y := m.Funcs[i], m2.Funcs[i]
		vfAssert("C03.deepmodule.func", vfAnd(vfAnd(vfEqStr(x.Ident(), y.Ident()), hGenTy(x.Type(), y.Type())), vfAnd(hGenTy(x.Sig, y.Sig), len(x.Blocks) == len(y.Blocks))))
	}
	vfAssert("C03.deepmodule.alias", vfAnd(vfEqStr(al.Ident(), m2.Aliases[0].Ident()), hGenVal(al.Aliasee, m2.Aliases[0].Aliasee)))
	vfAssert("C03.deepmodule.ifunc", vfAnd(vfEqStr(ifn.Ident(), m2.IFuncs[0].Ident()), hGenVal(ifn.Resolver, m2.IFuncs[0].Resolver)))
	all, all2 := hC03All(def), hC03All(m2.Funcs[1])
	vfAssert("C03.deepmodule.same-count", len(all) == len(all2))
	if len(all) == len(all2) {
		for i := range all {
			vfAssert("C03.deepmodule.same-instruction", hGenSame(all[i], all2[i]))
		}
	}
	vfAssert("C03.deepmodule.fixpoint", m2.String() == s)
}

// VfC03_Constants: integer constants of wide types built with the
// constructors (constant.NewInt and, for values outside int64, constant.Int
// with a math/big value) as a global initialiser and as an instruction
// operand: the printed text must be read back to exactly the constructed
// value.  The value is a symbolic quantity in one of the regions where
// machine-word shortcuts go wrong: any int64 as is (types i64 and i128), or a
// symbolic offset of up to 2^20 either way from 2^63, 2^64 or -2^63, or such an
// offset shifted left by 32 bits (types i65 and i128).
//
//vf:unwind 400
//vf:steps 100000000
//vf:shards 4
func VfC03_Constants() {
	a := int64(vfInt("a"))
	region := vfChoice("region", 5)
	if region != 0 {
		vfAssume(vfAnd(a >= -(1<<20), a <= 1<<20))
	}
	x := big.NewInt(a)
	switch region {
	case 1:
		x.Add(x, new(big.Int).Lsh(big.NewInt(1), 63))
	case 2:
		x.Add(x, new(big.Int).Lsh(big.NewInt(1), 64))
	case 3:
		x.Add(x, new(big.Int).Lsh(big.NewInt(1), 63))
		x.Neg(x)
	case 4:
		x.Lsh(x, 32)
	}
	var it *types.IntType
	switch vfChoice("type", 3) {
	case 0:
		if region != 0 {
			return
		}
		it = types.I64
	case 1:
		if region == 0 {
			return
		}
		// i65 holds -2^64 .. 2^65-1 in LLVM's reading (signed or unsigned)
		it = types.NewInt(65)
		vfAssume(vfAnd(x.Cmp(new(big.Int).Lsh(big.NewInt(1), 65)) < 0, x.Cmp(new(big.Int).Neg(new(big.Int).Lsh(big.NewInt(1), 64))) >= 0))
	default:
		it = types.NewInt(128)
	}
	var c *constant.Int
	if region == 0 {
		c = constant.NewInt(it, a)
	} else {
		c = &constant.Int{Typ: it, X: x}
	}
	m := ir.NewModule()
	m.NewGlobalDef("g", c)
	f := m.NewFunc("f", it, ir.NewParam("p", it))
	b := f.NewBlock("entry")
	b.NewRet(b.NewAdd(f.Params[0], c))
	vfReach("C03.constants.built")
	s := m.String()
	vfObserveStr("printed", s)
	m2, err := ParseString("t.ll", s)
	vfAssert("C03.constants.reparses", err == nil)
	if err != nil {
		return
	}
	g2, ok := m2.Globals[0].Init.(*constant.Int)
	vfAssert("C03.constants.global-is-int", ok)
	if ok {
		vfAssert("C03.constants.global-value", g2.X.Cmp(x) == 0)
	}
	add, ok2 := m2.Funcs[0].Blocks[0].Insts[0].(*ir.InstAdd)
	vfAssert("C03.constants.operand-is-add", ok2)
	if ok2 {
		k2, ok3 := add.Y.(*constant.Int)
		vfAssert("C03.constants.operand-is-int", ok3)
		if ok3 {
			vfAssert("C03.constants.operand-value", k2.X.Cmp(x) == 0)
		}
	}
}

// VfC03_Names: a value named through the constructors keeps its name whatever
// the lexical class of the name: a letter, one digit, "0" and a digit, "-" and
// a digit, a digit and a letter, a name with a space, with a quote or a
// backslash (the characters are symbolic within the class).  Sites: block
// (NewBlock), instruction result (SetName), parameter (NewParam), global
// (NewGlobalDef), function (NewFunc).  The named entity is named (not an
// unnamed value with an ID), the module prints, the text is accepted and the
// entity read back has exactly that name.
//
//vf:unwind 400
//vf:shards 5
func VfC03_Names() {
	site := vfChoice("site", 5)
	c := vfString("c", 1)
	var name string
	switch vfChoice("class", 7) {
	case 0:
		vfAssume(vfAnd(c[0] >= 'r', c[0] <= 'z'))
		name = c
	case 1:
		vfAssume(vfAnd(c[0] >= '0', c[0] <= '9'))
		name = c
	case 2:
		vfAssume(vfAnd(c[0] >= '0', c[0] <= '9'))
		name = "0" + c
	case 3:
		vfAssume(vfAnd(c[0] >= '0', c[0] <= '9'))
		name = "-" + c
	case 4:
		vfAssume(vfAnd(c[0] >= '0', c[0] <= '9'))
		name = c + "x"
	case 5:
		vfAssume(vfAnd(c[0] >= 'r', c[0] <= 'z'))
		name = c + " " + c
	default:
		vfAssume(vfOr(c[0] == '"', c[0] == '\\'))
		name = "q" + c
	}
	m := ir.NewModule()
	gname, fname, pname, bname, iname := "g", "f", "p", "b", "i"
	switch site {
	case 0:
		bname = name
	case 1:
		iname = name
	case 2:
		pname = name
	case 3:
		gname = name
	default:
		fname = name
	}
	g := m.NewGlobalDef(gname, constant.NewInt(types.I32, 1))
	f := m.NewFunc(fname, types.I32, ir.NewParam(pname, types.I32))
	b := f.NewBlock(bname)
	i := b.NewAdd(f.Params[0], constant.NewInt(types.I32, 2))
	i.SetName(iname)
	b.NewRet(i)
	vfReach("C03.names.built")
	vfAssert("C03.names.entity-is-named", vfAnd(vfAnd(vfNot(b.IsUnnamed()), vfNot(i.IsUnnamed())), vfAnd(vfNot(f.Params[0].IsUnnamed()), vfAnd(vfNot(g.IsUnnamed()), vfNot(f.IsUnnamed())))))
	vfAssert("C03.names.name-kept", vfAnd(vfAnd(b.LocalName == bname, i.LocalName == iname), vfAnd(f.Params[0].LocalName == pname, vfAnd(g.GlobalName == gname, f.GlobalName == fname))))
	s := m.String()
	vfObserveStr("printed", s)
	m2, err := ParseString("t.ll", s)
	vfAssert("C03.names.reparses", err == nil)
	if err != nil {
		return
	}
	f2 := m2.Funcs[0]
	b2 := f2.Blocks[0]
	i2, ok := b2.Insts[0].(*ir.InstAdd)
	vfAssert("C03.names.read-back", vfAnd(vfAnd(b2.LocalName == bname, ok && i2.LocalName == iname), vfAnd(f2.Params[0].LocalName == pname, vfAnd(m2.Globals[0].GlobalName == gname, f2.GlobalName == fname))))
	vfAssert("C03.names.fixpoint", m2.String() == s)
}

// VfC03_Pairs: the constructor-side twin of C06 `ParsePairs`.  One module, two
// functions whose instructions are built with the constructors over two
// independently symbolic attribute sets (scalable or fixed vectors of one
// symbolic length, element width, address space, the same identified struct):
// icmp, fcmp, shufflevector, getelementptr (into the struct and into an
// integer), zext, cmpxchg, alloca, icmp on pointers.  Once both functions are
// built, every result type is the one LLVM's rules give for its own operands;
// the module prints, the text is accepted, and the types read back agree.
//
//vf:unwind 400
//vf:steps 100000000
//vf:shards 4
func VfC03_Pairs() {
	nd := vfString("n", 1)
	vfAssume(vfAnd(nd[0] >= '1', nd[0] <= '9'))
	n := uint64(nd[0] - '0')
	sets := [2]hC06Set{hC06NewSet("1"), hC06NewSet("2")}
	m := ir.NewModule()
	td := m.NewTypeDef("T", types.NewStruct(types.I32, types.I64))
	var fns [2]*ir.Func
	var results [2][]value.Value
	for k := 0; k < 2; k++ {
		s := sets[k]
		it := types.NewInt(s.w)
		vec := func(el types.Type) *types.VectorType {
			return &types.VectorType{Len: n, ElemType: el, Scalable: s.scal}
		}
		ptr := func(el types.Type) *types.PointerType {
			return &types.PointerType{ElemType: el, AddrSpace: types.AddrSpace(s.as)}
		}
		f := m.NewFunc("f"+string(rune('1'+k)), types.Void,
			ir.NewParam("a", vec(it)), ir.NewParam("b", vec(it)), ir.NewParam("x", vec(types.Float)), ir.NewParam("y", vec(types.Float)),
			ir.NewParam("p", ptr(td)), ir.NewParam("q", ptr(it)), ir.NewParam("ix", vec(types.I64)))
		b := f.NewBlock("entry")
		a, bb, x, y, p, q := f.Params[0], f.Params[1], f.Params[2], f.Params[3], f.Params[4], f.Params[5]
		zero, one := constant.NewInt(types.I32, 0), constant.NewInt(types.I32, 1)
		var r []value.Value
		r = append(r, b.NewICmp(enum.IPredEQ, a, bb))
		r = append(r, b.NewFCmp(enum.FPredOEQ, x, y))
		r = append(r, b.NewShuffleVector(a, bb, constant.NewZeroInitializer(vec(types.I32))))
		r = append(r, b.NewGetElementPtr(td, p, zero, one))
		r = append(r, b.NewGetElementPtr(it, q, one))
		r = append(r, b.NewZExt(a, vec(types.I64)))
		r = append(r, b.NewCmpXchg(q, constant.NewInt(it, 0), constant.NewInt(it, 1), enum.AtomicOrderingSequentiallyConsistent, enum.AtomicOrderingSequentiallyConsistent))
		al := b.NewAlloca(td)
		al.AddrSpace = types.AddrSpace(s.as)
		r = append(r, al)
		r = append(r, b.NewICmp(enum.IPredEQ, p, constant.NewNull(ptr(td))))
		r = append(r, b.NewGetElementPtr(it, q, f.Params[6]))
		r = append(r, b.NewGetElementPtr(td, p, f.Params[6], one))
		b.NewRet(nil)
		fns[k], results[k] = f, r
	}
	vfReach("C03.pairs.built")
	for k := 0; k < 2; k++ {
		want := hC06SetWant(n, sets[k], td)
		for j := range want {
			vfAssert("C03"+hC06PairIDs[j], hC06Same(results[k][j].Type(), want[j]))
		}
	}
	s := m.String()
	vfObserveStr("printed", s)
	m2, err := ParseString("t.ll", s)
	vfAssert("C03.pairs.reparses", err == nil)
	if err != nil {
		return
	}
	for k := 0; k < 2; k++ {
		want := hC06SetWant(n, sets[k], m2.TypeDefs[0])
		insts := m2.Funcs[k].Blocks[0].Insts
		vfAssert("C03.pairs.count", len(insts) == len(want))
		if len(insts) != len(want) {
			return
		}
		for j := range want {
			vfAssert("C03.pairs.read-back", hC06Same(insts[j].(interface{ Type() types.Type }).Type(), want[j]))
		}
	}
	vfAssert("C03.pairs.fixpoint", m2.String() == s)
}
