//go:build verif

package asm

import (
	"github.com/llir/llvm/ir"
	"github.com/llir/llvm/ir/constant"
	"github.com/llir/llvm/ir/metadata"
	"github.com/llir/llvm/ir/types"
	"github.com/llir/llvm/ir/value"
)

// Reference closure (C04): starting from the *ir.Module, every reference
// reached through operand slots, constant sub-terms, types and metadata is the
// very object that the module (globals, functions, aliases, ifuncs, type
// definitions, comdats, attribute groups, numbered metadata) or the enclosing
// function (parameters, blocks, instructions) lists as the definition.  The
// per-kind descent is generated (zz_vf_c04_gen.go).  All comparisons are
// pointer identities.

type hWalk struct {
	m      *ir.Module
	f      *ir.Func // enclosing function; nil at module level
	ok     bool
	bad    string        // first failure
	seenT  []types.Type  // struct types already visited
	seenMD []interface{} // metadata nodes already visited
	insts  []interface{} // instructions and terminators of f
}

func (w *hWalk) fail(what string) {
	if w.ok {
		w.ok = false
		w.bad = what
	}
}

func (w *hWalk) enter(f *ir.Func) {
	w.f = f
	w.insts = nil
	if f == nil {
		return
	}
	for _, b := range f.Blocks {
		for _, i := range b.Insts {
			w.insts = append(w.insts, i)
		}
		if b.Term != nil {
			w.insts = append(w.insts, b.Term)
		}
	}
}

func (w *hWalk) value(v value.Value) {
	switch x := v.(type) {
	case nil:
		return
	case *ir.Global:
		for _, g := range w.m.Globals {
			if g == x {
				return
			}
		}
		w.fail("global variable that the module does not list")
		return
	case *ir.Func:
		for _, g := range w.m.Funcs {
			if g == x {
				return
			}
		}
		w.fail("function that the module does not list")
		return
	case *ir.Alias:
		for _, g := range w.m.Aliases {
			if g == x {
				return
			}
		}
		w.fail("alias that the module does not list")
		return
	case *ir.IFunc:
		for _, g := range w.m.IFuncs {
			if g == x {
				return
			}
		}
		w.fail("ifunc that the module does not list")
		return
	case *ir.Param:
		if w.f != nil {
			for _, p := range w.f.Params {
				if p == x {
					return
				}
			}
		}
		w.fail("parameter that the enclosing function does not list")
		return
	case *ir.Block:
		if w.f != nil {
			for _, b := range w.f.Blocks {
				if b == x {
					return
				}
			}
		}
		w.fail("basic block that the enclosing function does not list")
		return
	case *ir.InlineAsm:
		w.typ(x.Typ)
		return
	case *ir.Arg:
		// call argument with parameter attributes
		w.value(x.Value)
		for _, a := range x.Attrs {
			switch t := a.(type) {
			case ir.Byval:
				w.typ(t.Typ)
			case ir.SRet:
				w.typ(t.Typ)
			case ir.ByRef:
				w.typ(t.Typ)
			case ir.InAlloca:
				w.typ(t.Typ)
			case ir.Preallocated:
				w.typ(t.Typ)
			case ir.ElementType:
				w.typ(t.Typ)
			}
		}
		return
	case *metadata.Value:
		w.md(x.Value)
		return
	case *constant.BlockAddress:
		fn, isFunc := x.Func.(*ir.Func)
		if !isFunc {
			w.fail("blockaddress of something that is not a function")
			return
		}
		w.value(fn)
		blk, isBlock := x.Block.(*ir.Block)
		if !isBlock {
			w.fail("blockaddress block that is not a basic block")
			return
		}
		for _, b := range fn.Blocks {
			if b == blk {
				return
			}
		}
		w.fail("blockaddress block that its function does not list (placeholder)")
		return
	}
	if hWalkConst(w, v) {
		return
	}
	// instruction or value-producing terminator
	for _, i := range w.insts {
		if i == interface{}(v) {
			return
		}
	}
	w.fail("value that is neither a listed definition nor a known constant kind")
}

func (w *hWalk) typ(t types.Type) {
	if t == nil {
		return
	}
	if _, isStruct := t.(*types.StructType); !isStruct && t.Name() != "" {
		// a named type that is not a struct (`%w = type i32`, and any further
		// name for it): the object must be one the module lists
		listed := false
		for _, d := range w.m.TypeDefs {
			if d == t {
				listed = true
			}
		}
		if !listed {
			w.fail("named non-struct type that the module does not list")
		}
	}
	switch x := t.(type) {
	case nil:
		return
	case *types.PointerType:
		w.typ(x.ElemType)
	case *types.VectorType:
		w.typ(x.ElemType)
	case *types.ArrayType:
		w.typ(x.ElemType)
	case *types.FuncType:
		w.typ(x.RetType)
		for _, p := range x.Params {
			w.typ(p)
		}
	case *types.StructType:
		for _, s := range w.seenT {
			if s == t {
				return
			}
		}
		w.seenT = append(w.seenT, t)
		if x.TypeName != "" {
			listed := false
			for _, d := range w.m.TypeDefs {
				if d == t {
					listed = true
				}
			}
			if !listed {
				w.fail("named struct type that the module does not list")
			}
		}
		for _, f := range x.Fields {
			w.typ(f)
		}
	}
}

// enterMD: a numbered node must be the listed definition of its number;
// returns false if the node was visited before.
func (w *hWalk) enterMD(n interface{}, id int64) bool {
	for _, s := range w.seenMD {
		if s == n {
			return false
		}
	}
	w.seenMD = append(w.seenMD, n)
	if id != -1 {
		listed := false
		for _, d := range w.m.MetadataDefs {
			if interface{}(d) == n {
				listed = true
			}
		}
		if !listed {
			w.fail("numbered metadata node that the module does not list")
		}
	}
	return true
}

func (w *hWalk) md(n interface{}) {
	switch x := n.(type) {
	case nil:
		return
	case *metadata.Value:
		if x != nil {
			w.md(x.Value)
		}
		return
	case *metadata.String, *metadata.NullLit, metadata.IntLit, metadata.UintLit:
		return
	case *metadata.Attachment:
		w.md(x.Node)
		return
	}
	if hWalkMD(w, n) {
		return
	}
	// a value used as metadata (`i32 %x`, `i8* blockaddress(...)`, ...)
	if v, ok := n.(value.Value); ok {
		w.value(v)
	}
}

func (w *hWalk) attachments(as []*metadata.Attachment) {
	for _, a := range as {
		w.md(a.Node)
	}
}

// hClosed walks the whole module.
func hClosed(m *ir.Module) (bool, string) {
	w := &hWalk{m: m, ok: true}
	for _, t := range m.TypeDefs {
		w.typ(t)
	}
	for _, g := range m.Globals {
		w.typ(g.ContentType)
		w.value(g.Init)
		if g.Comdat != nil {
			listed := false
			for _, c := range m.ComdatDefs {
				if c == g.Comdat {
					listed = true
				}
			}
			if !listed {
				w.fail("comdat of a global that the module does not list")
			}
		}
		w.attachments(g.Metadata)
	}
	for _, a := range m.Aliases {
		w.value(a.Aliasee)
	}
	for _, i := range m.IFuncs {
		w.value(i.Resolver)
	}
	for _, n := range m.NamedMetadataDefs {
		for _, x := range n.Nodes {
			w.md(x)
		}
	}
	for _, d := range m.MetadataDefs {
		w.md(d)
	}
	for _, u := range m.UseListOrders {
		w.value(u.Value)
	}
	for _, u := range m.UseListOrderBBs {
		fn := u.Func
		w.value(fn)
		listed := false
		for _, b := range fn.Blocks {
			if b == u.Block {
				listed = true
			}
		}
		if !listed {
			w.fail("uselistorder_bb block that its function does not list")
		}
	}
	for _, f := range m.Funcs {
		if f.Parent != m {
			w.fail("function whose parent is not the module")
		}
		w.enter(f)
		w.typ(f.Sig)
		w.value(f.Personality)
		w.value(f.Prefix)
		w.value(f.Prologue)
		if f.Comdat != nil {
			listed := false
			for _, c := range m.ComdatDefs {
				if c == f.Comdat {
					listed = true
				}
			}
			if !listed {
				w.fail("comdat of a function that the module does not list")
			}
		}
		for _, a := range f.FuncAttrs {
			if ag, isGroup := a.(*ir.AttrGroupDef); isGroup {
				listed := false
				for _, d := range m.AttrGroupDefs {
					if d == ag {
						listed = true
					}
				}
				if !listed {
					w.fail("attribute group of a function that the module does not list")
				}
			}
		}
		w.attachments(f.Metadata)
		for _, p := range f.Params {
			w.typ(p.Typ)
		}
		for _, u := range f.UseListOrders {
			w.value(u.Value)
		}
		for _, b := range f.Blocks {
			if b.Parent != f {
				w.fail("block whose parent is not the function that lists it")
			}
			if b.Term == nil {
				w.fail("block without terminator")
			}
		}
		for _, i := range w.insts {
			if ops, hasOps := i.(interface{ Operands() []*value.Value }); hasOps {
				for _, op := range ops.Operands() {
					w.value(*op)
				}
			}
			if v, isValue := i.(value.Value); isValue {
				w.typ(v.Type())
			}
			if md, hasMD := i.(interface{ MDAttachments() []*metadata.Attachment }); hasMD {
				w.attachments(md.MDAttachments())
			}
		}
		w.enter(nil)
	}
	return w.ok, w.bad
}
