//go:build verif

package asm

import (
	"github.com/llir/llvm/internal/enc"
	"github.com/llir/llvm/ir"
	"github.com/llir/llvm/ir/constant"
	"github.com/llir/llvm/ir/enum"
	"github.com/llir/llvm/ir/metadata"
	"github.com/llir/llvm/ir/types"
	"github.com/llir/llvm/ir/value"
)

// C11 (parser side, L3): the token the printer emits for a name or string is
// embedded in a one-line carrier module and parsed by the real pipeline
// (native llir/ll parse of a representative, whole translator symbolic); the
// decoded name must be the original bytes and must not become a numeric ID.

func hC11N() int {
	if vfTier() > 0 {
		return 3
	}
	return 2
}

// hClassed returns a symbolic string of length n whose bytes are each
// constrained to one of four lexical classes chosen by forking, so that the
// natively parsed representative is typical for the whole class.
func hClassed(name string, n int) string { return hClassedWith(name, n, -1) }

// hClassedWith: as hClassed, with the class of the first byte already chosen
// by the caller (cls0 >= 0), so that it can be part of a sharded first choice.
func hClassedWith(name string, n int, cls0 int) string {
	s := vfString(name, n)
	for i := 0; i < n; i++ {
		b := s[i]
		digit := vfAnd(b >= '0', b <= '9')
		word := vfOr(vfOr(vfAnd(b >= 'a', b <= 'z'), vfAnd(b >= 'A', b <= 'Z')), vfOr(b == '$', vfOr(b == '.', b == '_')))
		cls := cls0
		if i > 0 || cls0 < 0 {
			cls = vfChoice(name+"cls"+string(rune('0'+i)), 4)
		}
		switch cls {
		case 0:
			vfAssume(digit)
		case 1:
			vfAssume(word)
		case 2:
			vfAssume(b == '-')
		default:
			vfAssume(vfAnd(b != 0, vfNot(vfOr(digit, vfOr(word, b == '-')))))
		}
	}
	return s
}

//vf:unwind 100
//vf:shards 4
func VfC11_ParseGlobal() {
	n := vfLen("n", 1, hC11N())
	s := hClassed("s", n)
	tok := enc.GlobalName(s)
	m, err := ParseString("t.ll", tok+" = global i32 0\n")
	vfReach("C11.parse.global")
	vfObserveStr("tok", tok)
	vfAssert("C11.global.parse-accepts", err == nil)
	if err == nil {
		vfAssert("C11.global.parse-one", len(m.Globals) == 1)
		g := m.Globals[0]
		vfObserveStr("name", g.GlobalName)
		vfAssert("C11.global.parse-kind", vfNot(g.IsUnnamed()))
		vfAssert("C11.global.parse-roundtrip", g.GlobalName == s)
	}
}

//vf:unwind 100
//vf:shards 4
func VfC11_ParseLocal() {
	n := vfLen("n", 1, hC11N())
	s := hClassed("s", n)
	tok := enc.LocalName(s)
	if vfChoice("site", 2) == 1 {
		// the name of an instruction result, defined and used
		m, err := ParseString("t.ll", "define i32 @f(i32 %param) {\n\t"+tok+" = add i32 %param, 1\n\tret i32 "+tok+"\n}\n")
		vfReach("C11.parse.local-result")
		vfObserveStr("tok", tok)
		vfAssert("C11.local.result-parse-accepts", err == nil)
		if err == nil {
			add, isAdd := m.Funcs[0].Blocks[0].Insts[0].(*ir.InstAdd)
			ret, isRet := m.Funcs[0].Blocks[0].Term.(*ir.TermRet)
			vfAssert("C11.local.result-shape", vfAnd(isAdd, isRet))
			if isAdd && isRet {
				vfAssert("C11.local.result-kind", vfNot(add.IsUnnamed()))
				vfAssert("C11.local.result-roundtrip", add.LocalName == s)
				vfAssert("C11.local.result-use-is-def", ret.X == value.Value(add))
			}
		}
		return
	}
	m, err := ParseString("t.ll", "define i32 @f(i32 "+tok+") {\n\tret i32 "+tok+"\n}\n")
	vfReach("C11.parse.local")
	vfObserveStr("tok", tok)
	vfAssert("C11.local.parse-accepts", err == nil)
	if err == nil {
		p := m.Funcs[0].Params[0]
		vfObserveStr("name", p.LocalName)
		vfAssert("C11.local.parse-kind", vfNot(p.IsUnnamed()))
		vfAssert("C11.local.parse-roundtrip", p.LocalName == s)
		vfAssert("C11.local.use-is-def", m.Funcs[0].Blocks[0].Term.(*ir.TermRet).X == value.Value(p))
	}
}

//vf:unwind 100
//vf:shards 4
func VfC11_ParseLabel() {
	n := vfLen("n", 1, hC11N())
	s := hClassed("s", n)
	tok := enc.LabelName(s)
	m, err := ParseString("t.ll", "define void @f() {\n"+tok+"\n\tret void\n}\n")
	vfReach("C11.parse.label")
	vfObserveStr("tok", tok)
	vfAssert("C11.label.parse-accepts", err == nil)
	if err == nil {
		b := m.Funcs[0].Blocks[0]
		vfObserveStr("name", b.LocalName)
		vfAssert("C11.label.parse-kind", vfNot(b.IsUnnamed()))
		vfAssert("C11.label.parse-roundtrip", b.LocalName == s)
	}
}

//vf:unwind 100
//vf:shards 4
func VfC11_ParseTypeComdat() {
	n := vfLen("n", 1, hC11N())
	s := hClassed("s", n)
	if vfChoice("which", 2) == 0 {
		tok := enc.TypeName(s)
		m, err := ParseString("t.ll", tok+" = type { i32 }\n")
		vfReach("C11.parse.type")
		vfObserveStr("tok", tok)
		// known region: all-digit type names are the numbered types (see
		// known_findings.json), so "00" comes back as type number 0
		allDigit := true
		for i := 0; i < len(s); i++ {
			allDigit = vfAnd(allDigit, vfAnd(s[i] >= '0', s[i] <= '9'))
		}
		vfKnown("C11.numeric-type-names", allDigit)
		vfAssert("C11.type.parse-accepts", err == nil)
		if err == nil {
			vfAssert("C11.type.parse-one", len(m.TypeDefs) == 1)
			vfAssert("C11.type.parse-roundtrip", m.TypeDefs[0].Name() == s)
		}
		return
	}
	tok := enc.ComdatName(s)
	m, err := ParseString("t.ll", tok+" = comdat any\n")
	vfReach("C11.parse.comdat")
	vfObserveStr("tok", tok)
	vfAssert("C11.comdat.parse-accepts", err == nil)
	if err == nil {
		vfAssert("C11.comdat.parse-one", len(m.ComdatDefs) == 1)
		vfAssert("C11.comdat.parse-roundtrip", m.ComdatDefs[0].Name == s)
	}
}

//vf:unwind 100
//vf:shards 4
func VfC11_ParseMetadataName() {
	n := vfLen("n", 1, hC11N())
	s := hClassed("s", n)
	tok := enc.MetadataName(s)
	m, err := ParseString("t.ll", tok+" = !{}\n")
	vfReach("C11.parse.mdname")
	vfObserveStr("tok", tok)
	vfAssert("C11.metadata.parse-accepts", err == nil)
	if err == nil {
		vfAssert("C11.metadata.parse-one", len(m.NamedMetadataDefs) == 1)
		for k, v := range m.NamedMetadataDefs {
			vfAssert("C11.metadata.parse-roundtrip", vfAnd(k == s, v.Name == s))
		}
	}
}

//vf:unwind 100
//vf:shards 4
func VfC11_ParseStrings() {
	n := vfLen("n", 0, hC11N())
	s := vfBytes("s", n)
	for i := 0; i < n; i++ {
		// split the byte range so that the representative is typical
		switch vfChoice("cls"+string(rune('0'+i)), 3) {
		case 0:
			vfAssume(s[i] == '"')
		case 1:
			vfAssume(s[i] == '\\')
		default:
			vfAssume(vfAnd(s[i] != '"', s[i] != '\\'))
		}
	}
	if vfChoice("which", 2) == 0 {
		for i := 0; i < n; i++ {
			vfAssume(s[i] != 0)
		}
		q := enc.Quote(s)
		m, err := ParseString("t.ll", "source_filename = "+q+"\n")
		vfReach("C11.parse.string")
		vfObserveStr("q", q)
		vfAssert("C11.string.parse-accepts", err == nil)
		if err == nil {
			vfAssert("C11.string.parse-roundtrip", m.SourceFilename == string(s))
		}
		return
	}
	// character array (NUL allowed); printed by the real constant printer
	ca := constant.NewCharArray(s)
	g := &ir.Global{Init: ca, ContentType: ca.Typ}
	g.SetName("g")
	g.Typ = types.NewPointer(ca.Typ)
	line := g.LLString() + "\n"
	m, err := ParseString("t.ll", line)
	vfReach("C11.parse.chararray")
	vfObserveStr("line", line)
	vfAssert("C11.chararray.parse-accepts", err == nil)
	if err == nil {
		back, ok := m.Globals[0].Init.(*constant.CharArray)
		if n == 0 {
			return // [0 x i8] c"" is fine either way
		}
		vfAssert("C11.chararray.parse-kind", ok)
		if ok {
			vfAssert("C11.chararray.parse-roundtrip", string(back.X) == string(s))
		}
	}
}

// VfC11_ParseImpliedComdat: a global and a function in a comdat of their own
// name; the printer writes bare `comdat` and the parser has to find the comdat
// from the name of the global.  Parsed from the explicit spelling, printed, and
// parsed again: both times the global is bound to the comdat of its own name.
//
//vf:unwind 200
//vf:shards 8
func VfC11_ParseImpliedComdat() {
	n := vfLen("n", 1, hC11N())
	s := hClassed("s", n)
	isFunc := vfChoice("func", 2) == 1
	g, c := enc.GlobalName(s), enc.ComdatName(s)
	var src string
	// the input names the comdat explicitly or uses the bare form itself
	use := "comdat(" + c + ")"
	if vfChoice("bare-in-input", 2) == 1 {
		use = "comdat"
	}
	if isFunc {
		src = c + " = comdat any\n$other = comdat any\ndefine void " + g + "() " + use + " {\n\tret void\n}\n"
	} else {
		src = c + " = comdat any\n$other = comdat any\n" + g + " = global i32 0, " + use + "\n"
	}
	m, err := ParseString("t.ll", src)
	vfReach("C11.parse.implied-comdat")
	vfObserveStr("src", src)
	vfAssert("C11.implied-comdat.parse-accepts", err == nil)
	if err != nil {
		return
	}
	y := m.String()
	vfObserveStr("y", y)
	m2, err2 := ParseString("t.ll", y)
	vfAssert("C11.implied-comdat.print-accepted", err2 == nil)
	if err2 != nil {
		return
	}
	var cd *ir.ComdatDef
	var name string
	if isFunc {
		cd, name = m2.Funcs[0].Comdat, m2.Funcs[0].GlobalName
	} else {
		cd, name = m2.Globals[0].Comdat, m2.Globals[0].GlobalName
	}
	vfAssert("C11.implied-comdat.name-roundtrip", name == s)
	vfAssert("C11.implied-comdat.bound", cd != nil)
	if cd != nil {
		vfAssert("C11.implied-comdat.same-name", cd.Name == s)
		found := false
		for _, d := range m2.ComdatDefs {
			if d == cd {
				found = true
			}
		}
		vfAssert("C11.implied-comdat.is-definition", found)
	}
}

// hC11Bytes: n symbolic bytes, each forked into one of the lexical classes
// that matter to a string decoder: quote, backslash, hexadecimal digit, other
// printable ASCII, anything else (NUL excluded where the site cannot hold it).
func hC11Bytes(name string, n int) []byte {
	s := vfBytes(name, n)
	for i := 0; i < n; i++ {
		b := s[i]
		hexd := vfOr(vfAnd(b >= '0', b <= '9'), vfOr(vfAnd(b >= 'A', b <= 'F'), vfAnd(b >= 'a', b <= 'f')))
		printable := vfAnd(b >= 0x20, b <= 0x7E)
		switch vfChoice(name+"cls"+string(rune('0'+i)), 5) {
		case 0:
			vfAssume(b == '"')
		case 1:
			vfAssume(b == '\\')
		case 2:
			vfAssume(hexd)
		case 3:
			vfAssume(vfAnd(printable, vfNot(vfOr(hexd, vfOr(b == '"', b == '\\')))))
		default:
			vfAssume(vfAnd(vfNot(printable), b != 0))
		}
	}
	return s
}

// VfC11_StringSites: every site where the library prints a string literal with
// its own quoting helper (ir: section, partition, gc, module asm, target
// triple, data layout, attribute strings and pairs, inline asm; ir/metadata:
// metadata strings and the string fields of specialised nodes): the string put
// in is the string read back after print and parse.
//
//vf:unwind 600
//vf:shards 16
func VfC11_StringSites() {
	site := vfChoice("site", 14)
	n := vfLen("n", 1, hC11N())
	s := string(hC11Bytes("s", n))
	m := ir.NewModule()
	g := m.NewGlobalDef("g", constant.NewInt(types.I32, 0))
	f := m.NewFunc("f", types.Void)
	b := f.NewBlock("entry")
	var sp *metadata.DISubprogram
	var fl *metadata.DIFile
	switch site {
	case 0:
		m.MetadataDefs = append(m.MetadataDefs, &metadata.Tuple{MetadataID: 0, Fields: []metadata.Field{&metadata.String{Value: s}}})
	case 1:
		fl = &metadata.DIFile{MetadataID: 0, Filename: s, Directory: "d" + s}
		m.MetadataDefs = append(m.MetadataDefs, fl)
	case 2:
		g.Section = s
	case 3:
		f.GC = s
	case 4:
		m.ModuleAsms = []string{s}
	case 5:
		m.TargetTriple = s
		m.DataLayout = s + "e"
	case 6:
		f.FuncAttrs = []ir.FuncAttribute{ir.AttrString(s), ir.AttrPair{Key: "k" + s, Value: s}}
	case 7:
		g.Partition = s
	case 8:
		ia := ir.NewInlineAsm(types.NewPointer(types.NewFunc(types.Void)), s, "c"+s)
		b.NewCall(ia)
	case 9:
		sp = &metadata.DISubprogram{MetadataID: 0, Distinct: true, Name: s, LinkageName: "l" + s}
		m.MetadataDefs = append(m.MetadataDefs, sp)
	case 10:
		f.Section = s
	case 11: // the synchronisation scope of all five atomic instructions
		p := constant.NewNull(types.NewPointer(types.I32))
		one := constant.NewInt(types.I32, 1)
		ld := b.NewLoad(types.I32, p)
		ld.Atomic, ld.Ordering, ld.SyncScope, ld.Align = true, enum.AtomicOrderingSequentiallyConsistent, s, 4
		st := b.NewStore(one, p)
		st.Atomic, st.Ordering, st.SyncScope, st.Align = true, enum.AtomicOrderingSequentiallyConsistent, s, 4
		b.NewFence(enum.AtomicOrderingSequentiallyConsistent).SyncScope = s
		b.NewCmpXchg(p, one, one, enum.AtomicOrderingSequentiallyConsistent, enum.AtomicOrderingSequentiallyConsistent).SyncScope = s
		b.NewAtomicRMW(enum.AtomicOpAdd, p, one, enum.AtomicOrderingSequentiallyConsistent).SyncScope = s
	case 12: // operand bundle tag
		c := b.NewCall(f)
		c.OperandBundles = []*ir.OperandBundle{ir.NewOperandBundle(s, constant.NewInt(types.I32, 1))}
	default: // partitions of function, alias and ifunc
		f.Partition = s
		m.NewAlias("al", g).Partition = s
		res := m.NewFunc("res", types.NewPointer(types.NewFunc(types.Void)))
		m.NewIFunc("ifn", res).Partition = s
	}
	b.NewRet(nil)
	y := m.String()
	m2, err := ParseString("t.ll", y)
	vfReach("C11.string-sites")
	vfObserveStr("printed", y)
	vfAssert("C11.sites.accepted", err == nil)
	if err != nil {
		return
	}
	g2, f2 := m2.Globals[0], m2.Funcs[0]
	ok := false
	switch site {
	case 0:
		if t, isT := m2.MetadataDefs[0].(*metadata.Tuple); isT && len(t.Fields) == 1 {
			if str, isS := t.Fields[0].(*metadata.String); isS {
				ok = str.Value == s
			}
		}
	case 1:
		if d, isD := m2.MetadataDefs[0].(*metadata.DIFile); isD {
			ok = vfAnd(d.Filename == s, d.Directory == "d"+s)
		}
	case 2:
		ok = g2.Section == s
	case 3:
		ok = f2.GC == s
	case 4:
		ok = vfAnd(len(m2.ModuleAsms) == 1, m2.ModuleAsms[0] == s)
	case 5:
		ok = vfAnd(m2.TargetTriple == s, m2.DataLayout == s+"e")
	case 6:
		if len(f2.FuncAttrs) == 2 {
			as, isS := f2.FuncAttrs[0].(ir.AttrString)
			ap, isP := f2.FuncAttrs[1].(ir.AttrPair)
			if isS && isP {
				ok = vfAnd(string(as) == s, vfAnd(ap.Key == "k"+s, ap.Value == s))
			}
		}
	case 7:
		ok = g2.Partition == s
	case 8:
		if c, isC := f2.Blocks[0].Insts[0].(*ir.InstCall); isC {
			if ia, isA := c.Callee.(*ir.InlineAsm); isA {
				ok = vfAnd(ia.Asm == s, ia.Constraint == "c"+s)
			}
		}
	case 9:
		if d, isD := m2.MetadataDefs[0].(*metadata.DISubprogram); isD {
			ok = vfAnd(d.Name == s, d.LinkageName == "l"+s)
		}
	case 10:
		ok = f2.Section == s
	case 11:
		is := f2.Blocks[0].Insts
		if len(is) == 5 {
			ld, ok0 := is[0].(*ir.InstLoad)
			st, ok1 := is[1].(*ir.InstStore)
			fe, ok2 := is[2].(*ir.InstFence)
			cx, ok3 := is[3].(*ir.InstCmpXchg)
			rm, ok4 := is[4].(*ir.InstAtomicRMW)
			if ok0 && ok1 && ok2 && ok3 && ok4 {
				ok = vfAnd(vfAnd(ld.SyncScope == s, st.SyncScope == s), vfAnd(fe.SyncScope == s, vfAnd(cx.SyncScope == s, rm.SyncScope == s)))
			}
		}
	case 12:
		if c, isC := f2.Blocks[0].Insts[0].(*ir.InstCall); isC && len(c.OperandBundles) == 1 {
			ok = c.OperandBundles[0].Tag == s
		}
	default:
		if len(m2.Aliases) == 1 && len(m2.IFuncs) == 1 {
			ok = vfAnd(f2.Partition == s, vfAnd(m2.Aliases[0].Partition == s, m2.IFuncs[0].Partition == s))
		}
	}
	vfAssert("C11.sites.roundtrip", ok)
	vfAssert("C11.sites.print-fixpoint", m2.String() == y)
}

// VfC11_ParseDecoratedComdat: a numerically named global or function in a
// comdat whose name is not its own name but the *decorated spelling* of it -
// the digits between two quote bytes, which is what `Name()` of a numerically
// named global returns; with a leading zero the canonical number between the
// quotes (`007` -> `"7"`).  A comdat of the plain name is defined too.  The
// printer may abbreviate `comdat($x)` to `comdat` only when $x is the name of
// the global itself: parsed, printed and parsed again, the global is still in
// the comdat with the quote bytes in its name.
//
//vf:unwind 200
//vf:shards 4
func VfC11_ParseDecoratedComdat() {
	s := hDigits("s", 2, '0', '9')
	deco := "\"" + s + "\""
	if s[0] == '0' {
		deco = "\"" + s[1:] + "\""
	}
	isFunc := vfChoice("func", 2) == 1
	g, cPlain, cDeco := enc.GlobalName(s), enc.ComdatName(s), enc.ComdatName(deco)
	var src string
	if isFunc {
		src = cDeco + " = comdat any\n" + cPlain + " = comdat any\ndefine void " + g + "() comdat(" + cDeco + ") {\n\tret void\n}\n"
	} else {
		src = cDeco + " = comdat any\n" + cPlain + " = comdat any\n" + g + " = global i32 0, comdat(" + cDeco + ")\n"
	}
	m, err := ParseString("t.ll", src)
	vfReach("C11.parse.decorated-comdat")
	vfObserveStr("src", src)
	vfAssert("C11.decorated-comdat.parse-accepts", err == nil)
	if err != nil {
		return
	}
	y := m.String()
	vfObserveStr("y", y)
	m2, err2 := ParseString("t.ll", y)
	vfAssert("C11.decorated-comdat.print-accepted", err2 == nil)
	if err2 != nil {
		return
	}
	var cd *ir.ComdatDef
	if isFunc {
		cd = m2.Funcs[0].Comdat
	} else {
		cd = m2.Globals[0].Comdat
	}
	vfAssert("C11.decorated-comdat.bound", cd != nil)
	if cd != nil {
		vfAssert("C11.decorated-comdat.same-comdat", cd.Name == deco)
	}
	vfAssert("C11.decorated-comdat.print-fixpoint", m2.String() == y)
}
