//go:build verif

package asm

// C02 (L3): printed output is a fixpoint of parse and print.  For an accepted
// input x with symbolic tokens, y = print(parse(x)) is accepted and
// print(parse(y)) == y byte for byte.  Both parses go through the concolic
// front end (the second one on the symbolic text y).

func hDigits(name string, n int, lo, hi byte) string {
	s := vfString(name, n)
	for i := 0; i < n; i++ {
		vfAssume(vfAnd(s[i] >= lo, s[i] <= hi))
	}
	return s
}

func hHexDigits(name string, n int) string {
	s := vfString(name, n)
	for i := 0; i < n; i++ {
		switch vfChoice(name+"cls"+string(rune('0'+i)), 2) {
		case 0:
			vfAssume(vfAnd(s[i] >= '0', s[i] <= '9'))
		default:
			vfAssume(vfAnd(s[i] >= 'A', s[i] <= 'F'))
		}
	}
	return s
}

func hC02Check(src string) {
	m, err := ParseString("x.ll", src)
	vfReach("C02.fixpoint")
	vfObserveStr("src", src)
	vfAssert("C02.input-accepted", err == nil)
	if err != nil {
		return
	}
	y := m.String()
	vfObserveStr("y", y)
	// the second parse runs under the reversed iteration order of every map of
	// the translator: a fixpoint that holds only for one map order is none
	vfMapOrder(1)
	m2, err2 := ParseString("y.ll", y)
	vfMapOrder(0)
	vfAssert("C02.output-accepted", err2 == nil)
	if err2 != nil {
		return
	}
	y2 := m2.String()
	vfAssert("C02.fixpoint", y2 == y)
	vfAssert("C02.same-shape", vfAnd(vfAnd(len(m2.Globals) == len(m.Globals), len(m2.Funcs) == len(m.Funcs)), vfAnd(len(m2.TypeDefs) == len(m.TypeDefs), len(m2.MetadataDefs) == len(m.MetadataDefs))))
}

// VfC02_Template: one template per choice; every template has symbolic
// identifier / literal tokens and non-canonical spellings.
//
//vf:unwind 400
//vf:shards 15
//vf:steps 80000000
func VfC02_Template() {
	var src string
	switch vfChoice("template", 15) {
	case 0: // redundant quoting, definitions out of printer order, decimal literal
		a, b := hLetterIn("a", 'a', 'f'), hLetterIn("b", 'g', 'k')
		d := hDigits("d", 2, '0', '9')
		src = "define void @" + b + "() {\n\tret void\n}\n" +
			"@\"" + a + "\" = global i32 " + d + "\n" +
			"@p = global i32* @\"" + a + "\"\n" +
			"%T = type { i32, %T* }\n@t = global %T zeroinitializer\n"
	case 1: // integer spellings (one symbolic literal per template)
		src = "@a = global i16 u0x" + hHexDigits("h", 3) + "\n@d = global i1 true\n"
	case 8:
		src = "@b = global i16 s0x" + hHexDigits("s", 4) + "\n"
	case 9:
		src = "@c = global i16 -" + hDigits("d", 2, '1', '9') + "\n"
	case 10:
		src = "@e = global i64 u0x" + hHexDigits("h", 2) + "000000\n"
	case 13: // every optional part of global, alias, declaration and definition headers at once (accepted by llvm-as 14)
		src = hSoupHeaders(hLetterIn("a", 'i', 'n'))
	case 14: // every optional flag of the instructions that have any (accepted by llvm-as 14)
		src = hSoupInsts(hLetterIn("a", 'a', 'e'))
	case 12: // floating-point literals (concrete values: decimal/scientific forms and the extended kinds run natively through big.Float and mewmew/float)
		a := hLetterIn("a", 'a', 'f')
		src = "@" + a + " = global double 1000000.0\n@d2 = global double 1.0e22\n@d3 = global double 0.1\n@d4 = global double -2.5e-3\n" +
			"@f1 = global float 5.0e7\n@f2 = global float 0x3FF0000000000000\n@h1 = global half 0xHFE00\n@h2 = global half 1.0\n" +
			"@x1 = global x86_fp80 0xKBFFF8000000000000000\n@q1 = global fp128 0xL0000000000000000FFFF800000000000\n"
	case 11: // a type alias (known finding, see known_findings.json)
		a, b := hLetterIn("a", 'a', 'c'), hLetterIn("b", 'd', 'f')
		src = "%" + a + " = type { i32 }\n%" + b + " = type %" + a + "\n@g = global %" + b + " zeroinitializer\n"
		vfKnown("C02.type-alias", true)
	case 2: // implicit numbering of params, blocks, instructions; void call
		w := hDigits("w", 1, '2', '9')
		src = "declare void @v()\ndefine i" + w + " @f(i" + w + ", i" + w + ") {\n" +
			"\tadd i" + w + " %0, %1\n\tcall void @v()\n\tbr label %4\n" +
			"\tmul i" + w + " %3, %3\n\tret i" + w + " %5\n}\n"
	case 3: // sparse explicit metadata IDs, forward reference, named metadata twice
		i, j := hDigits("i", 1, '5', '9'), hDigits("j", 1, '1', '4')
		src = "@g = global i32 0, !dbg !" + i + "\n!nm = !{!" + j + "}\n!" + i + " = !{!" + j + ", !\"s\"}\n!" + j + " = distinct !{}\n!nm = !{!" + i + "}\n"
	case 4: // strings with escapes and a character array
		h := hHexDigits("h", 2)
		src = "source_filename = \"a\\" + h + "b\"\ntarget triple = \"t\\" + h + "\"\n@s = global [3 x i8] c\"x\\" + h + "y\"\n" +
			// every other place that holds a string literal, spelled with an escape
			"module asm \"m\\" + h + "\"\n" +
			"@sg = global i32 0, section \"s\\" + h + "\", partition \"p\\" + h + "\"\n" +
			"define void @sf(i32* %p) #0 section \"f\\" + h + "\" gc \"g\\" + h + "\" {\n" +
			"\tfence syncscope(\"y\\" + h + "\") seq_cst\n" +
			"\t%l = load atomic i32, i32* %p syncscope(\"y\\" + h + "\") seq_cst, align 4\n" +
			"\tstore atomic i32 %l, i32* %p syncscope(\"y\\" + h + "\") seq_cst, align 4\n" +
			"\t%c = cmpxchg i32* %p, i32 0, i32 1 syncscope(\"y\\" + h + "\") seq_cst seq_cst\n" +
			"\t%r = atomicrmw add i32* %p, i32 1 syncscope(\"y\\" + h + "\") seq_cst\n" +
			"\tcall void asm \"a\\" + h + "\", \"c\\" + h + "\"()\n" +
			"\tcall void @sf(i32* %p) [ \"t\\" + h + "\"(i32 1) ]\n" +
			"\tret void, !dbg !1\n}\n" +
			"attributes #0 = { \"k\\" + h + "\"=\"v\\" + h + "\" \"w\\" + h + "\" }\n" +
			"!0 = !{!\"m\\" + h + "\"}\n!1 = !DIFile(filename: \"n\\" + h + "\", directory: \"d\\" + h + "\")\n"
	case 5: // comdat, alias, ifunc, attribute groups, section string
		c := hLetterIn("c", 'a', 'f')
		n := hDigits("n", 1, '0', '9')
		src = "$" + c + " = comdat any\n@g = global i32 0, section \"." + c + "\", comdat($" + c + "), align 4\n" +
			"@al = alias i32, i32* @g\n" +
			"define void @f() #" + n + " {\n\tret void\n}\nattributes #" + n + " = { nounwind \"k\"=\"" + c + "\" }\n"
	case 6: // named values with names that need quoting, labels, phi
		a := hClassed("a", 2)
		src = "define i32 @f(i32 %\"" + hEsc(a) + "\") {\nentry:\n\tbr label %next\nnext:\n" +
			"\t%r = phi i32 [ %\"" + hEsc(a) + "\", %entry ]\n\tret i32 %r\n}\n"
	default: // vector/array/struct constants and a constant expression
		d := hDigits("d", 1, '0', '9')
		src = "@v = global <2 x i32> <i32 " + d + ", i32 1>\n@a = global [2 x i8] [i8 " + d + ", i8 2]\n" +
			"@s = global { i32, i1 } { i32 " + d + ", i1 false }\n" +
			"@e = global i64 ptrtoint (i32* getelementptr (i32, i32* null, i32 " + d + ") to i64)\n"
	}
	hC02Check(src)
}

// hEsc escapes a name for use between double quotes in the *input* (every
// byte as \XX, a non-canonical but valid spelling).
func hEsc(s string) string {
	const hex = "0123456789ABCDEF"
	out := ""
	for i := 0; i < len(s); i++ {
		out += "\\" + string(hex[s[i]>>4]) + string(hex[s[i]&15])
	}
	return out
}

// VfC02_Names: the fixpoint over names of every lexical class (digits only,
// word characters, '-', anything else including quotes and backslashes) at the
// sites where the printer chooses between spellings: a global or function in a
// comdat of its own name (printed as bare `comdat`), global references, type
// names, labels and named metadata.  The input spells every name byte as \XX.
//
//vf:unwind 400
//vf:shards 16
//vf:steps 80000000
func VfC02_Names() {
	k := vfChoice("site.class", 24)
	site := k / 4
	n := vfLen("n", 1, 2)
	a := hClassedWith("a", n, k%4)
	q := "\"" + hEsc(a) + "\""
	var src string
	switch site {
	case 0:
		src = "$" + q + " = comdat any\n@" + q + " = global i32 0, comdat($" + q + ")\n@other = global i32 1, comdat($" + q + ")\n"
	case 1:
		src = "$" + q + " = comdat any\ndefine void @" + q + "() comdat($" + q + ") {\n\tret void\n}\n"
	case 2:
		src = "@" + q + " = global i32 0\n@ali = alias i32, i32* @" + q + "\n@ptr = global i32* @" + q + "\n"
	case 3:
		allDigit := true
		for i := 0; i < len(a); i++ {
			allDigit = vfAnd(allDigit, vfAnd(a[i] >= '0', a[i] <= '9'))
		}
		vfKnown("C11.numeric-type-names", allDigit)
		src = "%" + q + " = type { i32 }\n@gvar = global %" + q + " zeroinitializer\n"
	case 4:
		src = "define void @fun() {\n" + q + ":\n\tbr label %" + q + "\n}\n"
	default:
		src = "!" + hEscMD(a) + " = !{}\n"
	}
	hC02Check(src)
}

// hEscMD spells a metadata name with every byte escaped (\XX), the form the
// lexer accepts in bare metadata names.
func hEscMD(s string) string { return hEsc(s) }

// VfC02_DINodes: the fixpoint over each of the 28 specialised metadata node
// kinds (minimal spellings, see hC17Kinds) and over every single-field
// variation of each (a bool set, a string or integer field set, an enum
// member chosen — variations generated from go/types, see zz_vf_c04_gen.go):
// the varied node is printed by the library (input x), parsed, printed (y),
// parsed and printed again (y' == y).  A field whose printed default differs
// from the parser's default for an absent field breaks exactly this.
//
//vf:unwind 2000
//vf:steps 400000000
//vf:shards 14
func VfC02_DINodes() {
	k := vfChoice("kind", len(hC17Kinds))
	src := "!nm = !{!3}\n!3 = " + hC17Kinds[k].text + "\n!4 = !{}\n!5 = !{!8}\n" +
		"!6 = distinct !DIGlobalVariable(name: \"gg\", scope: !8, file: !9, line: 2, type: !8, isLocal: true, isDefinition: true)\n" +
		"!7 = !{!3}\n!8 = !{}\n!9 = !DIFile(filename: \"a.c\", directory: \"/\")\n"
	m, err := ParseString("k.ll", src)
	if err != nil {
		vfReach("C02.dinodes")
		vfAssert("C02.dinodes.kind-accepted", false)
		return
	}
	node := hC17Def(m, 3)
	n := hMDNumVary(node)
	bools := hMDBoolFields(node)
	v := vfChoice("variation", n+1+len(bools))
	if v > n {
		// a bool field spelled out with its default value (`isOptimized: false`),
		// which the printer never writes: the first print drops it, and the
		// parser's default for the absent field must then be that same value
		name := bools[v-n-1]
		text := hC17Kinds[k].text
		if hContains(text, name+":") {
			vfCut("the field is already spelled in the minimal text")
		}
		sep := ", "
		if text[len(text)-2] == '(' {
			sep = ""
		}
		text = text[:len(text)-1] + sep + name + ": false)"
		src2 := "!nm = !{!3}\n!3 = " + text + "\n!4 = !{}\n!5 = !{!8}\n" +
			"!6 = distinct !DIGlobalVariable(name: \"gg\", scope: !8, file: !9, line: 2, type: !8, isLocal: true, isDefinition: true)\n" +
			"!7 = !{!3}\n!8 = !{}\n!9 = !DIFile(filename: \"a.c\", directory: \"/\")\n"
		hC02Check(src2)
		return
	}
	if v > 0 {
		hMDVary(node, v-1)
	}
	hC02Check(m.String())
}

// hSoupHeaders: a module whose global, alias, declaration and definition
// headers carry every optional part at once; a names one global.
func hSoupHeaders(a string) string {
	return "$c = comdat any\n@g = internal thread_local(localexec) local_unnamed_addr addrspace(2) constant i32 1, section \"s\", partition \"p\", comdat($c), align 4, !dbg !0\n@h = external dllimport externally_initialized global i32, align 8\n" + "@" + a + " = weak_odr" + " dso_local protected unnamed_addr global [2 x i8] c\"a\\00\", comdat($c)\n@al = internal thread_local unnamed_addr alias i32, i32 addrspace(2)* @g\ndeclare dso_local dllexport zeroext i32 @d(i32 inreg signext, i8* nocapture readonly byval(i8) align 4) local_unnamed_addr addrspace(1) #0 section \"t\" align 16 gc \"shadow-stack\"\ndefine hidden fastcc noalias i8* @f(i32 inreg %x, i8* nonnull dereferenceable(8) %p) unnamed_addr #0 section \"s\" comdat($c) align 8 gc \"g\" prefix i32 1 prologue i8 2 personality i8* null !dbg !1 {\nentry:\n  ret i8* %p\n}\nattributes #0 = { nounwind readnone \"k\"=\"v\" uwtable allocsize(0) }\n!llvm.dbg.cu = !{!2}\n!llvm.module.flags = !{!4}\n!0 = !DIGlobalVariableExpression(var: !5, expr: !DIExpression())\n!1 = distinct !DISubprogram(name: \"f\", unit: !2, file: !3, spFlags: DISPFlagDefinition)\n!2 = distinct !DICompileUnit(language: DW_LANG_C99, file: !3, emissionKind: FullDebug)\n!3 = !DIFile(filename: \"a.c\", directory: \"/\")\n!4 = !{i32 2, !\"Debug Info Version\", i32 3}\n!5 = distinct !DIGlobalVariable(name: \"g\", scope: !2, file: !3, line: 1, type: !6, isLocal: true, isDefinition: true)\n!6 = !DIBasicType(name: \"int\", size: 32, encoding: DW_ATE_signed)\n"
}

// hSoupInsts: a function in which every instruction that has optional flags
// carries them; a names the function.
func hSoupInsts(a string) string {
	return "declare i32 @g(i32)\ndeclare void @v()\ndeclare i32 @pers(...)\n" + "define void @" + a + "(" + "i32 %x, i32* %p, float %fl, <2 x float> %vf, i1 %c, { i32, i8 } %agg) personality i8* bitcast (i32 (...)* @pers to i8*) {\nentry:\n  %a1 = add nuw nsw i32 %x, 1\n  %a2 = sub nsw i32 %a1, %x\n  %a3 = mul nuw i32 %a2, 3\n  %a4 = shl nuw nsw i32 %a3, 1\n  %a5 = udiv exact i32 %a4, 2\n  %a6 = ashr exact i32 %a5, 1\n  %f1 = fadd fast float %fl, 1.0\n  %f2 = fmul nnan ninf nsz arcp contract afn reassoc float %f1, %fl\n  %f3 = fneg nnan float %f2\n  %f4 = fcmp nnan ninf olt float %f3, %fl\n  %s1 = select fast i1 %c, float %f1, float %f2\n  %al = alloca inalloca i32, i32 2, align 8\n  %l1 = load volatile i32, i32* %p, align 4\n  %l2 = load atomic volatile i32, i32* %p syncscope(\"agent\") seq_cst, align 4\n  store volatile i32 %l1, i32* %p, align 4\n  store atomic volatile i32 %l2, i32* %p syncscope(\"agent\") release, align 4\n  fence syncscope(\"agent\") acq_rel\n  %cx = cmpxchg weak volatile i32* %p, i32 %l1, i32 %l2 syncscope(\"agent\") acq_rel monotonic, align 4\n  %rmw = atomicrmw volatile xchg i32* %p, i32 %x syncscope(\"agent\") acquire, align 4\n  %gp = getelementptr inbounds i32, i32* %p, i32 1\n  %c1 = tail call fastcc zeroext i32 @g(i32 signext %x) #0\n  %c2 = notail call i32 @g(i32 %x)\n  %ev = extractvalue { i32, i8 } %agg, 0\n  %ve = extractelement <2 x float> %vf, i32 0\n  %sv = shufflevector <2 x float> %vf, <2 x float> %vf, <2 x i32> <i32 0, i32 3>\n  %iv = invoke fastcc i32 @g(i32 %x) to label %ok unwind label %lp\nok:\n  %ph = phi fast float [ %f1, %entry ]\n  ret void\nlp:\n  %e = landingpad { i8*, i32 } cleanup catch i8* null filter [0 x i8*] zeroinitializer\n  resume { i8*, i32 } %e\n}\nattributes #0 = { nounwind }\n"
}

// VfC02_Unnamed: up to three unnamed top-level entities of every kind (global
// variable, function, alias, ifunc) in every textual order, numbered in
// textual order as LLVM requires, one of them used by a named global: the
// printed text (entities regrouped by the printer, renumbered in output order)
// is accepted again and is a fixpoint.
//
//vf:unwind 200
//vf:shards 4
func VfC02_Unnamed() {
	n := vfLen("n", 1, 3)
	src := ""
	for i := 0; i < n; i++ {
		k := vfChoice("kind"+string(rune('0'+i)), 4)
		src += hUnnamedEntity(k, "@"+string(rune('0'+i)))
	}
	src += "@t = global i32 7\n@user = global i8* bitcast (i32* @t to i8*)\ndeclare void ()* @res()\n"
	hC02Check(src)
}

// VfC02_CaseNames: type definitions, comdats and named metadata whose names
// differ only in the case of a (symbolic) letter, or only by a trailing digit
// run with leading zeros, in both textual orders: the printed text is a
// fixpoint whatever the map order of the second parse (names that the order of
// the printer does not separate would keep the order of a map).
//
//vf:unwind 300
func VfC02_CaseNames() {
	l := hLetterIn("letter", 'a', 'z')
	u := string(rune(l[0] - 32))
	n1, n2 := "k"+l+"y", "k"+u+"y"
	if vfChoice("variant", 2) == 1 {
		n1, n2 = l+"7", l+"07"
	}
	if vfChoice("order", 2) == 1 {
		n1, n2 = n2, n1
	}
	var src string
	switch vfChoice("kind", 3) {
	case 0:
		src = "%" + n1 + " = type { i32 }\n%" + n2 + " = type { i64 }\n@g = global %" + n1 + " zeroinitializer\n@h = global %" + n2 + " zeroinitializer\n"
	case 1:
		src = "$" + n1 + " = comdat any\n$" + n2 + " = comdat largest\n@g = global i32 0, comdat($" + n1 + ")\n@h = global i32 0, comdat($" + n2 + ")\n"
	default:
		src = "!" + n1 + " = !{!0}\n!" + n2 + " = !{!1}\n!0 = !{}\n!1 = !{!0}\n"
	}
	hC02Check(src)
}

// VfC02_AttrGroupSpellings: an attribute group that repeats attributes in
// different spellings (`"k"="v"` and `"k" = "v"`, a keyword twice, the same
// string attribute on two definition lines of the group): whatever the parser
// merges or drops, it does so in one step - the printed text is a fixpoint.
//
//vf:unwind 300
func VfC02_AttrGroupSpellings() {
	x := hLetterIn("x", 'a', 'z')
	kv1, kv2 := "\"k"+x+"\"=\"v\"", "\"k"+x+"\" = \"v\""
	var src string
	switch vfChoice("shape", 3) {
	case 0:
		src = "attributes #0 = { " + kv1 + " nounwind " + kv2 + " nounwind }\n"
	case 1:
		src = "attributes #0 = { " + kv1 + " }\nattributes #0 = { " + kv2 + " \"z\" }\n"
	default:
		src = "attributes #0 = { \"" + x + "\" \"" + x + "\"  }\nattributes #0 = { \"" + x + "\"=\"\" }\n"
	}
	src = "define void @f() #0 {\n\tret void\n}\n" + src
	hC02Check(src)
}

// VfC02_NamedNonStructTypes: a type definition whose body is not a struct (an
// integer, a vector, an array or a pointer; LLVM resolves such names to the
// body) used inside a struct type definition, with symbolic names in either
// natural order and either textual order: the printer's ordering of the type
// definitions yields text that is accepted again and is a fixpoint.
//
//vf:unwind 300
//vf:shards 4
func VfC02_NamedNonStructTypes() {
	u := hLetterIn("user", 'b', 'y')
	d := hLetterIn("def", 'b', 'y')
	vfAssume(u != d)
	body := [...]string{"i32", "<2 x i8>", "[2 x i16]", "i8*"}[vfChoice("body", 4)]
	def := "%" + d + " = type " + body + "\n"
	use := "%" + u + " = type { i64, %" + d + " }\n"
	src := def + use
	if vfChoice("order", 2) == 1 {
		src = use + def
	}
	src += "@g = global %" + u + " zeroinitializer\n"
	hC02Check(src)
}

// VfC02_TypedUses: the printer writes the type of an operand from the type
// recorded for the defining instruction, and the parser derives the next
// type from that annotation; so a result type that is recorded wrongly shows
// in a def-use chain of length two.  Results of instructions that derive
// their type (extractvalue / insertvalue along nested index paths whose
// indices differ by depth, getelementptr, cmpxchg, a call returning a struct)
// are used by two further instructions each; the aggregate has fields of
// different (symbolic) widths.
//
//vf:unwind 400
//vf:shards 4
func VfC02_TypedUses() {
	w := vfString("w", 3)
	for i := 0; i < 3; i++ {
		vfAssume(vfAnd(w[i] >= '2', w[i] <= '9'))
	}
	vfAssume(vfAnd(w[0] != w[1], vfAnd(w[1] != w[2], w[0] != w[2])))
	a, b, c := "i"+w[0:1], "i"+w[1:2], "i"+w[2:3]
	agg := "{ " + a + ", { " + b + ", " + c + ", [2 x " + a + "] } }"
	// index path and the type it reaches
	paths := [...][2]string{{"0", a}, {"1, 0", b}, {"1, 1", c}, {"1, 2, 0", a}, {"1, 2, 1", a}}
	p := paths[vfChoice("path", len(paths))]
	src := "declare " + agg + " @mk()\n" +
		"define " + p[1] + " @f(" + agg + " %agg, " + p[1] + " %x, " + c + "* %q) {\n" +
		"\t%v = extractvalue " + agg + " %agg, " + p[0] + "\n" +
		"\t%w1 = add " + p[1] + " %v, %x\n" +
		"\t%w2 = mul " + p[1] + " %w1, %v\n" +
		"\t%i = insertvalue " + agg + " %agg, " + p[1] + " %w2, " + p[0] + "\n" +
		"\t%r = call " + agg + " @mk()\n" +
		"\t%rv = extractvalue " + agg + " %r, " + p[0] + "\n" +
		"\t%w3 = sub " + p[1] + " %rv, %w2\n" +
		"\t%cx = cmpxchg " + c + "* %q, " + c + " 0, " + c + " 1 seq_cst seq_cst\n" +
		"\t%old = extractvalue { " + c + ", i1 } %cx, 0\n" +
		"\t%ok = extractvalue { " + c + ", i1 } %cx, 1\n" +
		"\t%sel = select i1 %ok, " + c + " %old, " + c + " 7\n" +
		"\tstore " + c + " %sel, " + c + "* %q\n" +
		"\t%iv = extractvalue " + agg + " %i, " + p[0] + "\n" +
		"\t%w4 = xor " + p[1] + " %iv, %w3\n" +
		"\tret " + p[1] + " %w4\n}\n"
	hC02Check(src)
}
