//go:build verif

package asm

import (
	"github.com/llir/llvm/ir"
	"github.com/llir/llvm/ir/constant"
	"github.com/llir/llvm/ir/types"
)

// C10 (parser side): a floating-point literal inside a module denotes the
// value it denotes on its own: every float constant of a parsed module prints
// exactly as constant.NewFloatFromString of the same kind and spelling prints,
// whatever other literals (the same spelling at another kind, in either order)
// the module contains; and the printed module denotes the same values again.
// Concrete literals (the float conversions run natively on concrete values,
// see DESIGN §0.2): a finite table, supplementary to the solver-decided
// obligations of C10.

// each literal with the kinds in which it is exactly representable (LLVM
// rejects a literal that is not exact in its type; 1 = half, 2 = float, 4 = double)
var hC10Lits = [...]struct {
	lit   string
	kinds int
}{{"134217728.0", 6}, {"33824.0", 7}, {"0x419D6F3460000000", 6}, {"1.0", 7}, {"0.1", 4}, {"16777217.0", 4}, {"65504.0", 7}, {"1.0e-8", 4}, {"0x36A0000000000000", 6}, {"0.5", 7}, {"2048.0", 7}}
var hC10Kinds = [...]struct {
	text string
	kind types.FloatKind
}{{"half", types.FloatKindHalf}, {"float", types.FloatKindFloat}, {"double", types.FloatKindDouble}}

//vf:unwind 600
//vf:shards 16
func VfC10_ParseContext() {
	l := vfChoice("literal", len(hC10Lits))
	ka := vfChoice("first.kind", len(hC10Kinds))
	kb := vfChoice("second.kind", len(hC10Kinds))
	lit := hC10Lits[l].lit
	if hC10Lits[l].kinds>>uint(ka)&1 == 0 || hC10Lits[l].kinds>>uint(kb)&1 == 0 {
		vfCut("literal not exactly representable in this kind")
	}
	A, B := hC10Kinds[ka], hC10Kinds[kb]
	// the literal must be valid for both kinds on its own (LLVM requires a
	// hexadecimal literal to be exactly representable in the type)
	ta, tb := &types.FloatType{Kind: A.kind}, &types.FloatType{Kind: B.kind}
	ca, errA := constant.NewFloatFromString(ta, lit)
	cb, errB := constant.NewFloatFromString(tb, lit)
	if errA != nil || errB != nil {
		vfCut("literal not accepted for this kind on its own")
	}
	wantA, wantB := ca.Ident(), cb.Ident()
	src := "@g = global { " + A.text + ", " + B.text + " } { " + A.text + " " + lit + ", " + B.text + " " + lit + " }\n" +
		"@h = global " + B.text + " " + lit + "\n"
	m, err := ParseString("t.ll", src)
	vfReach("C10.parse.context")
	vfObserveStr("src", src)
	vfAssert("C10.context.accepted", err == nil)
	if err != nil {
		return
	}
	st, isStruct := m.Globals[0].Init.(*constant.Struct)
	vfAssert("C10.context.is-struct", vfAnd(isStruct, len(m.Globals) == 2))
	if !isStruct {
		return
	}
	fa, okA := st.Fields[0].(*constant.Float)
	fb, okB := st.Fields[1].(*constant.Float)
	fh, okH := m.Globals[1].Init.(*constant.Float)
	vfAssert("C10.context.are-floats", vfAnd(okA, vfAnd(okB, okH)))
	if !okA || !okB || !okH {
		return
	}
	vfAssert("C10.context.first-denotes-its-own-value", fa.Ident() == wantA)
	vfAssert("C10.context.second-denotes-its-own-value", fb.Ident() == wantB)
	vfAssert("C10.context.global-denotes-its-own-value", fh.Ident() == wantB)
	y := m.String()
	vfObserveStr("printed", y)
	m2, err2 := ParseString("t.ll", y)
	vfAssert("C10.context.print-accepted", err2 == nil)
	if err2 == nil {
		vfAssert("C10.context.print-fixpoint", m2.String() == y)
	}
}

// VfC10_Aggregates: special values inside aggregates.  A literal of a special
// class (NaN and infinity of either sign, zero of either sign, one) in an
// array, a vector and a struct whose other leaves are zero or the same
// literal, for double / float / half (16-digit layout): every leaf read back
// after parse, print, parse is the literal it was (NaN flag, sign, printed
// form), whatever shorthand the printer may use for the aggregate.
//
//vf:unwind 600
//vf:shards 6
func VfC10_Aggregates() {
	lits := [...]string{"0x7FF8000000000000", "0xFFF8000000000000", "0x7FF0000000000000", "0xFFF0000000000000", "0.0", "-0.0", "1.0"}
	lit := lits[vfChoice("literal", len(lits))]
	K := hC10Kinds[vfChoice("kind", len(hC10Kinds))]
	other := "0.0"
	if vfChoice("other", 2) == 1 {
		other = lit
	}
	t := K.text
	src := "@a = global [2 x " + t + "] [" + t + " " + lit + ", " + t + " " + other + "]\n" +
		"@v = global <2 x " + t + "> <" + t + " " + other + ", " + t + " " + lit + ">\n" +
		"@s = global { " + t + ", i32, " + t + " } { " + t + " " + lit + ", i32 0, " + t + " " + other + " }\n"
	ref, errR := constant.NewFloatFromString(&types.FloatType{Kind: K.kind}, lit)
	refO, errO := constant.NewFloatFromString(&types.FloatType{Kind: K.kind}, other)
	if errR != nil || errO != nil {
		vfCut("literal not accepted for this kind on its own")
	}
	m, err := ParseString("t.ll", src)
	vfReach("C10.aggregates")
	vfObserveStr("src", src)
	vfAssert("C10.aggregates.accepted", err == nil)
	if err != nil {
		return
	}
	y := m.String()
	vfObserveStr("printed", y)
	m2, err2 := ParseString("t2.ll", y)
	vfAssert("C10.aggregates.print-accepted", err2 == nil)
	if err2 != nil {
		return
	}
	same := func(c constant.Constant, want *constant.Float) bool {
		// a leaf may have been folded into a zeroinitializer by either side:
		// that is only right for a positive zero
		if _, isZero := c.(*constant.ZeroInitializer); isZero {
			return vfAnd(vfNot(want.NaN), vfAnd(want.X.Sign() == 0, vfNot(want.X.Signbit())))
		}
		f, ok := c.(*constant.Float)
		if !ok {
			return false
		}
		return vfAnd(f.NaN == want.NaN, vfAnd(f.X.Signbit() == want.X.Signbit(), f.Ident() == want.Ident()))
	}
	leaves := func(mm *ir.Module) bool {
		r := true
		switch a := mm.Globals[0].Init.(type) {
		case *constant.Array:
			r = vfAnd(r, vfAnd(same(a.Elems[0], ref), same(a.Elems[1], refO)))
		case *constant.ZeroInitializer:
			r = vfAnd(r, vfAnd(same(a, ref), same(a, refO)))
		default:
			r = false
		}
		switch v := mm.Globals[1].Init.(type) {
		case *constant.Vector:
			r = vfAnd(r, vfAnd(same(v.Elems[0], refO), same(v.Elems[1], ref)))
		case *constant.ZeroInitializer:
			r = vfAnd(r, vfAnd(same(v, ref), same(v, refO)))
		default:
			r = false
		}
		switch s := mm.Globals[2].Init.(type) {
		case *constant.Struct:
			r = vfAnd(r, vfAnd(same(s.Fields[0], ref), same(s.Fields[2], refO)))
		case *constant.ZeroInitializer:
			r = vfAnd(r, vfAnd(same(s, ref), same(s, refO)))
		default:
			r = false
		}
		return r
	}
	vfAssert("C10.aggregates.leaves-parsed", leaves(m))
	vfAssert("C10.aggregates.leaves-kept-through-print", leaves(m2))
	vfAssert("C10.aggregates.print-fixpoint", m2.String() == y)
}
