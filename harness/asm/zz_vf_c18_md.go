//go:build verif

package asm

import (
	"github.com/llir/llvm/ir"
	irenum "github.com/llir/llvm/ir/enum"
	"github.com/llir/llvm/ir/metadata"
)

// VfC18_MetadataEnums: the enumerations of debug-info metadata end to end.
// A module built through the IR API holds one specialised node that carries
// one declared member (tables generated on each run from go/types:
// zz_vf_c18_members_gen.go) at one carrier position; it is printed, parsed by
// the whole real pipeline (L3) and the re-parsed node must carry the very
// member at the very position, and print identically.  Carrier positions: a
// field of a node (DIBasicType.Encoding, DICompositeType.Tag,
// DICompileUnit.Language / EmissionKind / NameTableKind, DISubprogram.
// Virtuality, DISubroutineType.CC, DIFile.Checksumkind, DIMacro.Type) and the
// elements of a !DIExpression (an encoding or an operation alone, after an
// operation that takes operands, between two operations, after
// DW_OP_LLVM_convert and its size).
//
//vf:unwind 600
//vf:shards 16
//vf:steps 100000000
func VfC18_MetadataEnums() {
	site := vfChoice("site", 11)
	m := ir.NewModule()
	var node metadata.Definition
	same := func(d metadata.Definition) bool { return false }
	switch site {
	case 0:
		e := hC18MDwarfAttEncoding[vfChoice("member", len(hC18MDwarfAttEncoding))]
		node = &metadata.DIBasicType{MetadataID: -1, Name: "t", Size: 32, Encoding: e}
		same = func(d metadata.Definition) bool {
			x, ok := d.(*metadata.DIBasicType)
			return ok && x.Encoding == e
		}
	case 1, 2, 3, 4:
		e := hC18MDwarfAttEncoding[vfChoice("member", len(hC18MDwarfAttEncoding))]
		var fs []metadata.DIExpressionField
		pos := 0
		switch site {
		case 1:
			fs = []metadata.DIExpressionField{e}
		case 2:
			fs, pos = []metadata.DIExpressionField{irenum.DwarfOpConstu, e, irenum.DwarfOpStackValue}, 1
		case 3:
			fs, pos = []metadata.DIExpressionField{irenum.DwarfOpLLVMConvert, metadata.UintLit(8), e}, 2
		default:
			fs, pos = []metadata.DIExpressionField{irenum.DwarfOpDeref, e}, 1
		}
		node = &metadata.DIExpression{MetadataID: -1, Fields: fs}
		same = func(d metadata.Definition) bool {
			x, ok := d.(*metadata.DIExpression)
			if !ok || len(x.Fields) != len(fs) {
				return false
			}
			g, ok := x.Fields[pos].(irenum.DwarfAttEncoding)
			return ok && g == e
		}
	case 5, 6:
		op := hC18MDwarfOp[vfChoice("member", len(hC18MDwarfOp))]
		fs, pos := []metadata.DIExpressionField{op}, 0
		if site == 6 {
			fs, pos = []metadata.DIExpressionField{irenum.DwarfOpPlusUconst, metadata.UintLit(1), op, irenum.DwarfOpStackValue}, 2
		}
		node = &metadata.DIExpression{MetadataID: -1, Fields: fs}
		same = func(d metadata.Definition) bool {
			x, ok := d.(*metadata.DIExpression)
			if !ok || len(x.Fields) != len(fs) {
				return false
			}
			g, ok := x.Fields[pos].(irenum.DwarfOp)
			return ok && g == op
		}
	case 7:
		t := hC18MDwarfTag[vfChoice("member", len(hC18MDwarfTag))]
		node = &metadata.DICompositeType{MetadataID: -1, Tag: t, Name: "c"}
		same = func(d metadata.Definition) bool {
			x, ok := d.(*metadata.DICompositeType)
			return ok && x.Tag == t
		}
	case 8:
		l := hC18MDwarfLang[vfChoice("member", len(hC18MDwarfLang))]
		ek := hC18MEmissionKind[vfChoice("emission", len(hC18MEmissionKind))]
		nk := hC18MNameTableKind[vfChoice("nametable", len(hC18MNameTableKind))]
		file := &metadata.DIFile{MetadataID: -1, Filename: "a.c", Directory: "/"}
		m.MetadataDefs = append(m.MetadataDefs, file)
		node = &metadata.DICompileUnit{MetadataID: -1, Distinct: true, Language: l, File: file, EmissionKind: ek, NameTableKind: nk}
		same = func(d metadata.Definition) bool {
			x, ok := d.(*metadata.DICompileUnit)
			return ok && x.Language == l && x.EmissionKind == ek && x.NameTableKind == nk
		}
	case 9:
		v := hC18MDwarfVirtuality[vfChoice("member", len(hC18MDwarfVirtuality))]
		cc := hC18MDwarfCC[vfChoice("cc", len(hC18MDwarfCC))]
		st := &metadata.DISubroutineType{MetadataID: -1, CC: cc, Types: &metadata.Tuple{MetadataID: -1}}
		m.MetadataDefs = append(m.MetadataDefs, st)
		node = &metadata.DISubprogram{MetadataID: -1, Name: "f", Type: st, Virtuality: v}
		same = func(d metadata.Definition) bool {
			x, ok := d.(*metadata.DISubprogram)
			if !ok {
				return false
			}
			y, ok := x.Type.(*metadata.DISubroutineType)
			return ok && x.Virtuality == v && y.CC == cc
		}
	default:
		ck := hC18MChecksumKind[vfChoice("member", len(hC18MChecksumKind))]
		mi := hC18MDwarfMacinfo[vfChoice("macinfo", len(hC18MDwarfMacinfo))]
		file := &metadata.DIFile{MetadataID: -1, Filename: "a.c", Directory: "/", Checksumkind: ck, Checksum: "00"}
		m.MetadataDefs = append(m.MetadataDefs, file)
		node = &metadata.DIMacro{MetadataID: -1, Type: mi, Line: 1, Name: "M"}
		same = func(d metadata.Definition) bool {
			x, ok := d.(*metadata.DIMacro)
			if !ok {
				return false
			}
			return x.Type == mi
		}
	}
	m.MetadataDefs = append(m.MetadataDefs, node)
	s := m.String()
	vfReach("C18.mdenum")
	vfObserveStr("printed", s)
	m2, err := ParseString("t.ll", s)
	vfAssert("C18.mdenum.reparses", err == nil)
	if err != nil {
		return
	}
	vfAssert("C18.mdenum.same-definitions", len(m2.MetadataDefs) == len(m.MetadataDefs))
	if len(m2.MetadataDefs) != len(m.MetadataDefs) {
		return
	}
	vfAssert("C18.mdenum.member-kept-at-its-position", same(m2.MetadataDefs[len(m2.MetadataDefs)-1]))
	if site == 10 {
		f2, ok := m2.MetadataDefs[0].(*metadata.DIFile)
		vfAssert("C18.mdenum.checksum-kind-kept", ok && f2.Checksumkind == m.MetadataDefs[0].(*metadata.DIFile).Checksumkind)
	}
	vfAssert("C18.mdenum.fixpoint", m2.String() == s)
}
