// Package vfmodel holds Go-source models of library functions.  The symbolic
// executor redirects calls of the real functions to these bodies and
// interprets them like any other code; the same source compiles natively, so
// each model is diff-tested against the real function (see selftest).
package vfmodel

import (
	"io"
	"sync"
)

// provided by the executor (engine intercept) / by rt_native.go natively
//   vfIntOf(x)  : value of any integer-kinded dynamic type
//   vfStrOf(x)  : value of any string-kinded dynamic type
//   vfSwap(x,i,j): swap two elements of the slice in x
//   vfCut(msg)  : end the path as a stated cut (native: panic)

func itoa(u uint64, base uint64, upper bool, minWidth int) []byte {
	var tmp [72]byte
	i := len(tmp)
	digits := "0123456789abcdef"
	if upper {
		digits = "0123456789ABCDEF"
	}
	for u >= base {
		i--
		tmp[i] = digits[u%base]
		u /= base
	}
	i--
	tmp[i] = digits[u]
	for len(tmp)-i < minWidth {
		i--
		tmp[i] = '0'
	}
	return tmp[i:]
}

func fmtInt(arg interface{}, base uint64, upper bool, w int) []byte {
	v, signed, ok := vfIntOf(arg)
	if !ok {
		vfCut("vfmodel: integer verb with non-integer argument")
	}
	if signed && int64(v) < 0 {
		if w > 0 {
			w--
		}
		return append([]byte{'-'}, itoa(uint64(-int64(v)), base, upper, w)...)
	}
	return itoa(v, base, upper, w)
}

type stringer interface{ String() string }
type errorer interface{ Error() string }

func toStr(arg interface{}) string {
	switch v := arg.(type) {
	case nil:
		return "<nil>"
	case string:
		return v
	case []byte:
		return string(v)
	case bool:
		if v {
			return "true"
		}
		return "false"
	case errorer:
		return v.Error()
	case stringer:
		return v.String()
	}
	if s, ok := vfStrOf(arg); ok {
		return s
	}
	if _, _, ok := vfIntOf(arg); ok {
		return string(fmtInt(arg, 10, false, 0))
	}
	vfCut("vfmodel: unsupported %s/%v argument")
	return ""
}

// quote is strconv.Quote for ASCII strings (Go escapes: \a \b \f \n \r \t \v
// \\ \" and \xNN for the other control bytes and DEL); bytes above 0x7F need
// UTF-8 decoding and end the path as a stated cut.
func quote(s string) string {
	const hex = "0123456789abcdef"
	out := []byte{'"'}
	// one decision for the common case (nothing to escape), built without
	// branching; only strings that need escapes are walked byte by byte
	needs := false
	for i := 0; i < len(s); i++ {
		c := s[i]
		needs = vfOr(needs, vfOr(vfOr(c < 0x20, c >= 0x7f), vfOr(c == '"', c == '\\')))
	}
	if !needs {
		out = append(out, s...)
		return string(append(out, '"'))
	}
	for i := 0; i < len(s); i++ {
		c := s[i]
		switch {
		case c >= 0x80:
			vfCut("vfmodel: %q of a non-ASCII string")
		case c == '"' || c == '\\':
			out = append(out, '\\', c)
		case c == '\a':
			out = append(out, '\\', 'a')
		case c == '\b':
			out = append(out, '\\', 'b')
		case c == '\f':
			out = append(out, '\\', 'f')
		case c == '\n':
			out = append(out, '\\', 'n')
		case c == '\r':
			out = append(out, '\\', 'r')
		case c == '\t':
			out = append(out, '\\', 't')
		case c == '\v':
			out = append(out, '\\', 'v')
		case c < 0x20 || c == 0x7f:
			out = append(out, '\\', 'x', hex[c>>4], hex[c&15])
		default:
			out = append(out, c)
		}
	}
	return string(append(out, '"'))
}

// Sprintf supports the verbs used by llir/llvm: %s %v %d %c %X %x %q %t with
// an optional zero-padded width, and %%.
func Sprintf(format string, a ...interface{}) string {
	var out []byte
	ai := 0
	for i := 0; i < len(format); i++ {
		c := format[i]
		if c != '%' {
			out = append(out, c)
			continue
		}
		i++
		w := 0
		for format[i] >= '0' && format[i] <= '9' {
			w = w*10 + int(format[i]-'0')
			i++
		}
		switch format[i] {
		case '%':
			out = append(out, '%')
		case 's', 'v':
			out = append(out, toStr(a[ai])...)
			ai++
		case 'q':
			out = append(out, quote(toStr(a[ai]))...)
			ai++
		case 'd':
			out = append(out, fmtInt(a[ai], 10, false, w)...)
			ai++
		case 'X':
			out = append(out, fmtInt(a[ai], 16, true, w)...)
			ai++
		case 'x':
			out = append(out, fmtInt(a[ai], 16, false, w)...)
			ai++
		case 't':
			out = append(out, toStr(a[ai])...)
			ai++
		case 'c':
			v, _, ok := vfIntOf(a[ai])
			if !ok || v >= 0x80 {
				vfCut("vfmodel: %c of a non-ASCII value")
			}
			out = append(out, byte(v))
			ai++
		default:
			vfCut("vfmodel: unsupported verb")
		}
	}
	return string(out)
}

func Fprintf(w io.Writer, format string, a ...interface{}) (int, error) {
	return w.Write([]byte(Sprintf(format, a...)))
}

func isStr(x interface{}) bool {
	_, ok := x.(string)
	return ok
}

func Sprint(a ...interface{}) string {
	var out []byte
	for i, x := range a {
		if i > 0 && !isStr(a[i-1]) && !isStr(x) {
			out = append(out, ' ')
		}
		out = append(out, toStr(x)...)
	}
	return string(out)
}

func Fprint(w io.Writer, a ...interface{}) (int, error) {
	return w.Write([]byte(Sprint(a...)))
}

func Sprintln(a ...interface{}) string {
	var out []byte
	for i, x := range a {
		if i > 0 {
			out = append(out, ' ')
		}
		out = append(out, toStr(x)...)
	}
	out = append(out, '\n')
	return string(out)
}

func Fprintln(w io.Writer, a ...interface{}) (int, error) {
	return w.Write([]byte(Sprintln(a...)))
}

// ---- strings

func Join(elems []string, sep string) string {
	var out []byte
	for i, e := range elems {
		if i > 0 {
			out = append(out, sep...)
		}
		out = append(out, e...)
	}
	return string(out)
}

func Repeat(s string, n int) string {
	if n < 0 {
		panic("strings: negative Repeat count")
	}
	var out []byte
	for i := 0; i < n; i++ {
		out = append(out, s...)
	}
	return string(out)
}

func ToUpper(s string) string {
	out := make([]byte, len(s))
	for i := 0; i < len(s); i++ {
		c := s[i]
		if c >= 0x80 {
			vfCut("vfmodel: ToUpper of non-ASCII")
		}
		if vfAnd('a' <= c, c <= 'z') {
			c -= 'a' - 'A'
		}
		out[i] = c
	}
	return string(out)
}

func ToLower(s string) string {
	out := make([]byte, len(s))
	for i := 0; i < len(s); i++ {
		c := s[i]
		if c >= 0x80 {
			vfCut("vfmodel: ToLower of non-ASCII")
		}
		if vfAnd('A' <= c, c <= 'Z') {
			c += 'a' - 'A'
		}
		out[i] = c
	}
	return string(out)
}

func Index(s, sub string) int {
	n := len(sub)
	for i := 0; i+n <= len(s); i++ {
		if s[i:i+n] == sub {
			return i
		}
	}
	return -1
}

func Contains(s, sub string) bool { return Index(s, sub) >= 0 }

func LastIndex(s, sub string) int {
	n := len(sub)
	for i := len(s) - n; i >= 0; i-- {
		if s[i:i+n] == sub {
			return i
		}
	}
	return -1
}

func Split(s, sep string) []string {
	if sep == "" {
		vfCut("vfmodel: Split with empty separator")
	}
	var out []string
	for {
		i := Index(s, sep)
		if i < 0 {
			break
		}
		out = append(out, s[:i])
		s = s[i+len(sep):]
	}
	return append(out, s)
}

func isSpace(c byte) bool {
	return c == ' ' || c == '\t' || c == '\n' || c == '\v' || c == '\f' || c == '\r'
}

func TrimSpace(s string) string {
	for len(s) > 0 && isSpace(s[0]) {
		s = s[1:]
	}
	for len(s) > 0 && isSpace(s[len(s)-1]) {
		s = s[:len(s)-1]
	}
	for i := 0; i < len(s); i++ {
		if s[i] >= 0x80 {
			vfCut("vfmodel: TrimSpace of non-ASCII")
		}
	}
	return s
}

func Replace(s, old, new string, n int) string {
	if old == "" {
		vfCut("vfmodel: Replace with empty old")
	}
	var out []byte
	for n != 0 {
		i := Index(s, old)
		if i < 0 {
			break
		}
		out = append(out, s[:i]...)
		out = append(out, new...)
		s = s[i+len(old):]
		n--
	}
	return string(append(out, s...))
}

func ReplaceAll(s, old, new string) string { return Replace(s, old, new, -1) }

func TrimLeft(s, cutset string) string {
	for len(s) > 0 && containsByte(cutset, s[0]) {
		s = s[1:]
	}
	return s
}
func TrimRight(s, cutset string) string {
	for len(s) > 0 && containsByte(cutset, s[len(s)-1]) {
		s = s[:len(s)-1]
	}
	return s
}
func Trim(s, cutset string) string { return TrimRight(TrimLeft(s, cutset), cutset) }

func containsByte(s string, c byte) bool {
	for i := 0; i < len(s); i++ {
		if s[i] == c {
			return true
		}
	}
	return false
}

// ---- strconv

func Itoa(i int) string { return FormatInt(int64(i), 10) }
func FormatInt(i int64, base int) string {
	if i < 0 {
		return "-" + string(itoa(uint64(-i), uint64(base), false, 0))
	}
	return string(itoa(uint64(i), uint64(base), false, 0))
}
func FormatUint(i uint64, base int) string { return string(itoa(i, uint64(base), false, 0)) }
func Quote(s string) string                { return quote(s) }

// ---- sort (insertion sort: stable, so ties show up as order dependence)

type sortIface interface {
	Len() int
	Less(i, j int) bool
	Swap(i, j int)
}

func Sort(data sortIface) {
	n := data.Len()
	sortCheck(n, data.Less)
	for i := 1; i < n; i++ {
		for j := i; j > 0 && data.Less(j, j-1); j-- {
			data.Swap(j, j-1)
		}
	}
}

func Slice(x interface{}, less func(i, j int) bool) {
	n := vfLenOf(x)
	sortCheck(n, less)
	for i := 1; i < n; i++ {
		for j := i; j > 0 && less(j, j-1); j-- {
			vfSwap(x, j, j-1)
		}
	}
}

func Strings(x []string) {
	for i := 1; i < len(x); i++ {
		for j := i; j > 0 && x[j] < x[j-1]; j-- {
			x[j], x[j-1] = x[j-1], x[j]
		}
	}
}

// sortCheck states the comparator contract as a side obligation: on the keys
// of this call, less must be irreflexive, asymmetric and transitive (so that a
// sorted order exists and does not depend on the algorithm, up to ties).  The
// formulas are built without branching (vfAnd/vfNot are term builders in the
// executor), so the check adds no paths.
func sortCheck(n int, less func(i, j int) bool) {
	if n > 4 {
		return
	}
	var l [4][4]bool
	for i := 0; i < n; i++ {
		for j := 0; j < n; j++ {
			l[i][j] = less(i, j)
		}
	}
	for i := 0; i < n; i++ {
		vfSortOblig("irreflexive", vfNot(l[i][i]))
		for j := i + 1; j < n; j++ {
			vfSortOblig("asymmetric", vfNot(vfAnd(l[i][j], l[j][i])))
		}
	}
	for i := 0; i < n; i++ {
		for j := 0; j < n; j++ {
			for k := 0; k < n; k++ {
				if i != j && j != k && i != k {
					vfSortOblig("transitive", vfOr(vfNot(vfAnd(l[i][j], l[j][k])), l[i][k]))
				}
			}
		}
	}
}

// ---------------------------------------------------------------------------
// sync.Pool: the objects put into a pool are kept per pool; Get may hand out
// any pooled object or none of them (the runtime is free to drop pooled
// objects at any time), so every possibility is a forked path.

var pools = map[*sync.Pool][]interface{}{}

var poolMu sync.Mutex

func PoolGet(p *sync.Pool) interface{} {
	poolMu.Lock()
	items := pools[p]
	k := vfPick(len(items) + 1)
	if k < len(items) {
		x := items[len(items)-1-k] // k = 0: the most recently pooled object
		rest := make([]interface{}, 0, len(items)-1)
		for i, it := range items {
			if i != len(items)-1-k {
				rest = append(rest, it)
			}
		}
		pools[p] = rest
		poolMu.Unlock()
		return x
	}
	poolMu.Unlock()
	if p.New != nil {
		return p.New()
	}
	return nil
}

func PoolPut(p *sync.Pool, x interface{}) {
	if x == nil {
		return
	}
	poolMu.Lock()
	pools[p] = append(pools[p], x)
	poolMu.Unlock()
}

func SliceIsSorted(x interface{}, less func(i, j int) bool) bool {
	n := vfLenOf(x)
	for i := n - 1; i > 0; i-- {
		if less(i, i-1) {
			return false
		}
	}
	return true
}

func IsSorted(data sortIface) bool {
	n := data.Len()
	for i := n - 1; i > 0; i-- {
		if data.Less(i, i-1) {
			return false
		}
	}
	return true
}

func StringsAreSorted(x []string) bool {
	for i := len(x) - 1; i > 0; i-- {
		if x[i] < x[i-1] {
			return false
		}
	}
	return true
}

func Ints(x []int) {
	for i := 1; i < len(x); i++ {
		for j := i; j > 0 && x[j] < x[j-1]; j-- {
			x[j], x[j-1] = x[j-1], x[j]
		}
	}
}

func IntsAreSorted(x []int) bool {
	for i := len(x) - 1; i > 0; i-- {
		if x[i] < x[i-1] {
			return false
		}
	}
	return true
}

// ---------------------------------------------------------------------------
// sync.Map: an association list per map object behind one model mutex (the
// real type synchronises internally; the mutex makes that visible to the
// race analysis and gives the scheduler its switching points).

type smEntry struct{ k, v interface{} }

var syncMaps = map[*sync.Map][]smEntry{}
var syncMapMu sync.Mutex

func MapLoad(m *sync.Map, key interface{}) (interface{}, bool) {
	syncMapMu.Lock()
	defer syncMapMu.Unlock()
	for _, e := range syncMaps[m] {
		if e.k == key {
			return e.v, true
		}
	}
	return nil, false
}

func MapStore(m *sync.Map, key, value interface{}) {
	syncMapMu.Lock()
	defer syncMapMu.Unlock()
	es := syncMaps[m]
	for i, e := range es {
		if e.k == key {
			ne := make([]smEntry, len(es))
			copy(ne, es)
			ne[i].v = value
			syncMaps[m] = ne
			return
		}
	}
	syncMaps[m] = append(es[:len(es):len(es)], smEntry{key, value})
}

func MapLoadOrStore(m *sync.Map, key, value interface{}) (interface{}, bool) {
	syncMapMu.Lock()
	defer syncMapMu.Unlock()
	es := syncMaps[m]
	for _, e := range es {
		if e.k == key {
			return e.v, true
		}
	}
	syncMaps[m] = append(es[:len(es):len(es)], smEntry{key, value})
	return value, false
}

func MapLoadAndDelete(m *sync.Map, key interface{}) (interface{}, bool) {
	syncMapMu.Lock()
	defer syncMapMu.Unlock()
	es := syncMaps[m]
	for i, e := range es {
		if e.k == key {
			ne := make([]smEntry, 0, len(es))
			ne = append(ne, es[:i]...)
			ne = append(ne, es[i+1:]...)
			syncMaps[m] = ne
			return e.v, true
		}
	}
	return nil, false
}

func MapDelete(m *sync.Map, key interface{}) { MapLoadAndDelete(m, key) }

func MapSwap(m *sync.Map, key, value interface{}) (interface{}, bool) {
	syncMapMu.Lock()
	defer syncMapMu.Unlock()
	es := syncMaps[m]
	for i, e := range es {
		if e.k == key {
			ne := make([]smEntry, len(es))
			copy(ne, es)
			ne[i].v = value
			syncMaps[m] = ne
			return e.v, true
		}
	}
	syncMaps[m] = append(es[:len(es):len(es)], smEntry{key, value})
	return nil, false
}

func MapCompareAndSwap(m *sync.Map, key, old, new interface{}) bool {
	syncMapMu.Lock()
	defer syncMapMu.Unlock()
	es := syncMaps[m]
	for i, e := range es {
		if e.k == key {
			if e.v != old {
				return false
			}
			ne := make([]smEntry, len(es))
			copy(ne, es)
			ne[i].v = new
			syncMaps[m] = ne
			return true
		}
	}
	return false
}

func MapClear(m *sync.Map) {
	syncMapMu.Lock()
	defer syncMapMu.Unlock()
	syncMaps[m] = nil
}

func MapRange(m *sync.Map, f func(key, value interface{}) bool) {
	syncMapMu.Lock()
	es := syncMaps[m]
	syncMapMu.Unlock()
	for _, e := range es {
		if !f(e.k, e.v) {
			return
		}
	}
}
