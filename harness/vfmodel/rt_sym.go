//go:build vfsym

package vfmodel

func vfIntOf(x interface{}) (uint64, bool, bool) { return 0, false, false }
func vfStrOf(x interface{}) (string, bool)      { return "", false }
func vfSwap(x interface{}, i, j int)            {}
func vfLenOf(x interface{}) int                 { return 0 }
func vfCut(msg string)                          {}
func vfSortOblig(what string, c bool)           {}
func vfAnd(a, b bool) bool                      { return a && b }
func vfOr(a, b bool) bool                       { return a || b }
func vfNot(a bool) bool                         { return !a }
func vfPick(n int) int                          { return 0 }
