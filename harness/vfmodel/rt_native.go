//go:build !vfsym

package vfmodel

import "reflect"

func vfIntOf(x interface{}) (uint64, bool, bool) {
	v := reflect.ValueOf(x)
	switch v.Kind() {
	case reflect.Int, reflect.Int8, reflect.Int16, reflect.Int32, reflect.Int64:
		return uint64(v.Int()), true, true
	case reflect.Uint, reflect.Uint8, reflect.Uint16, reflect.Uint32, reflect.Uint64, reflect.Uintptr:
		return v.Uint(), false, true
	}
	return 0, false, false
}
func vfStrOf(x interface{}) (string, bool) {
	v := reflect.ValueOf(x)
	if v.Kind() == reflect.String {
		return v.String(), true
	}
	return "", false
}
func vfSwap(x interface{}, i, j int) { reflect.Swapper(x)(i, j) }
func vfLenOf(x interface{}) int      { return reflect.ValueOf(x).Len() }
func vfCut(msg string)               { panic("vfcut: " + msg) }
func vfSortOblig(what string, c bool) {
	if !c {
		panic("vfmodel: comparator is not a strict order: " + what)
	}
}
func vfAnd(a, b bool) bool { return a && b }
func vfOr(a, b bool) bool  { return a || b }
func vfNot(a bool) bool    { return !a }

func vfPick(n int) int { return 0 }
