//go:build verif

package enc

// C11 (encoder side): every printed identifier / string token is read by a
// reference model of LLVM 14's lexer (LLLexer.cpp: LexVar/LexDollar/
// LexExclaim/LexIdentifier/LexQuote + UnEscapeLexed) as exactly one token of
// the right kind whose unescaped text is the original byte string; distinct
// names print differently; the library's own Unescape/Unquote invert
// Escape/Quote.

func hN() int {
	if vfTier() > 0 {
		return 4
	}
	return 3
}

func hIsDigit(b byte) bool { return vfAnd(b >= '0', b <= '9') }
func hIsHead(b byte) bool {
	return vfOr(vfOr(vfAnd(b >= 'a', b <= 'z'), vfAnd(b >= 'A', b <= 'Z')), vfOr(vfOr(b == '$', b == '-'), vfOr(b == '.', b == '_')))
}
func hIsTail(b byte) bool { return vfOr(hIsHead(b), hIsDigit(b)) }

func hHexVal(b byte) (byte, bool) {
	if vfAnd(b >= '0', b <= '9') {
		return b - '0', true
	}
	if vfAnd(b >= 'a', b <= 'f') {
		return b - 'a' + 10, true
	}
	if vfAnd(b >= 'A', b <= 'F') {
		return b - 'A' + 10, true
	}
	return 0, false
}

// hUnEscapeLexed mirrors llvm::UnEscapeLexed: "\\" -> '\', "\XX" -> byte, any
// other backslash is kept.
func hUnEscapeLexed(s string) string {
	var out []byte
	for i := 0; i < len(s); i++ {
		if s[i] == '\\' {
			if i+1 < len(s) {
				if s[i+1] == '\\' {
					out = append(out, '\\')
					i++
					continue
				}
			}
			if i+2 < len(s) {
				h1, ok1 := hHexVal(s[i+1])
				if ok1 {
					h2, ok2 := hHexVal(s[i+2])
					if ok2 {
						out = append(out, h1*16+h2)
						i += 2
						continue
					}
				}
			}
		}
		out = append(out, s[i])
	}
	return string(out)
}

const (
	hKindName = iota
	hKindID
	hKindInvalid
)

// hLexVar is the reference reading of the text after a '@', '%' or '$' sigil
// (or before the ':' of a label): one whole token, its kind and denoted name.
// dollar: '$' has no numeric-ID form; label: digits-only is a numeric label and
// a leading digit is allowed.
func hLexVar(body string, dollar, label bool) (kind int, name string) {
	if len(body) == 0 {
		return hKindInvalid, ""
	}
	if body[0] == '"' {
		// quoted: up to the next '"', which must be the last byte of the token
		for i := 1; i < len(body); i++ {
			if body[i] == '"' {
				if i != len(body)-1 {
					return hKindInvalid, ""
				}
				n := hUnEscapeLexed(body[1:i])
				for j := 0; j < len(n); j++ {
					if n[j] == 0 {
						return hKindInvalid, "" // "Null bytes are not allowed in names"
					}
				}
				return hKindName, n
			}
		}
		return hKindInvalid, ""
	}
	allDigit := true
	allTail := true
	for i := 0; i < len(body); i++ {
		if !hIsDigit(body[i]) {
			allDigit = false
		}
		if !hIsTail(body[i]) {
			allTail = false
		}
	}
	if allDigit {
		if dollar {
			return hKindInvalid, ""
		}
		return hKindID, ""
	}
	if !allTail {
		return hKindInvalid, ""
	}
	if label {
		return hKindName, body
	}
	if hIsHead(body[0]) {
		return hKindName, body
	}
	return hKindInvalid, ""
}

var hPosKind = [...]string{"C11.global.llvm-kind", "C11.local.llvm-kind", "C11.label.llvm-kind", "C11.type.llvm-kind", "C11.comdat.llvm-kind"}
var hPosRT = [...]string{"C11.global.llvm-roundtrip", "C11.local.llvm-roundtrip", "C11.label.llvm-roundtrip", "C11.type.llvm-roundtrip", "C11.comdat.llvm-roundtrip"}

// VfC11_IdentLLVM: global, local, label, type and comdat names.
//
//vf:unwind 80
//vf:shards 5
func VfC11_IdentLLVM() {
	pos := vfChoice("pos", 5)
	n := vfLen("n", 1, hN())
	s := vfString("s", n)
	for i := 0; i < len(s); i++ {
		vfAssume(s[i] != 0)
	}
	var tok string
	switch pos {
	case 0:
		tok = GlobalName(s)
	case 1:
		tok = LocalName(s)
	case 2:
		tok = LabelName(s)
	case 3:
		tok = TypeName(s)
	default:
		tok = ComdatName(s)
	}
	vfReach("C11.ident")
	vfObserveStr("tok", tok)
	var body string
	if pos == 2 {
		body = tok[:len(tok)-1]
	} else {
		body = tok[1:]
	}
	kind, name := hLexVar(body, pos == 4, pos == 2)
	// known region (see known_findings.json): the IR has no numbered-type
	// concept, a type whose name is all digits *is* the numbered type %N
	allDigit := true
	for i := 0; i < len(s); i++ {
		allDigit = vfAnd(allDigit, hIsDigit(s[i]))
	}
	vfKnown("C11.numeric-type-names", vfAnd(pos == 3, allDigit))
	vfAssert(hPosKind[pos], kind == hKindName)
	if kind == hKindName {
		vfAssert(hPosRT[pos], name == s)
	}
}

// VfC11_Metadata: metadata names ('!' + escaped name).
//
//vf:unwind 80
func VfC11_Metadata() {
	n := vfLen("n", 1, hN())
	s := vfString("s", n)
	for i := 0; i < len(s); i++ {
		vfAssume(s[i] != 0)
	}
	tok := MetadataName(s)
	vfReach("C11.metadata")
	vfObserveStr("tok", tok)
	body := tok[1:]
	// LexExclaim: first [-a-zA-Z$._\\], rest [-a-zA-Z$._0-9\\]*
	ok := len(body) > 0
	for i := 0; i < len(body); i++ {
		c := body[i]
		if i == 0 {
			ok = vfAnd(ok, vfOr(hIsHead(c), c == '\\'))
		} else {
			ok = vfAnd(ok, vfOr(hIsTail(c), c == '\\'))
		}
	}
	vfAssert("C11.metadata.llvm-kind", ok)
	vfAssert("C11.metadata.llvm-roundtrip", hUnEscapeLexed(body) == s)
	vfAssert("C11.metadata.lib-roundtrip", string(Unescape(body)) == s)
}

// VfC11_Strings: quoted strings (section, GC, asm, metadata strings, ...) and
// character-array contents: Quote/EscapeString against the reference reading
// and against the library's own Unquote/Unescape.  Character arrays may hold
// NUL bytes.
//
//vf:unwind 80
func VfC11_Strings() {
	n := vfLen("n", 0, hN())
	s := vfBytes("s", n)
	q := Quote(s)
	vfReach("C11.strings")
	vfObserveStr("q", q)
	// reference: a string token starts at '"' and ends at the next '"'
	closeAt := -1
	for i := 1; i < len(q); i++ {
		if q[i] == '"' {
			closeAt = i
			break
		}
	}
	vfAssert("C11.string.llvm-one-token", vfAnd(q[0] == '"', closeAt == len(q)-1))
	if closeAt == len(q)-1 {
		vfAssert("C11.string.llvm-roundtrip", hUnEscapeLexed(q[1:closeAt]) == string(s))
	}
	vfAssert("C11.string.lib-roundtrip", string(Unquote(q)) == string(s))
	vfAssert("C11.string.escape-roundtrip", string(Unescape(EscapeString(s))) == string(s))
}

// VfC11_Injective: two different names never print alike (global position;
// the other sigils share the same encoder).
//
//vf:unwind 80
func VfC11_Injective() {
	nmax := 2
	if vfTier() > 0 {
		nmax = 3
	}
	n1 := vfLen("n1", 1, nmax)
	n2 := vfLen("n2", 1, nmax)
	s1 := vfString("s1", n1)
	s2 := vfString("s2", n2)
	for i := 0; i < len(s1); i++ {
		vfAssume(s1[i] != 0)
	}
	for i := 0; i < len(s2); i++ {
		vfAssume(s2[i] != 0)
	}
	vfAssume(s1 != s2)
	vfReach("C11.inj")
	vfAssert("C11.global.injective", GlobalName(s1) != GlobalName(s2))
	vfAssert("C11.type.injective", TypeName(s1) != TypeName(s2))
	vfAssert("C11.label.injective", LabelName(s1) != LabelName(s2))
}

// VfC11_IDs: numeric IDs print as IDs (never as names) and panic only when
// negative, as documented.
func VfC11_IDs() {
	id := vfInt64("id")
	vfAssume(id >= 0)
	vfAssume(id < 1000)
	tok := GlobalID(id)
	vfReach("C11.ids")
	kind, _ := hLexVar(tok[1:], false, false)
	vfAssert("C11.global.id-kind", kind == hKindID)
	kind2, _ := hLexVar(LocalID(id)[1:], false, false)
	vfAssert("C11.local.id-kind", kind2 == hKindID)
	l := LabelID(id)
	kind3, _ := hLexVar(l[:len(l)-1], false, true)
	vfAssert("C11.label.id-kind", kind3 == hKindID)
}

// VfC11_LongDigitNames: names made of 19 to 21 decimal digits (symbolic), i.e.
// around and beyond the range of a 64-bit integer, in the global, local, label
// and comdat positions: the printed token is a *name* for LLVM's lexer (an
// unquoted run of digits would be an unnamed ID, or no token at all after '$')
// and denotes exactly those digits.
//
//vf:unwind 120
//vf:shards 4
func VfC11_LongDigitNames() {
	posIdx := vfChoice("pos", 4)
	pos := [...]int{0, 1, 2, 4}[posIdx]
	n := vfLen("n", 19, 21)
	s := vfString("s", n)
	for i := 0; i < len(s); i++ {
		vfAssume(hIsDigit(s[i]))
	}
	var tok string
	switch pos {
	case 0:
		tok = GlobalName(s)
	case 1:
		tok = LocalName(s)
	case 2:
		tok = LabelName(s)
	default:
		tok = ComdatName(s)
	}
	vfReach("C11.long-digits")
	vfObserveStr("tok", tok)
	var body string
	if pos == 2 {
		body = tok[:len(tok)-1]
	} else {
		body = tok[1:]
	}
	kind, name := hLexVar(body, pos == 4, pos == 2)
	vfAssert("C11.long-digits.llvm-kind", kind == hKindName)
	if kind == hKindName {
		vfAssert("C11.long-digits.llvm-roundtrip", name == s)
	}
}
