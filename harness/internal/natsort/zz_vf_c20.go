//go:build verif

package natsort


// C20: the natural-sort comparison is a strict total order that compares digit
// runs by value.

func hN3() int {
	if vfTier() > 0 {
		return 4
	}
	return 3
}

// VfC20_Order checks irreflexivity, asymmetry, totality and transitivity of
// Less on all string triples up to the length bound.
//
//vf:pure github.com/llir/llvm/internal/natsort.Less
//vf:unwind 64
//vf:shards 4
func VfC20_Order() {
	n := hN3()
	la := vfLen("la", 0, n)
	lb := vfLen("lb", 0, n)
	lc := vfLen("lc", 0, n)
	a := vfString("a", la)
	b := vfString("b", lb)
	c := vfString("c", lc)
	vfReach("C20.order")
	ab, ba := Less(a, b), Less(b, a)
	bc, ac := Less(b, c), Less(a, c)
	vfObserveBool("ab", ab)
	vfObserveBool("bc", bc)
	vfAssert("C20.irreflexive", vfNot(Less(a, a)))
	vfAssert("C20.asymmetric", vfNot(vfAnd(ab, ba)))
	vfAssert("C20.total", vfImp(vfNot(vfEqStr(a, b)), vfOr(ab, ba)))
	vfAssert("C20.transitive", vfImp(vfAnd(ab, bc), ac))
}

func hIsDigits(s string) bool {
	ok := true
	for i := 0; i < len(s); i++ {
		ok = vfAnd(ok, vfAnd(s[i] >= '0', s[i] <= '9'))
	}
	return ok
}

func hValue(s string) uint64 {
	var v uint64
	for i := 0; i < len(s); i++ {
		v = v*10 + uint64(s[i]-'0')
	}
	return v
}

// VfC20_Numeric: after a common non-digit prefix, two digit runs (followed by
// a common non-digit suffix byte or the end) are ordered by numeric value,
// ties broken by the number of leading zeros (fewer zeros first).
//
//vf:unwind 64
//vf:shards 4
func VfC20_Numeric() {
	// thorough: 5 digits (at 6 digits two of the value-comparison queries came
	// back unknown within the per-query limit; the bound registered is the one
	// that runs clean)
	n := 4
	if vfTier() > 0 {
		n = 5
	}
	l1 := vfLen("l1", 1, n)
	lp := vfLen("lp", 0, 1)
	l2 := vfLen("l2", 1, n)
	ls := vfLen("ls", 0, 1)
	p := vfString("p", lp)
	d1 := vfString("d1", l1)
	d2 := vfString("d2", l2)
	s := vfString("s", ls)
	for i := 0; i < len(p); i++ {
		vfAssume(vfNot(vfAnd(p[i] >= '0', p[i] <= '9')))
	}
	for i := 0; i < len(s); i++ {
		vfAssume(vfNot(vfAnd(s[i] >= '0', s[i] <= '9')))
	}
	vfAssume(hIsDigits(d1))
	vfAssume(hIsDigits(d2))
	vfReach("C20.numeric")
	v1, v2 := hValue(d1), hValue(d2)
	got := Less(p+d1+s, p+d2+s)
	vfObserveBool("got", got)
	vfObserveU64("v1", v1)
	want := vfOr(v1 < v2, vfAnd(v1 == v2, len(d1) < len(d2)))
	vfAssert("C20.numeric", got == want)
}

// VfC20_Strings: natsort.Strings sorts: the result is ordered by Less and is a
// permutation independent of the input order (3 elements).
//
//vf:unwind 64
//vf:pure github.com/llir/llvm/internal/natsort.Less
func VfC20_Strings() {
	n := 2
	la := vfLen("la", 0, n)
	lb := vfLen("lb", 0, n)
	lc := vfLen("lc", 0, n)
	a := vfString("a", la)
	b := vfString("b", lb)
	c := vfString("c", lc)
	vfReach("C20.strings")
	x := []string{a, b, c}
	y := []string{c, a, b}
	Strings(x)
	Strings(y)
	vfAssert("C20.sorted.ordered", vfAnd(vfNot(Less(x[1], x[0])), vfNot(Less(x[2], x[1]))))
	vfAssert("C20.sorted.order-independent", vfAnd(x[0] == y[0], vfAnd(x[1] == y[1], x[2] == y[2])))
}

// VfC20_LongRuns: digit runs far beyond 64 bits (19-21 digits, all digits
// symbolic, at most one leading zero each): Less still agrees with numeric
// comparison.  The reference compares the runs as numbers written in decimal:
// strip leading zeros, a longer run is larger, equal lengths compare
// digit-wise; equal values are ordered by the number of leading zeros.
//
//vf:unwind 200
//vf:shards 9
func VfC20_LongRuns() {
	lens := [...]int{19, 20, 21}
	l1 := lens[vfChoice("l1", 3)]
	l2 := lens[vfChoice("l2", 3)]
	d1 := vfString("d1", l1)
	d2 := vfString("d2", l2)
	vfAssume(hIsDigits(d1))
	vfAssume(hIsDigits(d2))
	vfAssume(vfAnd(d1[1] != '0', d2[1] != '0'))
	vfReach("C20.longruns")
	z1, z2 := 0, 0
	if d1[0] == '0' {
		z1 = 1
	}
	if d2[0] == '0' {
		z2 = 1
	}
	s1, s2 := d1[z1:], d2[z2:]
	var want bool
	switch {
	case len(s1) != len(s2):
		want = len(s1) < len(s2)
	default:
		want = vfOr(s1 < s2, vfAnd(s1 == s2, z1 < z2))
	}
	got := Less("t"+d1, "t"+d2)
	rev := Less("t"+d2, "t"+d1)
	vfAssert("C20.numeric.long-runs", got == want)
	vfAssert("C20.asymmetric.long-runs", vfNot(vfAnd(got, rev)))
	vfAssert("C20.total.long-runs", vfImp(vfNot(vfEqStr(d1, d2)), vfOr(got, rev)))
}
