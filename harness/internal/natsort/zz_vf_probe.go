//go:build verif

package natsort

import "unicode/utf8"

// VfC99_Utf8 is an engine probe (not a registered property): the real
// utf8.DecodeRuneInString on a symbolic string, compared natively.
func VfC99_Utf8() {
	n := vfLen("n", 1, 3)
	s := vfString("s", n)
	r, w := utf8.DecodeRuneInString(s)
	vfReach("C99.utf8")
	vfObserveInt("r", int(r))
	vfObserveInt("w", w)
}
