package main

// L2 generator for C03/C06: from the go/types description of every
// instruction and terminator struct of /repo/ir, a field-by-field structural
// comparator (used to compare a constructed module with the re-parse of its
// printed text), a table of single-field variations (flags, enum members,
// alignment, address space, ...) and a reset of the cached result type.

import (
	"fmt"
	"go/constant"
	"go/types"
	"os"
	"path/filepath"
	"sort"
	"strings"
)

func genC03() error {
	pkgs, err := loadTypes("./ir")
	if err != nil {
		return err
	}
	p := pkgs[0].Types
	scope := p.Scope()
	instIface := scope.Lookup("Instruction").Type().Underlying().(*types.Interface)
	termIface := scope.Lookup("Terminator").Type().Underlying().(*types.Interface)
	var enumPkg *types.Package
	for _, imp := range p.Imports() {
		if imp.Path() == repoMod+"/ir/enum" {
			enumPkg = imp
		}
	}
	if enumPkg == nil {
		return fmt.Errorf("ir/enum not imported by ir")
	}
	isNamed := func(t types.Type, pkg, name string) bool {
		n, ok := t.(*types.Named)
		return ok && n.Obj().Name() == name && n.Obj().Pkg() != nil && n.Obj().Pkg().Path() == repoMod+pkg
	}
	isValue := func(t types.Type) bool { return isNamed(t, "/ir/value", "Value") }
	isType := func(t types.Type) bool {
		if isNamed(t, "/ir/types", "Type") {
			return true
		}
		if pt, ok := t.(*types.Pointer); ok {
			if n, ok := pt.Elem().(*types.Named); ok && n.Obj().Pkg() != nil && n.Obj().Pkg().Path() == repoMod+"/ir/types" {
				return true
			}
		}
		return false
	}
	members := enumMembers
	isEnum := func(t types.Type) (*types.Named, bool) {
		n, ok := t.(*types.Named)
		if !ok || n.Obj().Pkg() == nil || n.Obj().Pkg().Path() != repoMod+"/ir/enum" {
			return nil, false
		}
		_, basic := n.Underlying().(*types.Basic)
		return n, basic
	}
	skip := map[string]bool{"Typ": true, "Parent": true, "Successors": true, "Metadata": true, "LocalIdent": true, "Sig": true}
	var same, nvary, vary, clr strings.Builder
	var notCompared, notVaried []string
	enumTables := map[string][]string{}
	names := scope.Names()
	sort.Strings(names)
	count := 0
	for _, name := range names {
		tn, ok := scope.Lookup(name).(*types.TypeName)
		if !ok {
			continue
		}
		st, ok := tn.Type().Underlying().(*types.Struct)
		if !ok {
			continue
		}
		ptr := types.NewPointer(tn.Type())
		if !types.Implements(ptr, termIface) && !types.Implements(ptr, instIface) {
			continue
		}
		if !strings.HasPrefix(name, "Inst") && !strings.HasPrefix(name, "Term") {
			continue
		}
		count++
		hasField := map[string]bool{}
		for i := 0; i < st.NumFields(); i++ {
			hasField[st.Field(i).Name()] = true
		}
		fmt.Fprintf(&same, "\tcase *ir.%s:\n\t\ty, ok := b.(*ir.%s)\n\t\tif !ok {\n\t\t\treturn false\n\t\t}\n\t\t_ = y\n\t\tr := true\n", name, name)
		fmt.Fprintf(&nvary, "\tcase *ir.%s:\n\t\t_ = x\n", name)
		fmt.Fprintf(&vary, "\tcase *ir.%s:\n\t\t_ = x\n", name)
		if hasField["Typ"] {
			fmt.Fprintf(&clr, "\tcase *ir.%s:\n\t\tx.Typ = nil\n\t\treturn true\n", name)
		}
		if hasField["LocalIdent"] {
			same.WriteString("\t\tr = vfAnd(r, vfEqStr(x.Ident(), y.Ident()))\n")
			same.WriteString("\t\tr = vfAnd(r, hGenTy(x.Type(), y.Type()))\n")
		}
		atomicPre := ""
		if hasField["Atomic"] {
			atomicPre = "x.Atomic = true\n\t\t\t"
		}
		step := func(n string, body string) {
			// one block of n variations
			fmt.Fprintf(&nvary, "\t\tn += %s\n", n)
			fmt.Fprintf(&vary, "\t\tif k < %s {\n\t\t\t%s\n\t\t\treturn\n\t\t}\n\t\tk -= %s\n", n, body, n)
		}
		for i := 0; i < st.NumFields(); i++ {
			f := st.Field(i)
			fn := f.Name()
			if !f.Exported() || f.Embedded() || skip[fn] {
				continue
			}
			ft := f.Type()
			cmp := ""
			switch {
			case isValue(ft):
				cmp = fmt.Sprintf("hGenVal(x.%s, y.%s)", fn, fn)
			case isType(ft):
				cmp = fmt.Sprintf("hGenTyp(x.%s, y.%s)", fn, fn)
				if pt, ok := ft.(*types.Pointer); ok {
					// typed pointer fields: compare through the interface, nil-safe
					tnm := pt.Elem().(*types.Named).Obj().Name()
					cmp = fmt.Sprintf("hGenTyP(x.%s == nil, y.%s == nil, func() bool { return hGenTy(x.%s, y.%s) })", fn, fn, fn, fn)
					_ = tnm
				}
			default:
				if b, ok := ft.Underlying().(*types.Basic); ok {
					if b.Kind() == types.String {
						cmp = fmt.Sprintf("vfEqStr(string(x.%s), string(y.%s))", fn, fn)
					} else {
						cmp = fmt.Sprintf("x.%s == y.%s", fn, fn)
					}
				} else if sl, ok := ft.(*types.Slice); ok {
					el := sl.Elem()
					switch {
					case isValue(el):
						cmp = fmt.Sprintf("hGenVals(x.%s, y.%s)", fn, fn)
					case isNamed(el, "/ir", "ReturnAttribute") || isNamed(el, "/ir", "FuncAttribute") || isNamed(el, "/ir", "ParamAttribute"):
						cmp = fmt.Sprintf("len(x.%s) == len(y.%s)", fn, fn)
						fmt.Fprintf(&same, "\t\tfor i := range x.%s {\n\t\t\tif i < len(y.%s) {\n\t\t\t\tr = vfAnd(r, vfEqStr(x.%s[i].String(), y.%s[i].String()))\n\t\t\t}\n\t\t}\n", fn, fn, fn, fn)
					default:
						if _, ok := el.Underlying().(*types.Basic); ok {
							cmp = fmt.Sprintf("len(x.%s) == len(y.%s)", fn, fn)
							fmt.Fprintf(&same, "\t\tfor i := range x.%s {\n\t\t\tif i < len(y.%s) {\n\t\t\t\tr = vfAnd(r, x.%s[i] == y.%s[i])\n\t\t\t}\n\t\t}\n", fn, fn, fn, fn)
						} else if pt, ok := el.(*types.Pointer); ok {
							if hn, ok := pt.Elem().(*types.Named); ok && hn.Obj().Pkg() == p {
								switch hn.Obj().Name() {
								case "Block":
									cmp = fmt.Sprintf("len(x.%s) == len(y.%s)", fn, fn)
									fmt.Fprintf(&same, "\t\tfor i := range x.%s {\n\t\t\tif i < len(y.%s) {\n\t\t\t\tr = vfAnd(r, vfEqStr(x.%s[i].Ident(), y.%s[i].Ident()))\n\t\t\t}\n\t\t}\n", fn, fn, fn, fn)
								default:
									hs, ok := hn.Underlying().(*types.Struct)
									if !ok {
										break
									}
									cmp = fmt.Sprintf("len(x.%s) == len(y.%s)", fn, fn)
									fmt.Fprintf(&same, "\t\tfor i := range x.%s {\n\t\t\tif i < len(y.%s) {\n", fn, fn)
									for j := 0; j < hs.NumFields(); j++ {
										hf := hs.Field(j)
										hft := hf.Type()
										switch {
										case !hf.Exported():
										case isValue(hft) || isNamed(hft, "/ir/constant", "Constant"):
											fmt.Fprintf(&same, "\t\t\t\tr = vfAnd(r, hGenVal(x.%s[i].%s, y.%s[i].%s))\n", fn, hf.Name(), fn, hf.Name())
										default:
											if hsl, ok := hft.(*types.Slice); ok && isValue(hsl.Elem()) {
												fmt.Fprintf(&same, "\t\t\t\tr = vfAnd(r, hGenVals(x.%s[i].%s, y.%s[i].%s))\n", fn, hf.Name(), fn, hf.Name())
											} else if hb, ok := hft.Underlying().(*types.Basic); ok {
												if hb.Kind() == types.String {
													fmt.Fprintf(&same, "\t\t\t\tr = vfAnd(r, vfEqStr(x.%s[i].%s, y.%s[i].%s))\n", fn, hf.Name(), fn, hf.Name())
												} else {
													fmt.Fprintf(&same, "\t\t\t\tr = vfAnd(r, x.%s[i].%s == y.%s[i].%s)\n", fn, hf.Name(), fn, hf.Name())
												}
											} else {
												notCompared = append(notCompared, name+"."+fn+"[]."+hf.Name())
											}
										}
									}
									same.WriteString("\t\t\t}\n\t\t}\n")
								}
							}
						}
					}
				}
			}
			if cmp == "" {
				notCompared = append(notCompared, name+"."+fn)
			} else {
				fmt.Fprintf(&same, "\t\tr = vfAnd(r, %s)\n", cmp)
			}
			// variations
			varied := true
			switch {
			case fn == "Atomic":
				// coupled with Ordering: varied together with it
			case fn == "SyncScope":
				pre := atomicPre
				if atomicPre != "" {
					pre += "x.Ordering = enum.AtomicOrderingSequentiallyConsistent\n\t\t\t"
				}
				step("1", pre+"x.SyncScope = \"singlethread\"")
			case isNamed(ft, "/ir", "Align"):
				step("2", "x."+fn+" = ir.Align(1 << (uint(k) * 5))")
			case isNamed(ft, "/ir/types", "AddrSpace"):
				step("1", "x."+fn+" = 5")
			default:
				if b, ok := ft.Underlying().(*types.Basic); ok && b.Kind() == types.Bool {
					step("1", "x."+fn+" = true")
				} else if en, ok := isEnum(ft); ok {
					tb := en.Obj().Name()
					ms := members(en)
					if tb == "AtomicOrdering" {
						var keep []string
						for _, m := range ms {
							if !strings.HasSuffix(m, "None") {
								keep = append(keep, m)
							}
						}
						ms = keep
					}
					enumTables[tb] = ms
					step(fmt.Sprintf("hGenCap(len(hGenM_%s))", tb), fmt.Sprintf("%sx.%s = hGenM_%s[hGenPick(k, len(hGenM_%s))]", atomicPre, fn, tb, tb))
				} else if sl, ok := ft.(*types.Slice); ok {
					if en, ok := isEnum(sl.Elem()); ok {
						tb := en.Obj().Name()
						enumTables[tb] = members(en)
						guard := ""
						if tb == "FastMathFlag" {
							guard = "if !hGenIsFP(x) {\n\t\t\t\treturn\n\t\t\t}\n\t\t\t"
						}
						// single members; then: the first two members, every member paired
						// with its successor, and all members together (a printer that lets
						// one member stand for others is only seen on combinations)
						step(fmt.Sprintf("hGenCap(len(hGenM_%s)) + 2 + len(hGenM_%s)", tb, tb), fmt.Sprintf("%sc := hGenCap(len(hGenM_%s))\n\t\t\tswitch {\n\t\t\tcase k == c:\n\t\t\t\tx.%s = []enum.%s{hGenM_%s[0], hGenM_%s[1]}\n\t\t\tcase k == c+1:\n\t\t\t\tx.%s = append([]enum.%s(nil), hGenM_%s...)\n\t\t\tcase k > c+1:\n\t\t\t\ti := k - c - 2\n\t\t\t\tx.%s = []enum.%s{hGenM_%s[i], hGenM_%s[(i+1)%%len(hGenM_%s)]}\n\t\t\tdefault:\n\t\t\t\tx.%s = []enum.%s{hGenM_%s[hGenPick(k, len(hGenM_%s))]}\n\t\t\t}", guard, tb, fn, tb, tb, tb, fn, tb, tb, fn, tb, tb, tb, tb, fn, tb, tb, tb))
					} else {
						varied = false
					}
				} else {
					varied = false
				}
			}
			if !varied && !isValue(ft) && !isType(ft) {
				if sl, ok := ft.(*types.Slice); !ok || !isValue(sl.Elem()) {
					notVaried = append(notVaried, name+"."+fn)
				}
			}
		}
		same.WriteString("\t\treturn r\n")
		vary.WriteString("\t\treturn\n")
	}
	// member tables of the attribute enums (used by the C18 attribute carriers)
	for _, tb := range []string{"FuncAttr", "ParamAttr", "ReturnAttr", "UnwindTableKind", "Linkage", "Visibility", "DLLStorageClass", "TLSModel", "UnnamedAddr", "Preemption", "CallingConv", "SelectionKind"} {
		if tn, ok := enumPkg.Scope().Lookup(tb).(*types.TypeName); ok {
			if n, ok := tn.Type().(*types.Named); ok {
				if _, have := enumTables[tb]; !have {
					enumTables[tb] = members(n)
				}
			}
		}
	}
	var sb strings.Builder
	sb.WriteString("//go:build verif\n\n// Code generated by vcheck gen (L2) from go/types of /repo; DO NOT EDIT.\n\npackage asm\n\nimport (\n\t\"github.com/llir/llvm/ir\"\n\t\"github.com/llir/llvm/ir/enum\"\n\t\"github.com/llir/llvm/ir/types\"\n\t\"github.com/llir/llvm/ir/value\"\n)\n\n")
	var tbs []string
	for tb := range enumTables {
		tbs = append(tbs, tb)
	}
	sort.Strings(tbs)
	for _, tb := range tbs {
		fmt.Fprintf(&sb, "var hGenM_%s = []enum.%s{", tb, tb)
		for i, m := range enumTables[tb] {
			if i > 0 {
				sb.WriteString(", ")
			}
			sb.WriteString("enum." + m)
		}
		sb.WriteString("}\n")
	}
	sb.WriteString(`
// hGenCap bounds the members tried per enum-typed field: 3 in the quick tier,
// all in the thorough tier (the complete member tables are the subject of C18).
func hGenCap(n int) int {
	if vfTier() >= 1 || n <= 3 {
		return n
	}
	return 3
}

// hGenPick spreads k over 0..n-1 (first, middle, last when capped).
func hGenPick(k, n int) int {
	c := hGenCap(n)
	if c == n || c <= 1 {
		return k
	}
	return k * (n - 1) / (c - 1)
}

func hGenTy(t, u types.Type) bool {
	if t == nil || u == nil {
		return t == nil && u == nil
	}
	return t.Equal(u)
}

func hGenTyp(t, u types.Type) bool { return hGenTy(t, u) }

func hGenTyP(tn, un bool, f func() bool) bool {
	if tn || un {
		return tn && un
	}
	return f()
}

func hGenVal(a, b value.Value) bool {
	if a == nil || b == nil {
		return a == nil && b == nil
	}
	return vfAnd(hGenTy(a.Type(), b.Type()), vfEqStr(a.Ident(), b.Ident()))
}

func hGenVals(a, b []value.Value) bool {
	if len(a) != len(b) {
		return false
	}
	r := true
	for i := range a {
		r = vfAnd(r, hGenVal(a[i], b[i]))
	}
	return r
}

func hGenIsFPType(t types.Type) bool {
	switch t := t.(type) {
	case *types.FloatType:
		return true
	case *types.VectorType:
		return hGenIsFPType(t.ElemType)
	case *types.ArrayType:
		return hGenIsFPType(t.ElemType)
	}
	return false
}

// hGenIsFP: fast-math flags are only meaningful on floating-point results (or
// floating-point comparisons).
func hGenIsFP(x interface{}) bool {
	if c, ok := x.(*ir.InstFCmp); ok {
		return hGenIsFPType(c.X.Type())
	}
	if v, ok := x.(value.Value); ok {
		return hGenIsFPType(v.Type())
	}
	return false
}

`)
	sb.WriteString("// hGenSame reports whether two instructions/terminators have the same dynamic\n// type and agree on every compared field (operands by type and identifier).\nfunc hGenSame(a, b interface{}) bool {\n\tswitch x := a.(type) {\n")
	sb.WriteString(same.String())
	sb.WriteString("\t}\n\treturn false\n}\n\n")
	sb.WriteString("// hGenNumVary returns the number of single-field variations of x.\nfunc hGenNumVary(a interface{}) int {\n\tn := 0\n\tswitch x := a.(type) {\n")
	sb.WriteString(nvary.String())
	sb.WriteString("\t}\n\treturn n\n}\n\n")
	sb.WriteString("// hGenVary applies variation k (0 <= k < hGenNumVary(a)) to a.\nfunc hGenVary(a interface{}, k int) {\n\tswitch x := a.(type) {\n")
	sb.WriteString(vary.String())
	sb.WriteString("\t}\n}\n\n")
	sb.WriteString("// hGenClearTyp drops the cached result type so that Type() recomputes it.\nfunc hGenClearTyp(a interface{}) bool {\n\tswitch x := a.(type) {\n")
	sb.WriteString(clr.String())
	sb.WriteString("\t}\n\treturn false\n}\n\n")
	sort.Strings(notCompared)
	sort.Strings(notVaried)
	fmt.Fprintf(&sb, "// %d instruction/terminator structs.\n// fields not compared by hGenSame: %s\n// fields without a generated variation: %s\n", count, strings.Join(notCompared, ", "), strings.Join(notVaried, ", "))
	dir := filepath.Join(verifDir, "harness", "asm")
	out := filepath.Join(dir, "zz_vf_c03_gen.go")
	if old, err := os.ReadFile(out); err == nil && string(old) == sb.String() {
		return nil
	}
	fmt.Fprintf(os.Stderr, "gen: structural comparator and variations for %d instruction/terminator structs written to %s\n", count, out)
	return os.WriteFile(out, []byte(sb.String()), 0o644)
}

// enumMembers lists the declared constants of an enum type by value (aliases of
// one value once).
func enumMembers(n *types.Named) []string {
	type mv struct {
		name string
		v    int64
	}
	var ms []mv
	sc := n.Obj().Pkg().Scope()
	for _, nm := range sc.Names() {
		c, ok := sc.Lookup(nm).(*types.Const)
		if !ok || !types.Identical(c.Type(), n) {
			continue
		}
		v, _ := constant.Int64Val(c.Val())
		ms = append(ms, mv{nm, v})
	}
	sort.Slice(ms, func(i, j int) bool {
		if ms[i].v != ms[j].v {
			return ms[i].v < ms[j].v
		}
		return ms[i].name < ms[j].name
	})
	var r []string
	var last int64 = -1 << 62
	for _, m := range ms {
		if m.v == last {
			continue // alias of the same value
		}
		last = m.v
		r = append(r, m.name)
	}
	return r
}

