package main

// Hash-consed SMT terms with a constant-folding simplifier.
//
// Sorts: Bool, (_ BitVec n), Int (only for the math/big.Int model) and
// Float64 (SMT (_ FloatingPoint 11 53), only for the few float64 operations
// of ir/constant).  Go integers are always bit-vectors of the Go width, so the
// wrap-around semantics is the solver's.

import (
	"fmt"
	"math"
	"math/big"
	"strings"
)

type Sort struct {
	K byte // 'b' bool, 'v' bitvec, 'i' int, 'f' float64
	W int
}

var (
	BoolS = Sort{'b', 0}
	IntS  = Sort{'i', 0}
	F64S  = Sort{'f', 64}
)

func BV(w int) Sort { return Sort{'v', w} }

func (s Sort) String() string {
	switch s.K {
	case 'b':
		return "Bool"
	case 'i':
		return "Int"
	case 'f':
		return "(_ FloatingPoint 11 53)"
	}
	return fmt.Sprintf("(_ BitVec %d)", s.W)
}

type Term struct {
	id   int
	op   string
	args []*Term
	s    Sort
	c    uint64   // const value (bv / bool 0,1 / float64 bits)
	bi   *big.Int // Int const
	p1   int      // extract hi / ext n
	p2   int
	name string
	vars map[*Term]bool // lazily computed free variables (for slicing); nil until asked
	pure int8           // 0 unknown, 1 only Bool/BitVec sorts below, 2 otherwise
}

// pureBV reports whether t and all its subterms are of sort Bool / BitVec.
func (t *Term) pureBV() bool {
	if t.pure != 0 {
		return t.pure == 1
	}
	ok := t.s.K == 'b' || t.s.K == 'v'
	if ok {
		for _, a := range t.args {
			if !a.pureBV() {
				ok = false
				break
			}
		}
	}
	if ok {
		t.pure = 1
	} else {
		t.pure = 2
	}
	return ok
}

type termKey struct {
	op         string
	s          Sort
	c          uint64
	p1, p2     int
	name       string
	a0, a1, a2 int
	rest       string
}

var (
	termTab  = map[termKey]*Term{}
	termList []*Term
)

func mk(op string, s Sort, c uint64, p1, p2 int, name string, args ...*Term) *Term {
	k := termKey{op: op, s: s, c: c, p1: p1, p2: p2, name: name, a0: -1, a1: -1, a2: -1}
	for i, a := range args {
		switch i {
		case 0:
			k.a0 = a.id
		case 1:
			k.a1 = a.id
		case 2:
			k.a2 = a.id
		default:
			k.rest += fmt.Sprintf(",%d", a.id)
		}
	}
	if t, ok := termTab[k]; ok {
		return t
	}
	t := &Term{id: len(termList), op: op, args: args, s: s, c: c, p1: p1, p2: p2, name: name}
	termTab[k] = t
	termList = append(termList, t)
	return t
}

func mask(w int) uint64 {
	if w >= 64 {
		return ^uint64(0)
	}
	return (uint64(1) << uint(w)) - 1
}

func (t *Term) IsConst() bool { return t.op == "const" }
func (t *Term) IsTrue() bool  { return t.op == "const" && t.s.K == 'b' && t.c == 1 }
func (t *Term) IsFalse() bool { return t.op == "const" && t.s.K == 'b' && t.c == 0 }

func ConstBV(w int, v uint64) *Term {
	if w > 64 {
		return ConstBVBig(w, new(big.Int).SetUint64(v))
	}
	return mk("const", BV(w), v&mask(w), 0, 0, "")
}

// ConstBVBig is a bit-vector constant of any width (value taken modulo 2^w).
// Constants wider than 64 bits are a separate operator ("bigconst") so that
// none of the uint64 folding rules applies to them.
func ConstBVBig(w int, v *big.Int) *Term {
	m := new(big.Int).Lsh(big.NewInt(1), uint(w))
	r := new(big.Int).Mod(v, m)
	if w <= 64 {
		return ConstBV(w, r.Uint64())
	}
	t := mk("bigconst", BV(w), 0, 0, 0, r.String())
	if t.bi == nil {
		t.bi = r
	}
	return t
}

func wideConst(t *Term) (*big.Int, bool) {
	if t.op == "bigconst" {
		return t.bi, true
	}
	return nil, false
}

func toSigned(v *big.Int, w int) *big.Int {
	h := new(big.Int).Lsh(big.NewInt(1), uint(w-1))
	if v.Cmp(h) >= 0 {
		return new(big.Int).Sub(v, new(big.Int).Lsh(big.NewInt(1), uint(w)))
	}
	return v
}

// wideBin folds / builds binary operations on bit-vectors wider than 64 bits.
func wideBin(op string, a, b *Term) *Term {
	w := a.s.W
	x, okx := wideConst(a)
	y, oky := wideConst(b)
	if okx && oky {
		r := new(big.Int)
		switch op {
		case "bvadd":
			return ConstBVBig(w, r.Add(x, y))
		case "bvsub":
			return ConstBVBig(w, r.Sub(x, y))
		case "bvmul":
			return ConstBVBig(w, r.Mul(x, y))
		case "bvand":
			return ConstBVBig(w, r.And(x, y))
		case "bvor":
			return ConstBVBig(w, r.Or(x, y))
		case "bvxor":
			return ConstBVBig(w, r.Xor(x, y))
		case "bvshl":
			if y.IsUint64() && y.Uint64() < uint64(w) {
				return ConstBVBig(w, r.Lsh(x, uint(y.Uint64())))
			}
			return ConstBVBig(w, big.NewInt(0))
		case "bvlshr":
			if y.IsUint64() && y.Uint64() < uint64(w) {
				return ConstBVBig(w, r.Rsh(x, uint(y.Uint64())))
			}
			return ConstBVBig(w, big.NewInt(0))
		case "bvudiv":
			if y.Sign() != 0 {
				return ConstBVBig(w, r.Div(x, y))
			}
		case "bvurem":
			if y.Sign() != 0 {
				return ConstBVBig(w, r.Mod(x, y))
			}
		}
	}
	if oky && y.Sign() == 0 && (op == "bvadd" || op == "bvsub" || op == "bvor" || op == "bvxor" || op == "bvshl" || op == "bvlshr") {
		return a
	}
	if okx && x.Sign() == 0 && (op == "bvadd" || op == "bvor" || op == "bvxor") {
		return b
	}
	if op == "bvmul" {
		if oky && y.Cmp(big.NewInt(1)) == 0 {
			return a
		}
		if okx && x.Cmp(big.NewInt(1)) == 0 {
			return b
		}
	}
	return mk(op, a.s, 0, 0, 0, "", a, b)
}

func wideCmp(op string, a, b *Term) *Term {
	w := a.s.W
	x, okx := wideConst(a)
	y, oky := wideConst(b)
	if okx && oky {
		switch op {
		case "bvult":
			return ConstBool(x.Cmp(y) < 0)
		case "bvule":
			return ConstBool(x.Cmp(y) <= 0)
		case "bvslt":
			return ConstBool(toSigned(x, w).Cmp(toSigned(y, w)) < 0)
		case "bvsle":
			return ConstBool(toSigned(x, w).Cmp(toSigned(y, w)) <= 0)
		}
	}
	if a == b {
		return ConstBool(op == "bvule" || op == "bvsle")
	}
	return mk(op, BoolS, 0, 0, 0, "", a, b)
}
func ConstBool(b bool) *Term {
	if b {
		return mk("const", BoolS, 1, 0, 0, "")
	}
	return mk("const", BoolS, 0, 0, 0, "")
}
func ConstInt(v *big.Int) *Term {
	t := mk("const", IntS, 0, 0, 0, v.String())
	if t.bi == nil {
		t.bi = new(big.Int).Set(v)
	}
	return t
}
func ConstIntI(v int64) *Term { return ConstInt(big.NewInt(v)) }
func ConstF64(f float64) *Term {
	return mk("const", F64S, math.Float64bits(f), 0, 0, "")
}

var True, False *Term

func init() { True = ConstBool(true); False = ConstBool(false) }

func Var(name string, s Sort) *Term { return mk("var", s, 0, 0, 0, name) }

var freshCtr int

// Fresh returns a new variable that is not a harness input.
func Fresh(prefix string, s Sort) *Term {
	freshCtr++
	return Var(fmt.Sprintf("%s!%d", prefix, freshCtr), s)
}

func sext64(v uint64, w int) int64 {
	if w >= 64 {
		return int64(v)
	}
	sh := uint(64 - w)
	return int64(v<<sh) >> sh
}

func Not(a *Term) *Term {
	if a.IsConst() {
		return ConstBool(a.c == 0)
	}
	if a.op == "not" {
		return a.args[0]
	}
	return mk("not", BoolS, 0, 0, 0, "", a)
}
func And(a, b *Term) *Term {
	if a.IsConst() {
		if a.c == 0 {
			return False
		}
		return b
	}
	if b.IsConst() {
		if b.c == 0 {
			return False
		}
		return a
	}
	if a == b {
		return a
	}
	if Not(a) == b {
		return False
	}
	return mk("and", BoolS, 0, 0, 0, "", a, b)
}
func Or(a, b *Term) *Term {
	if a.IsConst() {
		if a.c == 1 {
			return True
		}
		return b
	}
	if b.IsConst() {
		if b.c == 1 {
			return True
		}
		return a
	}
	if a == b {
		return a
	}
	if Not(a) == b {
		return True
	}
	return mk("or", BoolS, 0, 0, 0, "", a, b)
}
func Imp(a, b *Term) *Term { return Or(Not(a), b) }
func AndN(ts []*Term) *Term {
	r := True
	for _, t := range ts {
		r = And(r, t)
	}
	return r
}
func Ite(c, a, b *Term) *Term {
	if c.IsConst() {
		if c.c == 1 {
			return a
		}
		return b
	}
	if a == b {
		return a
	}
	if a.s.K == 'b' {
		if a.IsConst() && b.IsConst() {
			if a.c == 1 {
				return c
			}
			return Not(c)
		}
		if a.IsConst() {
			if a.c == 1 {
				return Or(c, b)
			}
			return And(Not(c), b)
		}
		if b.IsConst() {
			if b.c == 1 {
				return Or(Not(c), a)
			}
			return And(c, a)
		}
	}
	if c.op == "not" {
		return Ite(c.args[0], b, a)
	}
	return mk("ite", a.s, 0, 0, 0, "", c, a, b)
}
func Eq(a, b *Term) *Term {
	if a == b {
		if a.s.K == 'f' {
			// SMT '=' on FP is structural identity; fine.
			return True
		}
		return True
	}
	if a.s != b.s {
		panic(fmt.Sprintf("Eq sort mismatch %v %v (%s / %s)", a.s, b.s, a.op, b.op))
	}
	if a.IsConst() && b.IsConst() {
		if a.s.K == 'i' {
			return ConstBool(a.bi.Cmp(b.bi) == 0)
		}
		return ConstBool(a.c == b.c)
	}
	if a.op == "bigconst" && b.op == "bigconst" {
		return ConstBool(a.bi.Cmp(b.bi) == 0)
	}
	if a.s.K == 'b' {
		if a.IsConst() {
			if a.c == 1 {
				return b
			}
			return Not(b)
		}
		if b.IsConst() {
			if b.c == 1 {
				return a
			}
			return Not(a)
		}
	}
	// (ite c k1 k2) == k  with constants
	if a.IsConst() && b.op == "ite" {
		a, b = b, a
	}
	if b.IsConst() && a.op == "ite" && (a.args[1].IsConst() || a.args[2].IsConst()) {
		return Ite(a.args[0], Eq(a.args[1], b), Eq(a.args[2], b))
	}
	// zext(x) == const
	if a.IsConst() && (b.op == "zext") {
		a, b = b, a
	}
	if b.IsConst() && a.op == "zext" {
		inner := a.args[0]
		if b.c > mask(inner.s.W) {
			return False
		}
		return Eq(inner, ConstBV(inner.s.W, b.c))
	}
	if a.id > b.id {
		a, b = b, a
	}
	return mk("=", BoolS, 0, 0, 0, "", a, b)
}

func BvBin(op string, a, b *Term) *Term {
	w := a.s.W
	if a.s != b.s {
		panic(fmt.Sprintf("BvBin %s sort mismatch %v %v", op, a.s, b.s))
	}
	if w > 64 {
		return wideBin(op, a, b)
	}
	if a.IsConst() && b.IsConst() {
		x, y := a.c, b.c
		var r uint64
		ok := true
		switch op {
		case "bvadd":
			r = x + y
		case "bvsub":
			r = x - y
		case "bvmul":
			r = x * y
		case "bvand":
			r = x & y
		case "bvor":
			r = x | y
		case "bvxor":
			r = x ^ y
		case "bvshl":
			if y >= uint64(w) {
				r = 0
			} else {
				r = x << y
			}
		case "bvlshr":
			if y >= uint64(w) {
				r = 0
			} else {
				r = x >> y
			}
		case "bvashr":
			sx := sext64(x, w)
			if y >= uint64(w) {
				y = uint64(w - 1)
			}
			r = uint64(sx >> y)
		case "bvudiv":
			if y == 0 {
				ok = false
			} else {
				r = x / y
			}
		case "bvurem":
			if y == 0 {
				ok = false
			} else {
				r = x % y
			}
		case "bvsdiv":
			if y == 0 {
				ok = false
			} else {
				sx, sy := sext64(x, w), sext64(y, w)
				if sy == -1 {
					r = uint64(-sx)
				} else {
					r = uint64(sx / sy)
				}
			}
		case "bvsrem":
			if y == 0 {
				ok = false
			} else {
				sx, sy := sext64(x, w), sext64(y, w)
				if sy == -1 {
					r = 0
				} else {
					r = uint64(sx % sy)
				}
			}
		default:
			ok = false
		}
		if ok {
			return ConstBV(w, r)
		}
	}
	// division of a zero-extended narrow value by a constant that fits: divide
	// in the narrow width (64-bit division circuits are what makes integer
	// formatting queries slow)
	if (op == "bvudiv" || op == "bvurem" || op == "bvsdiv" || op == "bvsrem") && a.op == "zext" && b.IsConst() && b.c != 0 {
		in := a.args[0]
		if in.s.W < w && b.c <= mask(in.s.W) && (op[2] == 'u' || sext64(b.c, w) > 0) {
			return ZExt(BvBin("bvu"+op[3:], in, ConstBV(in.s.W, b.c)), w)
		}
	}
	if b.IsConst() && b.c == 0 && (op == "bvadd" || op == "bvsub" || op == "bvor" || op == "bvxor" || op == "bvshl" || op == "bvlshr" || op == "bvashr") {
		return a
	}
	if a.IsConst() && a.c == 0 && (op == "bvadd" || op == "bvor" || op == "bvxor") {
		return b
	}
	if op == "bvand" {
		if (a.IsConst() && a.c == 0) || (b.IsConst() && b.c == 0) {
			return ConstBV(w, 0)
		}
		if a.IsConst() && a.c == mask(w) {
			return b
		}
		if b.IsConst() && b.c == mask(w) {
			return a
		}
		if a == b {
			return a
		}
	}
	if op == "bvor" && a == b {
		return a
	}
	if op == "bvmul" {
		if a.IsConst() && a.c == 1 {
			return b
		}
		if b.IsConst() && b.c == 1 {
			return a
		}
		if (a.IsConst() && a.c == 0) || (b.IsConst() && b.c == 0) {
			return ConstBV(w, 0)
		}
	}
	if (op == "bvsub" || op == "bvxor") && a == b {
		return ConstBV(w, 0)
	}
	// (x + c1) + c2, (x + c1) - c2
	if b.IsConst() && a.op == "bvadd" && a.args[1].IsConst() && (op == "bvadd" || op == "bvsub") {
		return BvBin("bvadd", a.args[0], BvBin(op, a.args[1], b))
	}
	if op == "bvsub" && b.IsConst() {
		return BvBin("bvadd", a, ConstBV(w, -b.c))
	}
	if op == "bvadd" && a.IsConst() && !b.IsConst() {
		a, b = b, a
	}
	// push arithmetic with a constant through ite of constants (digit tables etc.)
	if b.IsConst() && a.op == "ite" && a.args[1].IsConst() && a.args[2].IsConst() {
		return Ite(a.args[0], BvBin(op, a.args[1], b), BvBin(op, a.args[2], b))
	}
	return mk(op, a.s, 0, 0, 0, "", a, b)
}

func BvCmp(op string, a, b *Term) *Term {
	w := a.s.W
	if a.s != b.s {
		panic(fmt.Sprintf("BvCmp %s sort mismatch %v %v", op, a.s, b.s))
	}
	if w > 64 {
		return wideCmp(op, a, b)
	}
	if a.IsConst() && b.IsConst() {
		x, y := a.c, b.c
		switch op {
		case "bvult":
			return ConstBool(x < y)
		case "bvule":
			return ConstBool(x <= y)
		case "bvslt":
			return ConstBool(sext64(x, w) < sext64(y, w))
		case "bvsle":
			return ConstBool(sext64(x, w) <= sext64(y, w))
		}
	}
	if a == b {
		return ConstBool(op == "bvule" || op == "bvsle")
	}
	if op == "bvult" && b.IsConst() && b.c == 0 {
		return False
	}
	if op == "bvule" && a.IsConst() && a.c == 0 {
		return True
	}
	if op == "bvule" && b.IsConst() && b.c == mask(w) {
		return True
	}
	// comparisons of zero-extended values with constants
	if (op == "bvult" || op == "bvule") && a.op == "zext" && b.IsConst() {
		in := a.args[0]
		if b.c > mask(in.s.W) {
			return True
		}
		return BvCmp(op, in, ConstBV(in.s.W, b.c))
	}
	if (op == "bvult" || op == "bvule") && b.op == "zext" && a.IsConst() {
		in := b.args[0]
		if a.c > mask(in.s.W) {
			return False
		}
		return BvCmp(op, ConstBV(in.s.W, a.c), in)
	}
	if (op == "bvslt" || op == "bvsle") && a.op == "zext" && b.IsConst() && sext64(b.c, w) >= 0 {
		return BvCmp("bvu"+op[3:], a, b)
	}
	if (op == "bvslt" || op == "bvsle") && b.op == "zext" && a.IsConst() && sext64(a.c, w) >= 0 {
		return BvCmp("bvu"+op[3:], a, b)
	}
	if (op == "bvslt" || op == "bvsle") && a.op == "zext" && b.op == "zext" {
		return BvCmp("bvu"+op[3:], a, b)
	}
	if a.op == "ite" && b.IsConst() && a.args[1].IsConst() && a.args[2].IsConst() {
		return Ite(a.args[0], BvCmp(op, a.args[1], b), BvCmp(op, a.args[2], b))
	}
	if b.op == "ite" && a.IsConst() && b.args[1].IsConst() && b.args[2].IsConst() {
		return Ite(b.args[0], BvCmp(op, a, b.args[1]), BvCmp(op, a, b.args[2]))
	}
	return mk(op, BoolS, 0, 0, 0, "", a, b)
}
func BvNot(a *Term) *Term {
	if a.IsConst() && a.s.W <= 64 {
		return ConstBV(a.s.W, ^a.c)
	}
	if a.op == "bvnot" {
		return a.args[0]
	}
	return mk("bvnot", a.s, 0, 0, 0, "", a)
}
func BvNeg(a *Term) *Term {
	if x, ok := wideConst(a); ok {
		return ConstBVBig(a.s.W, new(big.Int).Neg(x))
	}
	if a.IsConst() && a.s.W <= 64 {
		return ConstBV(a.s.W, -a.c)
	}
	return mk("bvneg", a.s, 0, 0, 0, "", a)
}
func Extract(hi, lo int, a *Term) *Term {
	if lo == 0 && hi == a.s.W-1 {
		return a
	}
	if x, ok := wideConst(a); ok {
		return ConstBVBig(hi-lo+1, new(big.Int).Rsh(x, uint(lo)))
	}
	if a.s.W > 64 {
		return mk("extract", BV(hi-lo+1), 0, hi, lo, "", a)
	}
	if a.IsConst() {
		return ConstBV(hi-lo+1, a.c>>uint(lo))
	}
	if (a.op == "zext" || a.op == "sext") && lo == 0 {
		in := a.args[0]
		if hi+1 == in.s.W {
			return in
		}
		if hi+1 < in.s.W {
			return Extract(hi, 0, in)
		}
		if a.op == "zext" {
			return ZExt(in, hi+1)
		}
		return SExt(in, hi+1)
	}
	if a.op == "ite" && a.args[1].IsConst() && a.args[2].IsConst() {
		return Ite(a.args[0], Extract(hi, lo, a.args[1]), Extract(hi, lo, a.args[2]))
	}
	return mk("extract", BV(hi-lo+1), 0, hi, lo, "", a)
}
func ZExt(a *Term, w int) *Term {
	if w == a.s.W {
		return a
	}
	if w > 64 {
		if a.IsConst() {
			return ConstBVBig(w, new(big.Int).SetUint64(a.c))
		}
		if x, ok := wideConst(a); ok {
			return ConstBVBig(w, x)
		}
		if a.op == "zext" {
			return ZExt(a.args[0], w)
		}
		return mk("zext", BV(w), 0, w-a.s.W, 0, "", a)
	}
	if a.IsConst() {
		return ConstBV(w, a.c)
	}
	if a.op == "zext" {
		return ZExt(a.args[0], w)
	}
	if a.op == "ite" && a.args[1].IsConst() && a.args[2].IsConst() {
		return Ite(a.args[0], ZExt(a.args[1], w), ZExt(a.args[2], w))
	}
	return mk("zext", BV(w), 0, w-a.s.W, 0, "", a)
}
func SExt(a *Term, w int) *Term {
	if w == a.s.W {
		return a
	}
	if w > 64 {
		if a.IsConst() {
			return ConstBVBig(w, big.NewInt(sext64(a.c, a.s.W)))
		}
		if x, ok := wideConst(a); ok {
			return ConstBVBig(w, toSigned(x, a.s.W))
		}
		if a.op == "zext" {
			return ZExt(a.args[0], w)
		}
		return mk("sext", BV(w), 0, w-a.s.W, 0, "", a)
	}
	if a.IsConst() {
		return ConstBV(w, uint64(sext64(a.c, a.s.W)))
	}
	if a.op == "zext" {
		return ZExt(a.args[0], w)
	}
	return mk("sext", BV(w), 0, w-a.s.W, 0, "", a)
}
func Concat(a, b *Term) *Term {
	if a.IsConst() && b.IsConst() && a.s.W+b.s.W <= 64 && a.s.W <= 64 && b.s.W <= 64 {
		return ConstBV(a.s.W+b.s.W, a.c<<uint(b.s.W)|b.c)
	}
	return mk("concat", BV(a.s.W+b.s.W), 0, 0, 0, "", a, b)
}

// ---- Int terms (math/big.Int model)

func IntBin(op string, a, b *Term) *Term {
	if a.IsConst() && b.IsConst() {
		r := new(big.Int)
		switch op {
		case "+":
			return ConstInt(r.Add(a.bi, b.bi))
		case "-":
			return ConstInt(r.Sub(a.bi, b.bi))
		case "*":
			return ConstInt(r.Mul(a.bi, b.bi))
		case "div":
			if b.bi.Sign() != 0 {
				// SMT div: floor for positive divisor (Euclidean)
				m := new(big.Int)
				r.DivMod(a.bi, b.bi, m)
				return ConstInt(r)
			}
		case "mod":
			if b.bi.Sign() != 0 {
				m := new(big.Int)
				r.DivMod(a.bi, b.bi, m)
				return ConstInt(m)
			}
		}
	}
	if op == "+" {
		if a.IsConst() && a.bi.Sign() == 0 {
			return b
		}
		if b.IsConst() && b.bi.Sign() == 0 {
			return a
		}
	}
	if op == "-" && b.IsConst() && b.bi.Sign() == 0 {
		return a
	}
	if op == "*" {
		if a.IsConst() && a.bi.Cmp(big.NewInt(1)) == 0 {
			return b
		}
		if b.IsConst() && b.bi.Cmp(big.NewInt(1)) == 0 {
			return a
		}
		if (a.IsConst() && a.bi.Sign() == 0) || (b.IsConst() && b.bi.Sign() == 0) {
			return ConstIntI(0)
		}
	}
	return mk(op, IntS, 0, 0, 0, "", a, b)
}
func IntNeg(a *Term) *Term {
	if a.IsConst() {
		return ConstInt(new(big.Int).Neg(a.bi))
	}
	return mk("-", IntS, 0, 0, 0, "neg", a)
}
func IntCmp(op string, a, b *Term) *Term {
	if a.IsConst() && b.IsConst() {
		c := a.bi.Cmp(b.bi)
		switch op {
		case "<":
			return ConstBool(c < 0)
		case "<=":
			return ConstBool(c <= 0)
		case ">":
			return ConstBool(c > 0)
		case ">=":
			return ConstBool(c >= 0)
		}
	}
	return mk(op, BoolS, 0, 0, 0, "", a, b)
}

// BvToInt interprets a bit-vector as a natural number.
func BvToInt(a *Term) *Term {
	if a.IsConst() {
		return ConstInt(new(big.Int).SetUint64(a.c))
	}
	return mk("bv2nat", IntS, 0, 0, 0, "", a)
}

// IntToBv is (_ int2bv w): the value modulo 2^w.
func IntToBv(a *Term, w int) *Term {
	if a.IsConst() {
		m := new(big.Int).Lsh(big.NewInt(1), uint(w))
		r := new(big.Int).Mod(a.bi, m)
		return ConstBV(w, r.Uint64())
	}
	if a.op == "bv2nat" && a.args[0].s.W == w {
		return a.args[0]
	}
	return mk("int2bv", BV(w), 0, w, 0, "", a)
}

// ---- Float64 terms

func FpBin(op string, a, b *Term) *Term { // fp.add fp.sub fp.mul fp.div (RNE)
	if a.IsConst() && b.IsConst() {
		x, y := math.Float64frombits(a.c), math.Float64frombits(b.c)
		switch op {
		case "fp.add":
			return ConstF64(x + y)
		case "fp.sub":
			return ConstF64(x - y)
		case "fp.mul":
			return ConstF64(x * y)
		case "fp.div":
			return ConstF64(x / y)
		}
	}
	return mk(op, F64S, 0, 0, 0, "", a, b)
}
func FpCmp(op string, a, b *Term) *Term { // fp.lt fp.leq fp.gt fp.geq fp.eq
	if a.IsConst() && b.IsConst() {
		x, y := math.Float64frombits(a.c), math.Float64frombits(b.c)
		switch op {
		case "fp.lt":
			return ConstBool(x < y)
		case "fp.leq":
			return ConstBool(x <= y)
		case "fp.gt":
			return ConstBool(x > y)
		case "fp.geq":
			return ConstBool(x >= y)
		case "fp.eq":
			return ConstBool(x == y)
		}
	}
	return mk(op, BoolS, 0, 0, 0, "", a, b)
}
func FpPred(op string, a *Term) *Term { // fp.isNaN fp.isInfinite fp.isNegative fp.isZero
	if a.IsConst() {
		x := math.Float64frombits(a.c)
		switch op {
		case "fp.isNaN":
			return ConstBool(math.IsNaN(x))
		case "fp.isInfinite":
			return ConstBool(math.IsInf(x, 0))
		case "fp.isNegative":
			return ConstBool(!math.IsNaN(x) && math.Signbit(x))
		case "fp.isZero":
			return ConstBool(x == 0)
		}
	}
	if a.op == "fp.frombits" {
		// predicates of a reinterpreted bit pattern are bit-vector formulas
		// (keeps the floating-point theory out of the queries)
		b := a.args[0]
		exp := Extract(62, 52, b)
		man := Extract(51, 0, b)
		sign := Eq(Extract(63, 63, b), ConstBV(1, 1))
		expAll := Eq(exp, ConstBV(11, 0x7FF))
		manZero := Eq(man, ConstBV(52, 0))
		switch op {
		case "fp.isNaN":
			return And(expAll, Not(manZero))
		case "fp.isInfinite":
			return And(expAll, manZero)
		case "fp.isNegative":
			return And(sign, Not(And(expAll, Not(manZero))))
		case "fp.isZero":
			return And(Eq(exp, ConstBV(11, 0)), manZero)
		}
	}
	return mk(op, BoolS, 0, 0, 0, "", a)
}
func FpNeg(a *Term) *Term {
	if a.IsConst() {
		return ConstF64(-math.Float64frombits(a.c))
	}
	return mk("fp.neg", F64S, 0, 0, 0, "", a)
}

// FpFromBits reinterprets 64 bits as a float64.
func FpFromBits(a *Term) *Term {
	if a.IsConst() {
		return mk("const", F64S, a.c, 0, 0, "")
	}
	return mk("fp.frombits", F64S, 0, 0, 0, "", a)
}

// FpFromInt converts a (signed or unsigned) bit-vector integer to float64, RNE.
func FpFromInt(a *Term, signed bool) *Term {
	if a.IsConst() {
		if signed {
			return ConstF64(float64(sext64(a.c, a.s.W)))
		}
		return ConstF64(float64(a.c))
	}
	if signed {
		return mk("fp.fromsbv", F64S, 0, 0, 0, "", a)
	}
	return mk("fp.fromubv", F64S, 0, 0, 0, "", a)
}

// ---- SMT printing: each term is defined once as a global define-fun

func smtName(n string) string { return "|v." + n + "|" }

func (t *Term) ref() string {
	switch t.op {
	case "const":
		switch t.s.K {
		case 'b':
			if t.c == 1 {
				return "true"
			}
			return "false"
		case 'i':
			if t.bi.Sign() < 0 {
				return "(- " + new(big.Int).Neg(t.bi).String() + ")"
			}
			return t.bi.String()
		case 'f':
			return fmt.Sprintf("((_ to_fp 11 53) #x%016x)", t.c)
		}
		return fmt.Sprintf("(_ bv%d %d)", t.c, t.s.W)
	case "var":
		return smtName(t.name)
	case "bigconst":
		return fmt.Sprintf("(_ bv%s %d)", t.bi.String(), t.s.W)
	}
	return fmt.Sprintf("t%d", t.id)
}

func (t *Term) body() string {
	as := make([]string, len(t.args))
	for i, a := range t.args {
		as[i] = a.ref()
	}
	j := strings.Join(as, " ")
	switch t.op {
	case "extract":
		return fmt.Sprintf("((_ extract %d %d) %s)", t.p1, t.p2, j)
	case "zext":
		return fmt.Sprintf("((_ zero_extend %d) %s)", t.p1, j)
	case "sext":
		return fmt.Sprintf("((_ sign_extend %d) %s)", t.p1, j)
	case "int2bv":
		return fmt.Sprintf("((_ int2bv %d) %s)", t.p1, j)
	case "fp.add", "fp.sub", "fp.mul", "fp.div":
		return fmt.Sprintf("(%s RNE %s)", t.op, j)
	case "fp.frombits":
		return fmt.Sprintf("((_ to_fp 11 53) %s)", j)
	case "fp.fromsbv":
		return fmt.Sprintf("((_ to_fp 11 53) RNE %s)", j)
	case "fp.fromubv":
		return fmt.Sprintf("((_ to_fp_unsigned 11 53) RNE %s)", j)
	}
	return fmt.Sprintf("(%s %s)", t.op, j)
}

// freeVars returns the set of variables of t (memoised).
func (t *Term) freeVars() map[*Term]bool {
	if t.vars != nil {
		return t.vars
	}
	m := map[*Term]bool{}
	if t.op == "var" {
		m[t] = true
	}
	for _, a := range t.args {
		for v := range a.freeVars() {
			m[v] = true
		}
	}
	t.vars = m
	return m
}

// evalTerm evaluates t under a (total on the needed variables) assignment of
// bit-vector / bool variables.  Returns ok=false if a variable is missing or
// an operator is outside the evaluable fragment (Int, FP).
func evalTerm(t *Term, m map[*Term]uint64, memo map[*Term]uint64) (uint64, bool) {
	if t.op == "const" {
		if t.s.K == 'i' || t.s.K == 'f' {
			return 0, false
		}
		return t.c, true
	}
	if v, ok := memo[t]; ok {
		return v, true
	}
	if t.op == "bigconst" || (t.s.K == 'v' && t.s.W > 64) {
		return 0, false
	}
	for _, a := range t.args {
		if a.s.K == 'v' && a.s.W > 64 {
			return 0, false
		}
	}
	if t.op == "var" {
		v, ok := m[t]
		return v, ok
	}
	av := make([]uint64, len(t.args))
	for i, a := range t.args {
		// short-circuit ite
		if t.op == "ite" && i > 0 {
			continue
		}
		v, ok := evalTerm(a, m, memo)
		if !ok {
			return 0, false
		}
		av[i] = v
	}
	var r uint64
	w := t.s.W
	aw := 0
	if len(t.args) > 0 {
		aw = t.args[0].s.W
	}
	switch t.op {
	case "not":
		r = 1 - av[0]
	case "and":
		r = av[0] & av[1]
	case "or":
		r = av[0] | av[1]
	case "ite":
		var ok bool
		if av[0] == 1 {
			r, ok = evalTerm(t.args[1], m, memo)
		} else {
			r, ok = evalTerm(t.args[2], m, memo)
		}
		if !ok {
			return 0, false
		}
	case "=":
		if t.args[0].s.K == 'i' || t.args[0].s.K == 'f' {
			return 0, false
		}
		if av[0] == av[1] {
			r = 1
		}
	case "bvult":
		if av[0] < av[1] {
			r = 1
		}
	case "bvule":
		if av[0] <= av[1] {
			r = 1
		}
	case "bvslt":
		if sext64(av[0], aw) < sext64(av[1], aw) {
			r = 1
		}
	case "bvsle":
		if sext64(av[0], aw) <= sext64(av[1], aw) {
			r = 1
		}
	case "bvnot":
		r = ^av[0] & mask(w)
	case "bvneg":
		r = -av[0] & mask(w)
	case "extract":
		r = (av[0] >> uint(t.p2)) & mask(w)
	case "zext":
		r = av[0]
	case "sext":
		r = uint64(sext64(av[0], aw)) & mask(w)
	case "concat":
		r = av[0]<<uint(t.args[1].s.W) | av[1]
	case "bvadd", "bvsub", "bvmul", "bvand", "bvor", "bvxor", "bvshl", "bvlshr", "bvashr", "bvudiv", "bvurem", "bvsdiv", "bvsrem":
		x, y := av[0], av[1]
		switch t.op {
		case "bvudiv":
			if y == 0 {
				r = mask(w)
			} else {
				r = x / y
			}
		case "bvurem":
			if y == 0 {
				r = x
			} else {
				r = x % y
			}
		case "bvsdiv", "bvsrem":
			if y == 0 {
				return 0, false
			}
			c := BvBin(t.op, ConstBV(w, x), ConstBV(w, y))
			r = c.c
		default:
			c := BvBin(t.op, ConstBV(w, x), ConstBV(w, y))
			if !c.IsConst() {
				return 0, false
			}
			r = c.c
		}
		r &= mask(w)
	default:
		return 0, false
	}
	memo[t] = r
	return r, true
}
