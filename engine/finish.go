package main

// Merging worker results, native replay, evidence and the exit status.

import (
	"crypto/sha1"
	"encoding/hex"
	"encoding/json"
	"fmt"
	"os"
	"os/exec"
	"path/filepath"
	"sort"
	"strings"
	"time"
)

type replayOutcome struct {
	fails   []string
	obs     map[string]string
	panicM  string
	skipped string
	reach   []string
	ran     bool
}

// nativeReplay runs the vectors in dir (all of one package) against /repo's
// working tree with `go test -overlay`.
func nativeReplay(pkgRel string, vecDir string, tier int, workDir string, raceID string) (map[string]*replayOutcome, string, error) {
	race := raceID != ""
	ov, _, err := harnessOverlay(false)
	if err != nil {
		return nil, "", err
	}
	repl := map[string]string{}
	odir, err := os.MkdirTemp(workDir, "ov")
	if err != nil {
		return nil, "", err
	}
	pkgDir := filepath.Join(repoDir, pkgRel)
	n := 0
	pkgName := ""
	var entries []string
	for p, b := range ov {
		d := filepath.Dir(p)
		if d != pkgDir && !strings.HasSuffix(d, "internal/vfmodel") {
			continue
		}
		if strings.HasSuffix(d, "internal/vfmodel") {
			// natively the real library functions are used; the model package is
			// only compiled by the self-test
			continue
		}
		f := filepath.Join(odir, fmt.Sprintf("f%d_%s", n, filepath.Base(p)))
		n++
		if err := os.WriteFile(f, b, 0o644); err != nil {
			return nil, "", err
		}
		repl[p] = f
		if pkgName == "" {
			pkgName = pkgClause(b)
		}
		for _, l := range strings.Split(string(b), "\n") {
			if strings.HasPrefix(l, "func VfC") {
				name := l[len("func "):]
				if i := strings.IndexByte(name, '('); i > 0 {
					entries = append(entries, name[:i])
				}
			}
		}
	}
	sort.Strings(entries)
	tmpl, err := os.ReadFile(filepath.Join(verifDir, "vfrt", "replay_test.go.tmpl"))
	if err != nil {
		return nil, "", err
	}
	src := strings.ReplaceAll(string(tmpl), "PKGNAME", pkgName)
	src = strings.ReplaceAll(src, "PKGPATH", repoMod+"/"+pkgRel)
	var sb strings.Builder
	sb.WriteString(src)
	sb.WriteString("\nvar vfEntries = map[string]func(){\n")
	for _, en := range entries {
		fmt.Fprintf(&sb, "\t%q: %s,\n", en, en)
	}
	sb.WriteString("}\n")
	tf := filepath.Join(odir, "zz_vf_replay_test.go")
	os.WriteFile(tf, []byte(sb.String()), 0o644)
	repl[filepath.Join(pkgDir, "zz_vf_replay_test.go")] = tf
	ovJSON := filepath.Join(odir, "overlay.json")
	writeJSON(ovJSON, map[string]interface{}{"Replace": repl})
	args := []string{"test", "-tags", "verif", "-vet=off", "-count=1", "-run", "^TestVfReplay$", "-v", "-overlay", ovJSON, "-timeout", "10m"}
	if race {
		args = append(args, "-race")
	}
	args = append(args, "./"+pkgRel)
	cmd := exec.Command("go", args...)
	cmd.Dir = repoDir
	tn := "quick"
	if tier > 0 {
		tn = "thorough"
	}
	if race {
		cmd.Env = append(cmd.Env, "VF_REPLAY_REPS=400")
	}
	cmd.Env = append(append(os.Environ(), cmd.Env...), "VF_REPLAY_DIR="+vecDir, "VF_TIER="+tn, "GOFLAGS=-mod=mod", "GOPROXY=off", "GOSUMDB=off", "GOTOOLCHAIN=local")
	out, rerr := cmd.CombinedOutput()
	res := map[string]*replayOutcome{}
	var cur *replayOutcome
	for _, l := range strings.Split(string(out), "\n") {
		l = strings.TrimRight(l, "\r")
		switch {
		case strings.HasPrefix(l, "VFBEGIN "):
			cur = &replayOutcome{obs: map[string]string{}, ran: true}
			res[strings.TrimPrefix(l, "VFBEGIN ")] = cur
		case strings.HasPrefix(l, "VFEND "):
			cur = nil
		case cur == nil:
		case strings.Contains(l, "WARNING: DATA RACE"):
			cur.fails = append(cur.fails, raceID)
		case strings.HasPrefix(l, "VFFAIL "):
			cur.fails = append(cur.fails, strings.TrimPrefix(l, "VFFAIL "))
		case strings.HasPrefix(l, "VFREACH "):
			cur.reach = append(cur.reach, strings.TrimPrefix(l, "VFREACH "))
		case strings.HasPrefix(l, "VFOBS "):
			fs := strings.SplitN(strings.TrimPrefix(l, "VFOBS "), " ", 2)
			if len(fs) == 2 {
				cur.obs[fs[0]] = fs[1]
			}
		case strings.HasPrefix(l, "VFPANIC "):
			cur.panicM = strings.TrimPrefix(l, "VFPANIC ")
		case strings.HasPrefix(l, "VFSKIP "):
			cur.skipped = strings.TrimPrefix(l, "VFSKIP ")
		}
	}
	if race && strings.Contains(string(out), "WARNING: DATA RACE") {
		// one vector per process in race mode: the report may be printed after
		// the VFEND line (stderr / stdout interleaving)
		for _, o := range res {
			o.fails = append(o.fails, raceID)
		}
	}
	if len(res) == 0 && rerr != nil {
		return res, string(out), fmt.Errorf("go test failed: %v", rerr)
	}
	return res, string(out), nil
}

func vecHash(v *Vector) string {
	b, _ := json.Marshal(v)
	h := sha1.Sum(b)
	return hex.EncodeToString(h[:5])
}

type Evidence struct {
	PropertyID  string                 `json:"property_id"`
	Tier        string                 `json:"tier"`
	Seed        int                    `json:"seed"`
	Level       string                 `json:"level"`
	Coverage    map[string]interface{} `json:"coverage"`
	Assumptions []string               `json:"assumptions"`
	WallS       float64                `json:"wall_s"`
	Violations  int                    `json:"violations"`
}

func finishCheck(prop, tierName string, tier, seed int, jobs []*job, tmp string, t0 time.Time) int {
	fatal := 0
	var all []*WorkerResult
	for _, j := range jobs {
		if j.res.Fatal != "" {
			fmt.Fprintf(os.Stderr, "ENGINE ERROR in %s: %s\n%s\n", j.spec.Entry, j.res.Fatal, tail(j.log, 1500))
			fatal++
		}
		if strings.Contains(j.log, "HOST PANIC") || strings.Contains(j.log, "panic:") {
			fmt.Fprintf(os.Stderr, "worker log (%s):\n%s\n", j.spec.Entry, tail(j.log, 3000))
		}
		all = append(all, j.res)
	}
	// ---- merge
	obls := map[string]*Obl{}
	ends := map[string]int{}
	notes := map[string]int{}
	models := map[string]int{}
	bounds := map[string]string{}
	funcs := map[string]bool{}
	queries := map[string]int{}
	var paths, nontrivial, forks, decisions int
	var steps int64
	var solverS, maxQ float64
	cross := CrossResult{}
	reach := map[string]bool{}
	witnessed := map[string]bool{}
	var vectors []*Vector
	for _, r := range all {
		for _, o := range r.Obls {
			m := obls[o.ID]
			if m == nil {
				m = &Obl{ID: o.ID}
				obls[o.ID] = m
			}
			m.Discharged += o.Discharged
			m.Failed += o.Failed
			m.Unknown += o.Unknown
			m.Trivial += o.Trivial
			m.KnownHits += o.KnownHits
		}
		for k, v := range r.Ends {
			ends[r.Entry+": "+k] += v
		}
		for k, v := range r.Notes {
			notes[k] += v
		}
		for k, v := range r.Models {
			models[k] += v
		}
		for k, v := range r.Bounds {
			bounds[r.Entry+"."+k] = v
		}
		for _, f := range r.Funcs {
			funcs[f] = true
		}
		for k, v := range r.Queries {
			queries[k] += v
		}
		paths += r.Paths
		nontrivial += r.Nontrivial
		forks += r.Forks
		decisions += r.Decisions
		steps += r.Steps
		solverS += r.SolverS
		if r.MaxQueryS > maxQ {
			maxQ = r.MaxQueryS
		}
		cross.Checked += r.Cross.Checked
		cross.Disagreements += r.Cross.Disagreements
		cross.Detail = append(cross.Detail, r.Cross.Detail...)
		if len(r.Cross.Solvers) > 0 {
			cross.Solvers = r.Cross.Solvers
		}
		for _, id := range r.Reached {
			reach[r.Entry+":"+id] = true
		}
		for _, id := range r.Witnessed {
			witnessed[r.Entry+":"+id] = true
		}
		vectors = append(vectors, r.Vectors...)
	}
	// ---- native replay of witnesses and counterexample candidates
	replDir := filepath.Join(verifDir, "replays", prop)
	os.MkdirAll(replDir, 0o755)
	byPkg := map[string][]*Vector{}
	for _, v := range vectors {
		byPkg[v.Pkg] = append(byPkg[v.Pkg], v)
	}
	type judged struct {
		v       *Vector
		file    string
		outcome *replayOutcome
		verdict string // reproduced | unreproduced | witness-ok | witness-mismatch | not-run
		detail  string
	}
	var js []*judged
	replayLog := ""
	for pkg, vs := range byPkg {
		pkgRel := strings.TrimPrefix(pkg, repoMod+"/")
		vdir, _ := os.MkdirTemp(tmp, "vec")
		names := map[*Vector]string{}
		for i, v := range vs {
			name := fmt.Sprintf("v%04d.json", i)
			names[v] = name
			writeJSON(filepath.Join(vdir, name), v)
		}
		var out map[string]*replayOutcome
		var log string
		var err error
		// entries that run two goroutines (C13; *Concurrent entries elsewhere) are
		// replayed under the race detector, which reports each racing pair of
		// stacks once per process: one process per vector
		var plain []*Vector
		out = map[string]*replayOutcome{}
		for _, v := range vs {
			rid := raceIDFor(prop, v)
			if rid == "" {
				plain = append(plain, v)
				continue
			}
			one, _ := os.MkdirTemp(tmp, "vec1")
			writeJSON(filepath.Join(one, names[v]), v)
			o1, l1, e1 := nativeReplay(pkgRel, one, tier, tmp, rid)
			for k, x := range o1 {
				out[k] = x
			}
			log += l1
			if e1 != nil {
				err = e1
			}
		}
		if len(plain) > 0 {
			pdir, _ := os.MkdirTemp(tmp, "vecp")
			for _, v := range plain {
				writeJSON(filepath.Join(pdir, names[v]), v)
			}
			o2, l2, e2 := nativeReplay(pkgRel, pdir, tier, tmp, "")
			for k, x := range o2 {
				out[k] = x
			}
			log += l2
			if e2 != nil {
				err = e2
			}
		}
		if err != nil {
			fmt.Fprintf(os.Stderr, "REPLAY ERROR for %s: %v\n%s\n", pkg, err, tail(log, 3000))
			replayLog += tail(log, 3000)
			fatal++
		}
		for _, v := range vs {
			j := &judged{v: v, outcome: out[names[v]]}
			js = append(js, j)
			o := j.outcome
			if o == nil || !o.ran {
				j.verdict = "not-run"
				continue
			}
			switch v.Kind {
			case "witness":
				j.verdict = "witness-ok"
				if o.skipped != "" {
					j.verdict = "witness-mismatch"
					j.detail = "native run left the path: " + o.skipped
				}
				for k, want := range v.Obs {
					if v.Approx {
						break // over-approximated path: only reachability is compared
					}
					if got, ok := o.obs[k]; !ok || got != want {
						j.verdict = "witness-mismatch"
						j.detail += fmt.Sprintf(" obs %s: engine=%s native=%s;", k, want, got)
					}
				}
			default:
				rep := false
				if v.Expect == "panic" {
					rep = o.panicM != ""
					j.detail = o.panicM
				} else {
					for _, f := range o.fails {
						if f == v.Expect {
							rep = true
						}
					}
					if !rep && o.panicM != "" {
						j.detail = "native panic instead: " + o.panicM
					}
				}
				if !rep && v.MapDep && v.Expect != "panic" {
					// the path depends on a map iteration order, which is random in
					// the native run: repeat the replay of this vector
					for try := 0; try < 12 && !rep; try++ {
						one, _ := os.MkdirTemp(tmp, "vecm")
						writeJSON(filepath.Join(one, names[v]), v)
						o1, _, _ := nativeReplay(pkgRel, one, tier, tmp, "")
						if x := o1[names[v]]; x != nil && x.ran {
							for _, f := range x.fails {
								if f == v.Expect {
									rep = true
								}
							}
						}
					}
				}
				if rep {
					j.verdict = "reproduced"
				} else {
					j.verdict = "unreproduced"
					if o.skipped != "" {
						j.detail += " skipped: " + o.skipped
					}
				}
			}
		}
	}
	// ---- classify
	violations, knownSeen, unrepro, witnessOK, witnessBad := 0, map[string]string{}, 0, 0, 0
	unreproExact := 0
	samples := []interface{}{}
	var lines []string
	for _, j := range js {
		switch j.verdict {
		case "witness-ok":
			witnessOK++
			if len(samples) < 6 {
				samples = append(samples, map[string]interface{}{"kind": "reach-witness replayed natively, observations agree", "entry": j.v.Entry, "reach": j.v.Reach, "inputs": j.v.Inputs, "obs": j.v.Obs})
			}
		case "witness-mismatch":
			witnessBad++
			fmt.Fprintf(os.Stderr, "ENGINE FAULT: witness of %s does not agree with native execution: %s\n", j.v.Entry, j.detail)
		case "reproduced":
			if j.v.Kind == "known" {
				kf := knownFinding(j.v.KnownID)
				if _, seen := knownSeen[j.v.KnownID]; !seen {
					knownSeen[j.v.KnownID] = j.v.Expect
					what := j.v.KnownID
					if kf != nil {
						what = kf.ID + ": " + kf.What
					}
					lines = append(lines, fmt.Sprintf("KNOWN-FINDING: property=%s %s", prop, what))
				}
				continue
			}
			violations++
			name := fmt.Sprintf("%s-%s-%s.json", j.v.Entry, sanitize(j.v.Expect), vecHash(j.v))
			path := filepath.Join(replDir, name)
			writeJSON(path, j.v)
			lines = append(lines, fmt.Sprintf("VIOLATION property=%s replay=%s", prop, path))
			fmt.Fprintf(os.Stderr, "  violated obligation %s in %s (%s) inputs=%s\n", j.v.Expect, j.v.Entry, j.detail, compactInputs(j.v))
			if len(samples) < 10 {
				samples = append(samples, map[string]interface{}{"kind": "counterexample reproduced natively", "entry": j.v.Entry, "obligation": j.v.Expect, "inputs": j.v.Inputs, "msg": j.v.Msg})
			}
		case "unreproduced":
			unrepro++
			if j.v.Approx {
				fmt.Fprintf(os.Stderr, "INCONCLUSIVE: candidate for %s (%s) on an over-approximated path did not reproduce natively\n", j.v.Expect, j.v.Entry)
				continue
			}
			unreproExact++
			fmt.Fprintf(os.Stderr, "ENGINE FAULT: counterexample candidate for %s (%s) did not reproduce natively: %s inputs=%s symbolic-side message: %s\n", j.v.Expect, j.v.Entry, j.detail, compactInputs(j.v), j.v.Msg)
		}
	}
	// ---- inconclusive accounting
	inconclusive := 0
	var incDetail []string
	for _, o := range obls {
		if o.Unknown > 0 {
			inconclusive += o.Unknown
			incDetail = append(incDetail, fmt.Sprintf("%s: %d unknown", o.ID, o.Unknown))
		}
	}
	unwindFail, unsupported := 0, 0
	cuts := map[string]int{}
	for k, v := range ends {
		switch {
		case strings.Contains(k, ": UNWIND: "):
			unwindFail += v
			incDetail = append(incDetail, k)
		case strings.Contains(k, ": UNSUPPORTED: "):
			unsupported += v
			incDetail = append(incDetail, k)
		case strings.Contains(k, ": cut: "):
			cuts[k] += v
		}
	}
	vacuous := 0
	for id := range reach {
		if !witnessed[id] {
			vacuous++
			incDetail = append(incDetail, "vfReach never reached with a satisfiable path: "+id)
		}
	}
	for k, v := range notes {
		if strings.HasPrefix(k, "summary-") {
			incDetail = append(incDetail, fmt.Sprintf("%s (%d)", k, v))
		}
	}
	if cross.Disagreements > 0 {
		fmt.Fprintf(os.Stderr, "ENGINE FAULT: solver disagreement: %v\n", cross.Detail)
	}
	sort.Strings(incDetail)
	// ---- samples of discharged obligations
	var oblList []map[string]interface{}
	nObl, nDis := 0, 0
	for _, o := range sortedObls(obls) {
		oblList = append(oblList, map[string]interface{}{"id": o.ID, "paths_discharged": o.Discharged, "paths_trivially_true": o.Trivial, "paths_failed": o.Failed, "paths_unknown": o.Unknown, "known_region_hits": o.KnownHits})
		nObl++
		if o.Failed == 0 && o.Unknown == 0 && (o.Discharged > 0 || o.Trivial > 0) {
			nDis++
		}
	}
	if len(samples) == 0 {
		for _, o := range sortedObls(obls) {
			samples = append(samples, map[string]interface{}{"kind": "obligation", "id": o.ID, "discharged_on_paths": o.Discharged})
			if len(samples) >= 5 {
				break
			}
		}
	}
	var fl []string
	for f := range funcs {
		fl = append(fl, f)
	}
	sort.Strings(fl)
	var repoFuncs, depFuncs []string
	for _, f := range fl {
		if strings.Contains(f, "llir/llvm") && !strings.Contains(f, ".Vf") && !strings.Contains(f, "vfmodel") {
			repoFuncs = append(repoFuncs, f)
		} else {
			depFuncs = append(depFuncs, f)
		}
	}
	var entriesRun []string
	for _, j := range jobs {
		entriesRun = append(entriesRun, fmt.Sprintf("%s[%d/%d]", j.spec.Entry, j.shard, max(1, j.spec.Shards)))
	}
	wall := time.Since(t0).Seconds()
	states := paths
	if states < 1 {
		states = 1
	}
	trans := decisions
	if trans < 1 {
		trans = 1
	}
	ev := Evidence{PropertyID: prop, Tier: tierName, Seed: seed, Level: "model_checking", WallS: wall, Violations: violations,
		Coverage: map[string]interface{}{
			"states":                        states,
			"transitions":                   trans,
			"traces_validated_against_impl": witnessOK + violations + len(knownSeen),
			"samples":                       samples,
			"evaluations":                   states,
			"distinct_nontrivial":           nontrivial,
			"rule":                          "a case is one explored symbolic path of a harness entry (all inputs symbolic within the stated bounds); it is non-trivial when at least one obligation on it needed a solver query (its condition did not fold to a constant)",
			"exhaustive":                    inconclusive == 0 && unwindFail == 0 && unsupported == 0,
			"explanation":                   "bounded symbolic execution of the real Go SSA of /repo's working tree; every obligation below was decided by the SMT solver for all input values within the bounds on every explored path",
			"entries":                       entriesRun,
			"obligations":                   nObl,
			"discharged":                    nDis,
			"obligation_detail":             oblList,
			"functions_encoded":             repoFuncs,
			"functions_encoded_deps":        depFuncs,
			"models_used":                   models,
			"bounds":                        bounds,
			"cuts":                          cuts,
			"path_ends":                     ends,
			"unwinding_failures":            unwindFail,
			"unsupported_paths":             unsupported,
			"inconclusive":                  inconclusive + unwindFail + unsupported + vacuous,
			"inconclusive_detail":           incDetail,
			"queries":                       queries,
			"forks":                         forks,
			"steps":                         steps,
			"solver_s":                      solverS,
			"max_query_s":                   maxQ,
			"solver":                        "z3 5.1.0 (z3-new), one incremental process per worker",
			"cross_checked":                 map[string]interface{}{"queries_redecided": cross.Checked, "disagreements": cross.Disagreements, "solvers": cross.Solvers},
			"known_findings_seen":           knownSeen,
			"unreproduced":                  unrepro,
			"witness_mismatches":            witnessBad,
			"engine_errors":                 fatal,
			"checker_cmd":                   fmt.Sprintf("./check %s %s", prop, tierName),
			"trusted_base":                  []string{"go/packages + go/ssa (x/tools v0.29.0)", "the vsym executor and its environment models", "z3 5.1.0; z3 4.8.12 and cvc5 1.0 as cross-checks", "reference oracles in the harness sources"},
		},
		Assumptions: assumptionsFor(prop, models, cuts),
	}
	os.MkdirAll(filepath.Join(verifDir, "evidence"), 0o755)
	if err := writeJSON(filepath.Join(verifDir, "evidence", prop+".json"), ev); err != nil {
		fmt.Fprintln(os.Stderr, "cannot write evidence:", err)
	}
	// ---- report
	fmt.Printf("%s %s: entries=%d paths=%d obligations=%d discharged=%d queries=%d solver=%.1fs wall=%.1fs witnesses_ok=%d inconclusive=%d\n",
		prop, tierName, len(jobs), paths, nObl, nDis, queries["total"], solverS, wall, witnessOK, inconclusive+unwindFail+unsupported+vacuous)
	for _, o := range sortedObls(obls) {
		fmt.Printf("  %-46s discharged=%d trivial=%d failed=%d unknown=%d known-region=%d\n", o.ID, o.Discharged, o.Trivial, o.Failed, o.Unknown, o.KnownHits)
	}
	for _, d := range incDetail {
		fmt.Printf("  INCONCLUSIVE: %s\n", d)
	}
	sort.Strings(lines)
	for _, l := range lines {
		fmt.Println(l)
	}
	if violations > 0 {
		return 1
	}
	if fatal > 0 {
		return 2
	}
	if inconclusive+unwindFail > 0 {
		// an obligation the solver left undecided, or a loop bound that was hit:
		// only bounds that run clean are registered
		return 2
	}
	if unsupported > 0 {
		// code the executor cannot interpret was reached: the paths through it
		// were not explored, which on a tree where every path used to be
		// interpretable means this run cannot vouch for the property
		return 2
	}
	if unreproExact > 0 {
		// a counterexample on an exactly modelled path that the native run does
		// not confirm: the encoding or a model is wrong, or the failure depends on
		// something the replay cannot control; never "holds"
		return 2
	}
	if witnessBad > 0 {
		// the executor and the native run disagree on a reachability witness:
		// nothing this run says is trusted (inconclusive, never "holds")
		return 2
	}
	return 0
}

func sanitize(s string) string {
	var sb strings.Builder
	for _, c := range s {
		if (c >= 'a' && c <= 'z') || (c >= 'A' && c <= 'Z') || (c >= '0' && c <= '9') || c == '.' || c == '-' {
			sb.WriteRune(c)
		} else {
			sb.WriteByte('_')
		}
	}
	return sb.String()
}

func compactInputs(v *Vector) string {
	var ks []string
	for k := range v.Inputs {
		ks = append(ks, k)
	}
	sort.Strings(ks)
	var sb strings.Builder
	for _, k := range ks {
		in := v.Inputs[k]
		if in.Kind == "str" || in.Kind == "bytes" {
			b, _ := hex.DecodeString(in.Hex)
			fmt.Fprintf(&sb, " %s=%q", k, string(b))
		} else {
			fmt.Fprintf(&sb, " %s=%d", k, int64(in.U))
		}
	}
	return sb.String()
}

func assumptionsFor(prop string, models map[string]int, cuts map[string]int) []string {
	a := []string{
		"go/ssa (x/tools v0.29.0) is the semantics of the Go source; the executor implements it for the instruction kinds listed in DESIGN.md Appendix A",
		"bounds are those listed under coverage.bounds; inputs outside them are outside the claim",
		"environment models listed under coverage.models_used (DESIGN.md §2.4)",
	}
	for k := range cuts {
		a = append(a, "stated cut (path ended, outside the claim): "+k)
	}
	sort.Strings(a[3:])
	return a
}

// replayMain: vcheck replay <vector.json>
func replayMain(args []string) int {
	if len(args) < 1 {
		fmt.Fprintln(os.Stderr, "usage: vcheck replay <vector.json>")
		return 2
	}
	b, err := os.ReadFile(args[0])
	if err != nil {
		fmt.Fprintln(os.Stderr, err)
		return 2
	}
	var v Vector
	if err := json.Unmarshal(b, &v); err != nil {
		fmt.Fprintln(os.Stderr, err)
		return 2
	}
	work := filepath.Join(verifDir, ".work")
	os.MkdirAll(work, 0o755)
	tmp, _ := os.MkdirTemp(work, "replay")
	defer os.RemoveAll(tmp)
	vdir := filepath.Join(tmp, "vec")
	os.MkdirAll(vdir, 0o755)
	writeJSON(filepath.Join(vdir, "v0000.json"), &v)
	prop := ""
	if i := strings.Index(v.Entry, "Vf"); i >= 0 && len(v.Entry) >= i+5 {
		prop = v.Entry[i+2 : i+5]
	}
	out, log, err := nativeReplay(strings.TrimPrefix(v.Pkg, repoMod+"/"), vdir, 0, tmp, raceIDFor(prop, &v))
	if err != nil {
		fmt.Fprintln(os.Stderr, err)
		fmt.Fprintln(os.Stderr, log)
		return 2
	}
	o := out["v0000.json"]
	if o == nil {
		fmt.Println("vector was not run:\n" + tail(log, 2000))
		return 2
	}
	fmt.Printf("entry=%s expect=%s inputs=%s\n", v.Entry, v.Expect, compactInputs(&v))
	fmt.Printf("native: failed assertions=%v panic=%q skipped=%q obs=%v\n", o.fails, o.panicM, o.skipped, o.obs)
	rep := false
	if v.Expect == "panic" {
		rep = o.panicM != ""
	}
	for _, f := range o.fails {
		if f == v.Expect {
			rep = true
		}
	}
	if rep {
		fmt.Println("REPRODUCED")
		return 1
	}
	fmt.Println("not reproduced")
	return 0
}

// raceIDFor: the obligation id under which a data race reported by the race
// detector is recorded for this vector; "" if the entry is single-threaded.
func raceIDFor(prop string, v *Vector) string {
	if prop == "C13" {
		return "C13.race-free"
	}
	if strings.Contains(v.Entry, "GoroutineSchedules") {
		// goroutines started by the code under test: the native scheduler rarely
		// produces the schedule the executor found, so the vector is replayed
		// many times under the race detector; a data race between those
		// goroutines is the native witness that the result depends on the
		// schedule, and confirms the candidate obligation
		return v.Expect
	}
	if strings.Contains(v.Entry, "Concurrent") || strings.Contains(v.Entry, "Interleaved") {
		if strings.HasSuffix(v.Expect, "race-free") {
			return v.Expect
		}
		if strings.Contains(v.Entry, "Interleaved") {
			return prop + ".interleaved.race-free"
		}
		return prop + ".concurrent.race-free"
	}
	return ""
}
