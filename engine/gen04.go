package main

// L2 generator for C04: the reference-closure walker.  From go/types of
// /repo/ir/constant and /repo/ir/metadata: for every constant kind, the
// sub-terms to descend into; for every metadata node kind, the fields that can
// hold other nodes or values.  The hand-written part (harness/asm/
// zz_vf_c04_walk.go) checks that every reference reached is the object its
// module or function lists as the definition.

import (
	"fmt"
	"go/types"
	"os"
	"path/filepath"
	"sort"
	"strings"
)

func genC04() error {
	pkgs, err := loadTypes("./ir/constant", "./ir/metadata")
	if err != nil {
		return err
	}
	var cp, mp *types.Package
	for _, p := range pkgs {
		switch p.Types.Path() {
		case repoMod + "/ir/constant":
			cp = p.Types
		case repoMod + "/ir/metadata":
			mp = p.Types
		}
	}
	if cp == nil || mp == nil {
		return fmt.Errorf("ir/constant or ir/metadata not loaded")
	}
	isNamedIn := func(t types.Type, path, name string) bool {
		n, ok := t.(*types.Named)
		return ok && n.Obj().Pkg() != nil && n.Obj().Pkg().Path() == repoMod+path && (name == "" || n.Obj().Name() == name)
	}
	isValueLike := func(t types.Type) bool {
		return isNamedIn(t, "/ir/value", "Value") || isNamedIn(t, "/ir/value", "Named") || isNamedIn(t, "/ir/constant", "Constant") || isNamedIn(t, "/ir/constant", "Expression")
	}
	isTypeLike := func(t types.Type) bool {
		if isNamedIn(t, "/ir/types", "Type") {
			return true
		}
		if pt, ok := t.(*types.Pointer); ok {
			return isNamedIn(pt.Elem(), "/ir/types", "")
		}
		return false
	}
	var cb, mb, mf, mn, mv, mbn strings.Builder
	mdTables := map[string][]string{}
	var cNot, mNot []string
	// ---- constants
	constIface := cp.Scope().Lookup("Constant").Type().Underlying().(*types.Interface)
	names := cp.Scope().Names()
	sort.Strings(names)
	nc := 0
	for _, name := range names {
		tn, ok := cp.Scope().Lookup(name).(*types.TypeName)
		if !ok {
			continue
		}
		st, ok := tn.Type().Underlying().(*types.Struct)
		if !ok || !types.Implements(types.NewPointer(tn.Type()), constIface) {
			continue
		}
		if name == "BlockAddress" {
			continue // hand-written: function and block identity
		}
		nc++
		fmt.Fprintf(&cb, "\tcase *constant.%s:\n", name)
		for i := 0; i < st.NumFields(); i++ {
			f := st.Field(i)
			if !f.Exported() {
				continue
			}
			ft := f.Type()
			switch {
			case isValueLike(ft):
				fmt.Fprintf(&cb, "\t\tw.value(x.%s)\n", f.Name())
			case isTypeLike(ft):
				if _, isPtr := ft.(*types.Pointer); isPtr {
					fmt.Fprintf(&cb, "\t\tif x.%s != nil {\n\t\t\tw.typ(x.%s)\n\t\t}\n", f.Name(), f.Name())
				} else {
					fmt.Fprintf(&cb, "\t\tw.typ(x.%s)\n", f.Name())
				}
			default:
				if sl, ok := ft.(*types.Slice); ok {
					el := sl.Elem()
					if isValueLike(el) {
						fmt.Fprintf(&cb, "\t\tfor _, e := range x.%s {\n\t\t\tw.value(e)\n\t\t}\n", f.Name())
						continue
					}
					if pt, ok := el.(*types.Pointer); ok && isNamedIn(pt.Elem(), "/ir/constant", "Index") {
						fmt.Fprintf(&cb, "\t\tfor _, e := range x.%s {\n\t\t\tw.value(e.Constant)\n\t\t}\n", f.Name())
						continue
					}
					if _, basic := el.Underlying().(*types.Basic); !basic {
						cNot = append(cNot, name+"."+f.Name())
					}
					continue
				}
				if _, basic := ft.Underlying().(*types.Basic); basic {
					continue
				}
				if pt, ok := ft.(*types.Pointer); ok {
					if n, ok := pt.Elem().(*types.Named); ok && n.Obj().Pkg() != nil && n.Obj().Pkg().Path() == "math/big" {
						continue
					}
				}
				cNot = append(cNot, name+"."+f.Name())
			}
		}
		cb.WriteString("\t\treturn true\n")
	}
	// ---- metadata nodes
	isMDLike := func(t types.Type) bool {
		for _, n := range []string{"Field", "Node", "MDNode", "Metadata", "FieldOrInt", "Definition", "SpecializedNode", "DIExpressionField"} {
			if isNamedIn(t, "/ir/metadata", n) {
				return true
			}
		}
		if pt, ok := t.(*types.Pointer); ok {
			if n, ok := pt.Elem().(*types.Named); ok && n.Obj().Pkg() == mp {
				_, isStruct := n.Underlying().(*types.Struct)
				return isStruct
			}
		}
		return false
	}
	names = mp.Scope().Names()
	sort.Strings(names)
	nm := 0
	for _, name := range names {
		tn, ok := mp.Scope().Lookup(name).(*types.TypeName)
		if !ok {
			continue
		}
		st, ok := tn.Type().Underlying().(*types.Struct)
		if !ok {
			continue
		}
		hasID := false
		for i := 0; i < st.NumFields(); i++ {
			if st.Field(i).Embedded() && st.Field(i).Name() == "MetadataID" {
				hasID = true
			}
		}
		if name == "Value" || name == "Attachment" || name == "NamedDef" || name == "NullLit" || name == "String" {
			continue // hand-written
		}
		nm++
		fmt.Fprintf(&mb, "\tcase *metadata.%s:\n\t\tif x == nil {\n\t\t\treturn true\n\t\t}\n", name)
		fmt.Fprintf(&mf, "\tcase *metadata.%s:\n\t\tif x == nil {\n\t\t\treturn nil\n\t\t}\n", name)
		fmt.Fprintf(&mn, "\tcase *metadata.%s:\n\t\t_ = x\n", name)
		fmt.Fprintf(&mbn, "\tcase *metadata.%s:\n\t\treturn []string{", name)
		for i := 0; i < st.NumFields(); i++ {
			f := st.Field(i)
			if b, ok := f.Type().Underlying().(*types.Basic); ok && b.Kind() == types.Bool && f.Exported() && f.Name() != "Distinct" {
				fmt.Fprintf(&mbn, "%q, ", strings.ToLower(f.Name()[:1])+f.Name()[1:])
			}
		}
		mbn.WriteString("}\n")
		fmt.Fprintf(&mv, "\tcase *metadata.%s:\n\t\t_ = x\n", name)
		vstep := func(n string, body string) {
			fmt.Fprintf(&mn, "\t\tn += %s\n", n)
			fmt.Fprintf(&mv, "\t\tif k < %s {\n\t\t\t%s\n\t\t\treturn\n\t\t}\n\t\tk -= %s\n", n, body, n)
		}
		if hasID {
			fmt.Fprintf(&mb, "\t\tif !w.enterMD(x, int64(x.MetadataID)) {\n\t\t\treturn true\n\t\t}\n")
		}
		for i := 0; i < st.NumFields(); i++ {
			f := st.Field(i)
			if !f.Exported() || f.Embedded() {
				continue
			}
			ft := f.Type()
			switch {
			case isMDLike(ft):
				if _, isPtr := ft.(*types.Pointer); isPtr {
					fmt.Fprintf(&mb, "\t\tif x.%s != nil {\n\t\t\tw.md(x.%s)\n\t\t}\n", f.Name(), f.Name())
					fmt.Fprintf(&mf, "\t\tif x.%s != nil {\n\t\t\tr = append(r, x.%s)\n\t\t}\n", f.Name(), f.Name())
				} else {
					fmt.Fprintf(&mb, "\t\tw.md(x.%s)\n", f.Name())
					fmt.Fprintf(&mf, "\t\tif x.%s != nil {\n\t\t\tr = append(r, x.%s)\n\t\t}\n", f.Name(), f.Name())
				}
			case isValueLike(ft):
				fmt.Fprintf(&mb, "\t\tw.value(x.%s)\n", f.Name())
			case isTypeLike(ft):
				fmt.Fprintf(&mb, "\t\tw.typ(x.%s)\n", f.Name())
			default:
				if sl, ok := ft.(*types.Slice); ok {
					if isMDLike(sl.Elem()) {
						fmt.Fprintf(&mb, "\t\tfor _, e := range x.%s {\n\t\t\tw.md(e)\n\t\t}\n", f.Name())
						fmt.Fprintf(&mf, "\t\tfor _, e := range x.%s {\n\t\t\tr = append(r, e)\n\t\t}\n", f.Name())
						continue
					}
					if isValueLike(sl.Elem()) {
						fmt.Fprintf(&mb, "\t\tfor _, e := range x.%s {\n\t\t\tw.value(e)\n\t\t}\n", f.Name())
						continue
					}
					if _, basic := sl.Elem().Underlying().(*types.Basic); !basic {
						mNot = append(mNot, name+"."+f.Name())
					}
					continue
				}
				if b, basic := ft.Underlying().(*types.Basic); !basic {
					mNot = append(mNot, name+"."+f.Name())
				} else if f.Name() != "Distinct" {
					if en, ok := ft.(*types.Named); ok && en.Obj().Pkg() != nil && en.Obj().Pkg().Path() == repoMod+"/ir/enum" {
						tb := en.Obj().Name()
						var ms []string
						for _, m := range enumMembers(en) {
							if !strings.HasSuffix(m, "Zero") && !strings.HasSuffix(m, "None") {
								ms = append(ms, m)
							}
						}
						if len(ms) > 0 {
							mdTables[tb] = ms
							vstep(fmt.Sprintf("hGenCap(len(hMDM_%s))", tb), fmt.Sprintf("x.%s = hMDM_%s[hGenPick(k, len(hMDM_%s))]", f.Name(), tb, tb))
						}
					} else {
						switch {
						case b.Kind() == types.Bool:
							// both values: the parser's default for an absent field need not be false
							vstep("2", "x."+f.Name()+" = k == 0")
						case b.Kind() == types.String:
							vstep("1", "x."+f.Name()+" = \"v\"")
						case b.Info()&types.IsInteger != 0:
							vstep("1", "x."+f.Name()+" = 7")
						}
					}
				}
			}
		}
		mb.WriteString("\t\treturn true\n")
		mv.WriteString("\t\treturn\n")
		mf.WriteString("\t\treturn r\n")
	}
	var sb strings.Builder
	sb.WriteString("//go:build verif\n\n// Code generated by vcheck gen (L2) from go/types of /repo; DO NOT EDIT.\n\npackage asm\n\nimport (\n\t\"github.com/llir/llvm/ir/constant\"\n\t\"github.com/llir/llvm/ir/enum\"\n\t\"github.com/llir/llvm/ir/metadata\"\n)\n\n")
	sb.WriteString("// hWalkConst descends into the sub-terms of a constant; false if a is not one\n// of the constant kinds known to the generator.\nfunc hWalkConst(w *hWalk, a interface{}) bool {\n\tswitch x := a.(type) {\n")
	sb.WriteString(cb.String())
	sb.WriteString("\t}\n\treturn false\n}\n\n")
	sb.WriteString("// hWalkMD descends into the fields of a metadata node; false if a is not one\n// of the node kinds known to the generator.\nfunc hWalkMD(w *hWalk, a interface{}) bool {\n\tswitch x := a.(type) {\n")
	sb.WriteString(mb.String())
	sb.WriteString("\t}\n\treturn false\n}\n\n")
	sb.WriteString("// hMDFields lists the values of the fields of a metadata node that can hold\n// other metadata (direct children, nil fields left out).\nfunc hMDFields(a interface{}) []interface{} {\n\tvar r []interface{}\n\tswitch x := a.(type) {\n")
	sb.WriteString(mf.String())
	sb.WriteString("\t}\n\treturn r\n}\n\n")
	var tbs []string
	for tb := range mdTables {
		tbs = append(tbs, tb)
	}
	sort.Strings(tbs)
	for _, tb := range tbs {
		fmt.Fprintf(&sb, "var hMDM_%s = []enum.%s{", tb, tb)
		for i, m := range mdTables[tb] {
			if i > 0 {
				sb.WriteString(", ")
			}
			sb.WriteString("enum." + m)
		}
		sb.WriteString("}\n")
	}
	sb.WriteString("\n// hMDBoolFields lists the textual names (Go name with a lower-case first\n// letter) of the bool fields of a metadata node.\nfunc hMDBoolFields(a interface{}) []string {\n\tswitch a.(type) {\n")
	sb.WriteString(mbn.String())
	sb.WriteString("\t}\n\treturn nil\n}\n")
	sb.WriteString("\n// hMDNumVary returns the number of single-field variations (bool set, string\n// set, integer set, enum member chosen) of a metadata node.\nfunc hMDNumVary(a interface{}) int {\n\tn := 0\n\tswitch x := a.(type) {\n")
	sb.WriteString(mn.String())
	sb.WriteString("\t}\n\treturn n\n}\n\n// hMDVary applies variation k (0 <= k < hMDNumVary(a)).\nfunc hMDVary(a interface{}, k int) {\n\tswitch x := a.(type) {\n")
	sb.WriteString(mv.String())
	sb.WriteString("\t}\n}\n\n")
	sort.Strings(cNot)
	sort.Strings(mNot)
	fmt.Fprintf(&sb, "// %d constant kinds, %d metadata node kinds.\n// constant fields not descended into: %s\n// metadata fields not descended into: %s\n", nc, nm, strings.Join(cNot, ", "), strings.Join(mNot, ", "))
	out := filepath.Join(verifDir, "harness", "asm", "zz_vf_c04_gen.go")
	if old, err := os.ReadFile(out); err == nil && string(old) == sb.String() {
		return nil
	}
	fmt.Fprintf(os.Stderr, "gen: reference-closure walker for %d constant kinds and %d metadata node kinds written to %s\n", nc, nm, out)
	return os.WriteFile(out, []byte(sb.String()), 0o644)
}
