package main

func registerConcolic(e *Engine) {}
