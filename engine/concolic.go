package main

// L3: token-symbolic parse.  ast.Parse is the only function of the parse
// pipeline that is not executed symbolically: a representative content is
// obtained from the solver, parsed natively with the real llir/ll parser, the
// tree is imported into the symbolic heap and its content is bound to the
// symbolic string, so that every Text() read by the translator is symbolic.
//
// Stated assumption: within the lexical class the harness constrains the
// symbolic bytes to, the shape of the parse tree (node types and offsets) does
// not depend on the symbolic bytes.  It is checked on up to three further
// models per call; a disagreement ends the path as a stated cut.

import (
	"fmt"
	"go/types"
	"os"

	"github.com/llir/ll/ast"
	"github.com/llir/ll/selector"
	"golang.org/x/tools/go/ssa"
)

func treeShape(n *ast.Node, out *[]int) {
	*out = append(*out, int(n.Type()), n.Offset(), n.Endoffset())
	kids := n.Children(selector.Any)
	*out = append(*out, len(kids))
	for _, k := range kids {
		treeShape(k, out)
	}
}

func sameShape(a, b []int) bool {
	if len(a) != len(b) {
		return false
	}
	for i := range a {
		if a[i] != b[i] {
			return false
		}
	}
	return true
}

func fieldIdx(s *types.Struct, name string) int {
	for i := 0; i < s.NumFields(); i++ {
		if s.Field(i).Name() == name {
			return i
		}
	}
	panic("no field " + name)
}

func registerConcolic(e *Engine) {
	e.intercept["github.com/llir/ll/ast.Parse"] = func(e *Engine, st *State, fr *Frame, in ssa.CallInstruction, a []Val) Val {
		content := a[1].(StrVal)
		// the symbolic content bytes themselves are what the solver is asked for
		// (they may be terms over wide bit-vectors that cannot be evaluated here)
		var syms []*Term
		seen := map[*Term]bool{}
		for _, b := range content.b {
			if !b.IsConst() && !seen[b] {
				seen[b] = true
				syms = append(syms, b)
			}
		}
		concretise := func(vals map[*Term]uint64) string {
			buf := make([]byte, len(content.b))
			for i, b := range content.b {
				if b.IsConst() {
					buf[i] = byte(b.c)
				} else {
					buf[i] = byte(vals[b])
				}
			}
			return string(buf)
		}
		var rep string
		var shapes [][]int
		var reps []string
		nModels := 1
		if len(syms) > 0 {
			nModels = 4
		}
		var block *Term
		var firstTree *ast.Tree
		var firstErr error
		for k := 0; k < nModels; k++ {
			vals := map[*Term]uint64{}
			if len(syms) > 0 {
				r := e.sol.Check(st.pc, block)
				if r != "sat" {
					e.sol.Done()
					if k == 0 {
						if r == "unsat" {
							abort("infeasible", "")
						}
						abort("unsupported", "concolic parse: no model (%s)", r)
					}
					break
				}
				vals, _ = e.sol.Values(syms)
				e.sol.Done()
				if vals == nil {
					abort("unsupported", "concolic parse: model extraction failed")
				}
			}
			txt := concretise(vals)
			tree, err := ast.Parse("t.ll", txt)
			var sh []int
			if err == nil {
				treeShape(tree.Root(), &sh)
			} else {
				sh = []int{-1}
			}
			if k == 0 {
				rep, firstTree, firstErr = txt, tree, err
			}
			shapes = append(shapes, sh)
			reps = append(reps, txt)
			// block this assignment of the symbolic bytes
			diff := False
			for _, v := range syms {
				diff = Or(diff, Not(Eq(v, ConstBV(v.s.W, vals[v]))))
			}
			if block == nil {
				block = diff
			} else {
				block = And(block, diff)
			}
		}
		for k := 1; k < len(shapes); k++ {
			if !sameShape(shapes[0], shapes[k]) {
				if os.Getenv("VF_DEBUG") != "" {
					fmt.Fprintf(os.Stderr, "concolic: shape differs between %q and %q\n", reps[0], reps[k])
				}
				abort("cut", "concolic parse: parse-tree shape depends on the symbolic bytes (lexical class too wide): %q vs %q", reps[0], reps[k])
			}
		}
		e.rep.note("concolic-parse", fmt.Sprintf("representative parsed natively, %d model(s) agree on the tree shape", len(shapes)))
		tup := in.Common().Signature().Results()
		treePtrT := tup.At(0).Type().(*types.Pointer)
		if firstErr != nil {
			return TupleVal{[]Val{PtrVal{}, opaqueErrNamed(st, "parse error: "+firstErr.Error())}}
		}
		treeT := treePtrT.Elem()
		ts := treeT.Underlying().(*types.Struct)
		tz := e.zero(treeT).(StructVal)
		tz.f[fieldIdx(ts, "path")] = a[0]
		tz.f[fieldIdx(ts, "content")] = content
		// line offsets (used only for positions in error messages) are taken from
		// the representative
		{
			lf := fieldIdx(ts, "lines")
			offs := []int{0}
			for i := 0; i < len(rep); i++ {
				if rep[i] == '\n' {
					offs = append(offs, i+1)
				}
			}
			vals := make([]Val, len(offs))
			for i, o := range offs {
				vals[i] = ConstBV(64, uint64(o))
			}
			tz.f[lf] = SliceVal{st.alloc(ArrayVal{vals}), 0, len(vals), len(vals)}
		}
		treeID := st.alloc(tz)
		nodeT := ts.Field(fieldIdx(ts, "root")).Type().(*types.Pointer).Elem()
		ns := nodeT.Underlying().(*types.Struct)
		fT, fOff, fEnd, fPar, fNext, fFirst, fTree := fieldIdx(ns, "t"), fieldIdx(ns, "offset"), fieldIdx(ns, "endoffset"), fieldIdx(ns, "parent"), fieldIdx(ns, "next"), fieldIdx(ns, "firstChild"), fieldIdx(ns, "tree")
		var imp func(n *ast.Node, parent PtrVal) PtrVal
		imp = func(n *ast.Node, parent PtrVal) PtrVal {
			z := e.zero(nodeT).(StructVal)
			z.f[fT] = ConstBV(64, uint64(n.Type()))
			z.f[fOff] = ConstBV(64, uint64(n.Offset()))
			z.f[fEnd] = ConstBV(64, uint64(n.Endoffset()))
			z.f[fPar] = parent
			z.f[fTree] = PtrVal{obj: treeID}
			id := st.alloc(z)
			self := PtrVal{obj: id}
			kids := n.Children(selector.Any)
			var prev PtrVal
			for i := len(kids) - 1; i >= 0; i-- {
				k := imp(kids[i], self)
				kz := st.hget(k.obj).(StructVal)
				kz.f[fNext] = prev // freshly allocated, not shared yet
				prev = k
			}
			zz := st.hget(id).(StructVal)
			zz.f[fFirst] = prev
			return self
		}
		root := imp(firstTree.Root(), PtrVal{})
		tz2 := st.hget(treeID).(StructVal)
		tz2.f[fieldIdx(ts, "root")] = root
		return TupleVal{[]Val{PtrVal{obj: treeID}, IfaceVal{}}}
	}
}
