package main

// A worker loads /repo (current working tree) with the harness overlay,
// builds SSA, interprets package initialisers and symbolically executes one
// harness entry (optionally one shard of it).

import (
	"strconv"
	"encoding/json"
	"fmt"
	"go/types"
	"os"
	"os/exec"
	"path/filepath"
	"sort"
	"strings"
	"time"

	"golang.org/x/tools/go/packages"
	"golang.org/x/tools/go/ssa"
	"golang.org/x/tools/go/ssa/ssautil"
)

var repoDir = "/repo" // VERIF_REPO overrides (scratch worktrees for seeded changes, vp run --with-repo)
const repoMod = "github.com/llir/llvm"

var verifDir = "/verif"

type WorkerResult struct {
	Entry      string            `json:"entry"`
	Pkg        string            `json:"pkg"`
	Shard      string            `json:"shard"`
	Tier       int               `json:"tier"`
	Obls       []*Obl            `json:"obligations"`
	Ends       map[string]int    `json:"ends"`
	Notes      map[string]int    `json:"notes"`
	Vectors    []*Vector         `json:"vectors"`
	Bounds     map[string]string `json:"bounds"`
	Paths      int               `json:"paths"`
	Nontrivial int               `json:"nontrivial_paths"`
	Forks      int               `json:"forks"`
	Decisions  int               `json:"decisions"`
	Steps      int64             `json:"steps"`
	Queries    map[string]int    `json:"queries"`
	SolverS    float64           `json:"solver_s"`
	MaxQueryS  float64           `json:"max_query_s"`
	LoadS      float64           `json:"load_s"`
	InitS      float64           `json:"init_s"`
	ExploreS   float64           `json:"explore_s"`
	Funcs      []string          `json:"functions"`
	Models     map[string]int    `json:"models"`
	Reached    []string          `json:"reach_ids"`
	Witnessed  []string          `json:"witnessed"`
	Cross      CrossResult       `json:"cross"`
	Unwind     int               `json:"unwind"`
	Fatal      string            `json:"fatal,omitempty"`
	Terms      int               `json:"terms"`
}

type CrossResult struct {
	Checked       int      `json:"checked"`
	Disagreements int      `json:"disagreements"`
	Solvers       []string `json:"solvers"`
	Detail        []string `json:"detail,omitempty"`
}

type workerOpts struct {
	pkgRel   string // package dir relative to /repo, e.g. internal/natsort
	entry    string
	tier     int
	shardI   int
	shardN   int
	unwind   int
	steps    int
	pure     []string
	timeout  int
	out      string
	trace    bool
	solver   string
	maxCand  int
	noCross  bool
	initLL   bool
	mapOrder int
}

// harness files of a package dir, as overlay entries
func harnessOverlay(sym bool) (map[string][]byte, []string, error) {
	ov := map[string][]byte{}
	var pats []string
	root := filepath.Join(verifDir, "harness")
	err := filepath.Walk(root, func(p string, info os.FileInfo, err error) error {
		if err != nil || info.IsDir() || !strings.HasSuffix(p, ".go") {
			return err
		}
		rel, _ := filepath.Rel(root, p)
		b, err := os.ReadFile(p)
		if err != nil {
			return err
		}
		dir := filepath.Dir(rel)
		if dir == "vfmodel" {
			ov[filepath.Join(repoDir, "internal/vfmodel", filepath.Base(p))] = b
			return nil
		}
		ov[filepath.Join(repoDir, rel)] = b
		return nil
	})
	if err != nil {
		return nil, nil, err
	}
	// runtime files per harness dir
	dirs := map[string]string{}
	for p, b := range ov {
		d := filepath.Dir(p)
		if strings.HasSuffix(d, "internal/vfmodel") {
			continue
		}
		if _, ok := dirs[d]; !ok {
			dirs[d] = pkgClause(b)
		}
	}
	tmplName := "rt_sym.go.tmpl"
	if !sym {
		tmplName = "rt_native.go.tmpl"
	}
	tmpl, err := os.ReadFile(filepath.Join(verifDir, "vfrt", tmplName))
	if err != nil {
		return nil, nil, err
	}
	for d, name := range dirs {
		ov[filepath.Join(d, "zz_vf_rt.go")] = []byte(strings.ReplaceAll(string(tmpl), "PKGNAME", name))
		rel, _ := filepath.Rel(repoDir, d)
		pats = append(pats, "./"+rel)
	}
	sort.Strings(pats)
	return ov, pats, nil
}

func pkgClause(src []byte) string {
	for _, l := range strings.Split(string(src), "\n") {
		l = strings.TrimSpace(l)
		if strings.HasPrefix(l, "package ") {
			return strings.TrimSpace(strings.TrimPrefix(l, "package "))
		}
	}
	return ""
}

type loaded struct {
	prog  *ssa.Program
	pkgs  []*packages.Package
	spkgs []*ssa.Package
}

func loadProgram(pkgRel string) (*loaded, error) {
	ov, _, err := harnessOverlay(true)
	if err != nil {
		return nil, err
	}
	// only the overlay files of the requested package and the model package are needed
	keep := map[string][]byte{}
	for p, b := range ov {
		d := filepath.Dir(p)
		if d == filepath.Join(repoDir, pkgRel) || strings.HasSuffix(d, "internal/vfmodel") {
			keep[p] = b
		}
	}
	cfg := &packages.Config{Mode: packages.LoadAllSyntax, Dir: repoDir, Overlay: keep, BuildFlags: []string{"-tags=verif,vfsym"},
		Env: append(os.Environ(), "GOFLAGS=-mod=mod", "GOPROXY=off", "GOSUMDB=off", "GOTOOLCHAIN=local")}
	pkgs, err := packages.Load(cfg, "./"+pkgRel, "./internal/vfmodel")
	if err != nil {
		return nil, err
	}
	nerr := 0
	packages.Visit(pkgs, nil, func(p *packages.Package) {
		for _, e := range p.Errors {
			fmt.Fprintln(os.Stderr, "load error:", e)
			nerr++
		}
	})
	if nerr > 0 {
		return nil, fmt.Errorf("%d load errors", nerr)
	}
	prog, spkgs := ssautil.AllPackages(pkgs, ssa.InstantiateGenerics)
	prog.Build()
	return &loaded{prog: prog, pkgs: pkgs, spkgs: spkgs}, nil
}

func newEngine(ld *loaded, o workerOpts) *Engine {
	e := &Engine{prog: ld.prog, intercept: map[string]interceptFn{}, redirect: map[string]*ssa.Function{}, pure: map[string]bool{}, initPkgs: map[string]bool{}, funcs: map[string]bool{}, models: map[string]int{}, maxUnwind: o.unwind, maxSteps: o.steps, tier: o.tier, shardI: o.shardI, shardN: o.shardN, trace: o.trace}
	bin := o.solver
	if bin == "" {
		bin = "z3-new"
	}
	e.sol = NewSolver(bin, o.timeout)
	for _, p := range o.pure {
		e.pure[p] = true
	}
	registerModels(e)
	registerVfModel(e)
	registerConcolic(e)
	e.rep = newReport()
	if o.maxCand > 0 {
		e.rep.maxCand = o.maxCand
	}
	return e
}

// stdInit: standard-library packages whose (small) initialisers are interpreted,
// because their package-level tables are read by code under analysis.
var stdInit = map[string]bool{"unicode/utf8": true, "unicode/utf16": true, "math/bits": true}

// registerVfModel redirects library functions to their Go-source models.
func registerVfModel(e *Engine) {
	mp := e.prog.ImportedPackage(repoMod + "/internal/vfmodel")
	if mp == nil {
		return
	}
	red := map[string]string{
		"fmt.Sprintf": "Sprintf", "fmt.Fprintf": "Fprintf", "fmt.Fprint": "Fprint", "fmt.Fprintln": "Fprintln", "fmt.Sprint": "Sprint", "fmt.Sprintln": "Sprintln",
		"strings.Join": "Join", "strings.Repeat": "Repeat", "strings.ToUpper": "ToUpper", "strings.ToLower": "ToLower", "strings.Index": "Index",
		"strings.Contains": "Contains", "strings.LastIndex": "LastIndex", "strings.Split": "Split", "strings.TrimSpace": "TrimSpace",
		"strings.Replace": "Replace", "strings.ReplaceAll": "ReplaceAll", "strings.TrimLeft": "TrimLeft", "strings.TrimRight": "TrimRight", "strings.Trim": "Trim",
		"strconv.Itoa": "Itoa", "strconv.FormatInt": "FormatInt", "strconv.FormatUint": "FormatUint", "strconv.Quote": "Quote",
		"(*sync.Pool).Get": "PoolGet", "(*sync.Pool).Put": "PoolPut",
		"(*sync.Map).Load": "MapLoad", "(*sync.Map).Store": "MapStore", "(*sync.Map).LoadOrStore": "MapLoadOrStore", "(*sync.Map).LoadAndDelete": "MapLoadAndDelete",
		"(*sync.Map).Delete": "MapDelete", "(*sync.Map).Range": "MapRange", "(*sync.Map).Swap": "MapSwap", "(*sync.Map).CompareAndSwap": "MapCompareAndSwap", "(*sync.Map).Clear": "MapClear",
		"sort.SliceIsSorted": "SliceIsSorted", "sort.IsSorted": "IsSorted", "sort.StringsAreSorted": "StringsAreSorted", "sort.Ints": "Ints", "sort.IntsAreSorted": "IntsAreSorted",
		"sort.Sort": "Sort", "sort.Slice": "Slice", "sort.Strings": "Strings", "sort.Stable": "Sort", "sort.SliceStable": "Slice",
	}
	for real, model := range red {
		if f := mp.Func(model); f != nil {
			e.redirect[real] = f
		}
	}
	// strconv.FormatInt / FormatUint / Itoa: constants natively; values the
	// path bounds below 10^7 by their Go-source model (digits computed);
	// anything wider like big.Int.Text (abstract digits tied to the value by
	// the parse(print(v)) = v axiom), because 64-bit division by constants
	// stalls the solver.
	for _, name := range []string{"strconv.FormatInt", "strconv.FormatUint", "strconv.Itoa"} {
		name := name
		rf := e.redirect[name]
		if rf == nil {
			continue
		}
		delete(e.redirect, name)
		e.intercept[name] = func(e *Engine, st *State, fr *Frame, in ssa.CallInstruction, a []Val) Val {
			x := a[0].(*Term)
			base := 10
			if name != "strconv.Itoa" {
				base = e.needInt(st, a[1], "FormatInt base")
			}
			signed := name != "strconv.FormatUint"
			if x.IsConst() {
				if signed {
					return constStr(strconv.FormatInt(int64(x.c), base))
				}
				return constStr(strconv.FormatUint(x.c, base))
			}
			lim := ConstBV(64, 10000000)
			small := BvCmp("bvult", x, lim)
			if signed {
				small = And(BvCmp("bvslt", x, lim), BvCmp("bvslt", ConstBV(64, ^uint64(10000000)+1), x))
			}
			if in != nil && in.Value() != nil && e.decide(st, small) {
				e.models[name+" (Go-source model)"]++
				e.pushFrame(st, rf, a, nil, in.Value())
				return pushedMarker
			}
			var t *Term
			if signed {
				t = SExt(x, bigW)
			} else {
				t = ZExt(x, bigW)
			}
			return e.bigText(st, BigIntVal{t: t, bits: 66}, base)
		}
	}
	x := extraIntrinsics
	x["vfIntOf"] = func(e *Engine, st *State, fr *Frame, in ssa.CallInstruction, a []Val) Val {
		iv := a[0].(IfaceVal)
		no := TupleVal{[]Val{ConstBV(64, 0), False, False}}
		if iv.t == nil {
			return no
		}
		w, signed, ok := width(iv.t)
		if !ok {
			return no
		}
		t := iv.v.(*Term)
		_ = w
		if signed {
			return TupleVal{[]Val{SExt(t, 64), True, True}}
		}
		return TupleVal{[]Val{ZExt(t, 64), False, True}}
	}
	x["vfStrOf"] = func(e *Engine, st *State, fr *Frame, in ssa.CallInstruction, a []Val) Val {
		iv := a[0].(IfaceVal)
		if iv.t != nil {
			if s, ok := iv.v.(StrVal); ok {
				return TupleVal{[]Val{s, True}}
			}
		}
		return TupleVal{[]Val{StrVal{}, False}}
	}
	x["vfLenOf"] = func(e *Engine, st *State, fr *Frame, in ssa.CallInstruction, a []Val) Val {
		iv := a[0].(IfaceVal)
		sl := iv.v.(SliceVal)
		return ConstBV(64, uint64(sl.len))
	}
	x["vfSwap"] = func(e *Engine, st *State, fr *Frame, in ssa.CallInstruction, a []Val) Val {
		sl := a[0].(IfaceVal).v.(SliceVal)
		i, j := e.needInt(st, a[1], "swap i"), e.needInt(st, a[2], "swap j")
		arr := st.hget(sl.obj).(ArrayVal)
		ne := append([]Val(nil), arr.e...)
		ne[sl.off+i], ne[sl.off+j] = ne[sl.off+j], ne[sl.off+i]
		st.hset(sl.obj, ArrayVal{ne})
		return nil
	}
	x["vfPick"] = func(e *Engine, st *State, fr *Frame, in ssa.CallInstruction, a []Val) Val {
		n := a[0].(*Term)
		if !n.IsConst() {
			abort("unsupported", "vfPick with a symbolic bound")
		}
		if n.c <= 1 {
			return ConstBV(64, 0)
		}
		site := fmt.Sprintf("pick#%d", st.siteCtr)
		// the native run cannot be steered to the same pick: candidates on such
		// paths that do not reproduce are inconclusive, not engine faults
		st.approx = true
		c := e.choose(st, site, int(n.c))
		st.siteCtr++
		return ConstBV(64, uint64(c))
	}
	x["vfSortOblig"] = func(e *Engine, st *State, fr *Frame, in ssa.CallInstruction, a []Val) Val {
		e.doAssert(st, e.propOfEntry()+".sort-comparator."+argStr(a, 0), a[1].(*Term))
		return nil
	}
}

func runWorker(o workerOpts) *WorkerResult {
	res := &WorkerResult{Entry: o.entry, Shard: fmt.Sprintf("%d/%d", o.shardI, o.shardN), Tier: o.tier, Unwind: o.unwind}
	t0 := time.Now()
	ld, err := loadProgram(o.pkgRel)
	if err != nil {
		res.Fatal = "load: " + err.Error()
		return res
	}
	res.LoadS = time.Since(t0).Seconds()
	pkgPath := repoMod + "/" + o.pkgRel
	res.Pkg = pkgPath
	sp := ld.prog.ImportedPackage(pkgPath)
	if sp == nil {
		res.Fatal = "package not found: " + pkgPath
		return res
	}
	fn := sp.Func(o.entry)
	if fn == nil {
		res.Fatal = "entry not found: " + o.entry
		return res
	}
	e := newEngine(ld, o)
	defer e.sol.Close()
	e.rep.entry = o.entry
	e.rep.pkg = pkgPath
	// package initialisation
	for _, p := range ld.prog.AllPackages() {
		path := p.Pkg.Path()
		if strings.HasPrefix(path, repoMod) || strings.HasPrefix(path, "github.com/llir/ll") || strings.HasPrefix(path, "github.com/mewmew/float") || stdInit[path] {
			e.initPkgs[path] = true
		}
	}
	// globals that the initialiser of a package whose init is *not* interpreted
	// would have set: reading one is unsupported (never silently zero)
	e.initSet = map[string]bool{}
	for _, p := range ld.prog.AllPackages() {
		if e.initPkgs[p.Pkg.Path()] {
			continue
		}
		ini := p.Func("init")
		if ini == nil {
			continue
		}
		for _, b := range ini.Blocks {
			for _, in := range b.Instrs {
				st, ok := in.(*ssa.Store)
				if !ok {
					continue
				}
				a := st.Addr
				for {
					switch x := a.(type) {
					case *ssa.IndexAddr:
						a = x.X
						continue
					case *ssa.FieldAddr:
						a = x.X
						continue
					}
					break
				}
				if g, ok := a.(*ssa.Global); ok {
					e.initSet[g.String()] = true
				}
			}
		}
	}
	t1 := time.Now()
	st := e.newState()
	for _, ip := range []*ssa.Package{sp, ld.prog.ImportedPackage(repoMod + "/internal/vfmodel")} {
		if ip == nil {
			continue
		}
		e.pushFrame(st, ip.Func("init"), nil, nil, nil)
		var ends []PathEnd
		e.explore(st, func(en PathEnd) { ends = append(ends, en) })
		if len(ends) != 1 || ends[0].kind != "return" {
			msg := fmt.Sprintf("init of %s did not complete on exactly one path (%d ends)", ip.Pkg.Path(), len(ends))
			for _, en := range ends {
				msg += fmt.Sprintf(" [%s %s]", en.kind, en.msg)
			}
			res.Fatal = msg
			return res
		}
		st = ends[0].st
		st.steps = 0
	}
	res.InitS = time.Since(t1).Seconds()
	// freeze the post-init heap as the shared base layer
	st.heap.base = true
	st.heap = st.heap.child()
	st.globals.base = true
	st.globals = st.globals.child()
	e.baseEpoch = *st.nextObj
	e.funcs = map[string]bool{} // report only what the harness reaches
	e.models = map[string]int{}
	st.mapMode = o.mapOrder
	t2 := time.Now()
	e.pushFrame(st, fn, nil, nil, nil)
	e.explore(st, e.pathEnded)
	res.ExploreS = time.Since(t2).Seconds()

	if forkLog {
		type kv struct {
			k string
			v int
		}
		var l []kv
		for k, v := range e.forkSites {
			l = append(l, kv{k, v})
		}
		sort.Slice(l, func(i, j int) bool { return l[i].v > l[j].v })
		for i := 0; i < len(l) && i < 25; i++ {
			fmt.Fprintf(os.Stderr, "forksite %6d %s\n", l[i].v, l[i].k)
		}
	}
	r := e.rep
	res.Obls = sortedObls(r.obls)
	res.Ends = r.ends
	res.Notes = r.notes
	res.Vectors = r.vectors
	res.Bounds = r.bounds
	res.Paths = e.nPaths
	res.Nontrivial = r.nontrivial
	res.Forks = e.nForks
	res.Decisions = e.nDecide
	res.Steps = e.nSteps
	res.Queries = map[string]int{"total": e.sol.nq, "sat": e.sol.nsat, "unsat": e.sol.nunsat, "unknown": e.sol.nunk, "error": e.sol.nerr}
	res.SolverS = e.sol.dur.Seconds()
	res.MaxQueryS = e.sol.maxq.Seconds()
	for f := range e.funcs {
		res.Funcs = append(res.Funcs, f)
	}
	sort.Strings(res.Funcs)
	res.Models = e.models
	for id := range r.reachSeen {
		res.Reached = append(res.Reached, id)
	}
	for id := range r.witnessed {
		res.Witnessed = append(res.Witnessed, id)
	}
	sort.Strings(res.Reached)
	sort.Strings(res.Witnessed)
	res.Terms = len(termList)
	if !o.noCross {
		ct := 5000
		if o.tier > 0 {
			ct = 20000
		}
		res.Cross = crossCheck(r.crossQ, ct)
	}
	return res
}

// crossCheck re-decides recorded obligation queries with the other solvers.
func crossCheck(qs []crossQuery, timeoutMs int) CrossResult {
	cr := CrossResult{}
	if len(qs) == 0 {
		return cr
	}
	dir, err := os.MkdirTemp(filepath.Join(verifDir, ".work"), "cross")
	if err != nil {
		os.MkdirAll(filepath.Join(verifDir, ".work"), 0o755)
		dir, err = os.MkdirTemp(filepath.Join(verifDir, ".work"), "cross")
		if err != nil {
			return cr
		}
	}
	defer os.RemoveAll(dir)
	type solver struct {
		name string
		args []string
	}
	var solvers []solver
	if _, err := exec.LookPath("z3"); err == nil {
		solvers = append(solvers, solver{"z3", []string{fmt.Sprintf("-T:%d", timeoutMs/1000+1)}})
	}
	if _, err := exec.LookPath("cvc5"); err == nil {
		solvers = append(solvers, solver{"cvc5", []string{"--lang", "smt2", fmt.Sprintf("--tlimit=%d", timeoutMs)}})
	}
	for _, s := range solvers {
		cr.Solvers = append(cr.Solvers, s.name)
	}
	for i, q := range qs {
		f := filepath.Join(dir, fmt.Sprintf("q%d.smt2", i))
		os.WriteFile(f, []byte(q.script), 0o644)
		for _, s := range solvers {
			out, _ := exec.Command(s.name, append(s.args, f)...).CombinedOutput()
			v := "unknown"
			for _, l := range strings.Split(string(out), "\n") {
				l = strings.TrimSpace(l)
				if l == "sat" || l == "unsat" {
					v = l
				}
				if strings.Contains(l, "(error") {
					v = "error"
					break
				}
			}
			cr.Checked++
			if (v == "sat" || v == "unsat") && (q.verdict == "sat" || q.verdict == "unsat") && v != q.verdict {
				cr.Disagreements++
				cr.Detail = append(cr.Detail, fmt.Sprintf("%s: z3-new=%s %s=%s", q.id, q.verdict, s.name, v))
			}
		}
	}
	return cr
}

func writeJSON(path string, v interface{}) error {
	b, err := json.MarshalIndent(v, "", " ")
	if err != nil {
		return err
	}
	return os.WriteFile(path, b, 0o644)
}

var _ = types.Typ
