package main

// vcheck: orchestrator and CLI.
//
//   vcheck check <Cnn> <quick|thorough>   decide one property
//   vcheck worker ...                     run one harness entry (internal)
//   vcheck replay <vector.json>           replay a counterexample natively
//   vcheck list                           list harness entries

import (
	"context"
	"encoding/json"
	"flag"
	"fmt"
	"go/ast"
	"go/parser"
	"go/token"
	"os"
	"os/exec"
	"path/filepath"
	"runtime/pprof"
	"sort"
	"strconv"
	"strings"
	"sync"
	"time"
)

type EntrySpec struct {
	Prop    string
	PkgRel  string
	PkgName string
	Entry   string
	File    string
	Pure    []string
	Unwind  int
	Steps   int
	Shards  int
	Tier    string // "", "quick", "thorough": restricts the entry to a tier
	Timeout int
	MaxCand int
	MapOrd  int
}

func discover() ([]EntrySpec, error) {
	var out []EntrySpec
	root := filepath.Join(verifDir, "harness")
	fset := token.NewFileSet()
	err := filepath.Walk(root, func(p string, info os.FileInfo, err error) error {
		if err != nil || info.IsDir() || !strings.HasSuffix(p, ".go") {
			return err
		}
		rel, _ := filepath.Rel(root, p)
		if filepath.Dir(rel) == "vfmodel" {
			return nil
		}
		f, err := parser.ParseFile(fset, p, nil, parser.ParseComments)
		if err != nil {
			return err
		}
		for _, d := range f.Decls {
			fd, ok := d.(*ast.FuncDecl)
			if !ok || fd.Recv != nil || !strings.HasPrefix(fd.Name.Name, "VfC") {
				continue
			}
			name := fd.Name.Name
			i := strings.IndexByte(name, '_')
			if i < 0 {
				continue
			}
			es := EntrySpec{Prop: name[2:i], PkgRel: filepath.Dir(rel), PkgName: f.Name.Name, Entry: name, File: p, Unwind: 64, Steps: 20000000, Shards: 1, Timeout: 20000}
			if fd.Doc != nil {
				for _, c := range fd.Doc.List {
					t := strings.TrimSpace(strings.TrimPrefix(c.Text, "//"))
					if !strings.HasPrefix(t, "vf:") {
						continue
					}
					fs := strings.Fields(t[3:])
					if len(fs) < 2 {
						continue
					}
					switch fs[0] {
					case "pure":
						es.Pure = append(es.Pure, fs[1:]...)
					case "unwind":
						es.Unwind, _ = strconv.Atoi(fs[1])
					case "steps":
						es.Steps, _ = strconv.Atoi(fs[1])
					case "shards":
						es.Shards, _ = strconv.Atoi(fs[1])
					case "tier":
						es.Tier = fs[1]
					case "timeout":
						es.Timeout, _ = strconv.Atoi(fs[1])
					case "maxcand":
						es.MaxCand, _ = strconv.Atoi(fs[1])
					case "maporder":
						es.MapOrd, _ = strconv.Atoi(fs[1])
					}
				}
			}
			out = append(out, es)
		}
		return nil
	})
	sort.Slice(out, func(i, j int) bool { return out[i].Entry < out[j].Entry })
	return out, err
}

func main() {
	if v := os.Getenv("VERIF_DIR"); v != "" {
		verifDir = v
	}
	if v := os.Getenv("VERIF_REPO"); v != "" {
		repoDir = v
	}
	if len(os.Args) < 2 {
		fmt.Fprintln(os.Stderr, "usage: vcheck check|worker|replay|list ...")
		os.Exit(2)
	}
	os.Setenv("GOFLAGS", "-mod=mod")
	os.Setenv("GOPROXY", "off")
	os.Setenv("GOSUMDB", "off")
	os.Setenv("GOTOOLCHAIN", "local")
	switch os.Args[1] {
	case "worker":
		workerMain(os.Args[2:])
	case "check":
		if len(os.Args) < 4 {
			fmt.Fprintln(os.Stderr, "usage: vcheck check <Cnn> <quick|thorough>")
			os.Exit(2)
		}
		os.Exit(checkMain(os.Args[2], os.Args[3], os.Args[4:]))
	case "replay":
		os.Exit(replayMain(os.Args[2:]))
	case "gen":
		if err := genAll(); err != nil {
			fmt.Fprintln(os.Stderr, "gen:", err)
			os.Exit(2)
		}
	case "list":
		es, err := discover()
		if err != nil {
			fmt.Fprintln(os.Stderr, err)
			os.Exit(2)
		}
		for _, e := range es {
			fmt.Printf("%s %s %s shards=%d tier=%q\n", e.Prop, e.PkgRel, e.Entry, e.Shards, e.Tier)
		}
	default:
		fmt.Fprintln(os.Stderr, "unknown command", os.Args[1])
		os.Exit(2)
	}
}

func workerMain(args []string) {
	fs := flag.NewFlagSet("worker", flag.ExitOnError)
	var o workerOpts
	var pure, shard string
	fs.StringVar(&o.pkgRel, "pkg", "", "package dir relative to /repo")
	fs.StringVar(&o.entry, "entry", "", "harness entry function")
	fs.IntVar(&o.tier, "tier", 0, "0 quick, 1 thorough")
	fs.StringVar(&shard, "shard", "0/1", "i/n")
	fs.IntVar(&o.unwind, "unwind", 64, "unwinding bound")
	fs.IntVar(&o.steps, "steps", 20000000, "step limit per path")
	fs.StringVar(&pure, "pure", "", "comma-separated pure functions to summarise")
	fs.IntVar(&o.timeout, "timeout", 20000, "solver timeout per query, ms")
	fs.StringVar(&o.out, "out", "", "result file")
	fs.BoolVar(&o.trace, "trace", false, "trace instructions")
	fs.StringVar(&o.solver, "solver", "z3-new", "solver binary")
	fs.IntVar(&o.maxCand, "maxcand", 0, "max counterexample candidates per obligation")
	fs.BoolVar(&o.noCross, "nocross", false, "skip cross-checking")
	fs.IntVar(&o.mapOrder, "maporder", 0, "initial map iteration mode")
	var prof string
	fs.StringVar(&prof, "cpuprofile", "", "write cpu profile")
	fs.Parse(args)
	if prof != "" {
		f, _ := os.Create(prof)
		pprof.StartCPUProfile(f)
		defer pprof.StopCPUProfile()
	}
	fmt.Sscanf(shard, "%d/%d", &o.shardI, &o.shardN)
	if o.shardN == 0 {
		o.shardN = 1
	}
	for _, p := range strings.Split(pure, ",") {
		if p != "" {
			o.pure = append(o.pure, p)
		}
	}
	res := runWorker(o)
	if o.out != "" {
		writeJSON(o.out, res)
	} else {
		printWorker(res)
	}
	if res.Fatal != "" {
		fmt.Fprintln(os.Stderr, "FATAL:", res.Fatal)
		os.Exit(3)
	}
}

func printWorker(r *WorkerResult) {
	fmt.Printf("entry %s shard %s: load %.1fs init %.1fs explore %.1fs paths=%d forks=%d steps=%d queries=%v solver %.1fs (max %.2fs) terms=%d\n",
		r.Entry, r.Shard, r.LoadS, r.InitS, r.ExploreS, r.Paths, r.Forks, r.Steps, r.Queries, r.SolverS, r.MaxQueryS, r.Terms)
	for _, k := range sortedKeys(r.Ends) {
		fmt.Printf("  end %-70s %d\n", k, r.Ends[k])
	}
	for _, k := range sortedKeys(r.Notes) {
		fmt.Printf("  note %-70s %d\n", k, r.Notes[k])
	}
	for _, o := range r.Obls {
		fmt.Printf("  obligation %-40s discharged=%d failed=%d unknown=%d trivial=%d known=%d\n", o.ID, o.Discharged, o.Failed, o.Unknown, o.Trivial, o.KnownHits)
	}
	for _, v := range r.Vectors {
		b, _ := json.Marshal(v)
		fmt.Printf("  vector %s\n", b)
	}
	fmt.Printf("  reach=%v witnessed=%v cross=%+v\n", r.Reached, r.Witnessed, r.Cross)
	fmt.Printf("  models=%v\n", r.Models)
}

// ---------- known findings

type Finding struct {
	Property    string   `json:"property"`
	ID          string   `json:"id"`
	Status      string   `json:"status"` // known | fixed
	Commit      string   `json:"commit,omitempty"`
	Obligations []string `json:"obligations"`
	What        string   `json:"what"`
}

var findings []Finding
var findingsLoaded bool

func loadFindings() {
	if findingsLoaded {
		return
	}
	findingsLoaded = true
	b, err := os.ReadFile(filepath.Join(verifDir, "known_findings.json"))
	if err != nil {
		return
	}
	var f struct {
		Findings []Finding `json:"findings"`
	}
	if json.Unmarshal(b, &f) == nil {
		findings = f.Findings
	}
}

func knownFinding(id string) *Finding {
	loadFindings()
	for i := range findings {
		if findings[i].ID == id {
			return &findings[i]
		}
	}
	return nil
}

// ---------- check orchestration

type job struct {
	spec  EntrySpec
	shard int
	res   *WorkerResult
	log   string
}

func checkMain(prop, tierName string, extra []string) int {
	t0 := time.Now()
	tier := 0
	if tierName == "thorough" {
		tier = 1
	}
	if v := os.Getenv("VERIF_TIER"); v == "thorough" && tierName == "" {
		tier = 1
	}
	seed := 0
	if v := os.Getenv("VERIF_SEED"); v != "" {
		seed, _ = strconv.Atoi(v)
	}
	only := ""
	for _, a := range extra {
		if strings.HasPrefix(a, "-entry=") {
			only = strings.TrimPrefix(a, "-entry=")
		}
	}
	if err := genFor(prop); err != nil {
		fmt.Fprintln(os.Stderr, "gen:", err)
		return 2
	}
	specs, err := discover()
	if err != nil {
		fmt.Fprintln(os.Stderr, "discover:", err)
		return 2
	}
	work := filepath.Join(verifDir, ".work")
	os.MkdirAll(work, 0o755)
	tmp, err := os.MkdirTemp(work, "chk-"+prop+"-")
	if err != nil {
		fmt.Fprintln(os.Stderr, err)
		return 2
	}
	defer os.RemoveAll(tmp)
	var jobs []*job
	for _, s := range specs {
		if s.Prop != prop {
			continue
		}
		if only != "" && s.Entry != only {
			continue
		}
		if s.Tier == "thorough" && tier == 0 {
			continue
		}
		if s.Tier == "quick" && tier == 1 {
			continue
		}
		n := s.Shards
		if n < 1 {
			n = 1
		}
		for i := 0; i < n; i++ {
			jobs = append(jobs, &job{spec: s, shard: i})
		}
	}
	if len(jobs) == 0 {
		fmt.Fprintf(os.Stderr, "no harness entries for %s\n", prop)
		return 2
	}
	self, _ := os.Executable()
	budget := 40 * time.Minute
	if tier > 0 {
		budget = 5 * time.Hour
	}
	if v, err := strconv.Atoi(os.Getenv("VF_BUDGET_S")); err == nil && v > 0 {
		budget = time.Duration(v) * time.Second
	}
	deadline := time.Now().Add(budget)
	sem := make(chan struct{}, 16)
	var wg sync.WaitGroup
	for ji, j := range jobs {
		wg.Add(1)
		go func(ji int, j *job) {
			defer wg.Done()
			sem <- struct{}{}
			defer func() { <-sem }()
			out := filepath.Join(tmp, fmt.Sprintf("w%d.json", ji))
			args := []string{"worker", "-pkg", j.spec.PkgRel, "-entry", j.spec.Entry, "-tier", strconv.Itoa(tier),
				"-shard", fmt.Sprintf("%d/%d", j.shard, max(1, j.spec.Shards)), "-unwind", strconv.Itoa(j.spec.Unwind), "-steps", strconv.Itoa(j.spec.Steps),
				"-pure", strings.Join(j.spec.Pure, ","), "-timeout", strconv.Itoa(j.spec.Timeout), "-out", out, "-maporder", strconv.Itoa(j.spec.MapOrd)}
			if j.spec.MaxCand > 0 {
				args = append(args, "-maxcand", strconv.Itoa(j.spec.MaxCand))
			}
			// wall-clock budget of the whole check (VF_BUDGET_S; default 40 min
			// quick, 5 h thorough): a worker still running then is stopped and its
			// entry reported as inconclusive, never as passed
			ctx, cancel := context.WithDeadline(context.Background(), deadline)
			defer cancel()
			cmd := exec.CommandContext(ctx, self, args...)
			cmd.Env = append(os.Environ(), "VERIF_DIR="+verifDir)
			ob, err := cmd.CombinedOutput()
			j.log = string(ob)
			if ctx.Err() != nil {
				j.res = &WorkerResult{Entry: j.spec.Entry, Fatal: "time budget of the check exceeded: the exploration of this entry was stopped (inconclusive)"}
				return
			}
			var r WorkerResult
			if b, rerr := os.ReadFile(out); rerr == nil && json.Unmarshal(b, &r) == nil {
				j.res = &r
			} else {
				j.res = &WorkerResult{Entry: j.spec.Entry, Fatal: fmt.Sprintf("worker failed: %v\n%s", err, tail(j.log, 2000))}
			}
		}(ji, j)
	}
	wg.Wait()
	return finishCheck(prop, tierName, tier, seed, jobs, tmp, t0)
}

func tail(s string, n int) string {
	if len(s) > n {
		return s[len(s)-n:]
	}
	return s
}

func max(a, b int) int {
	if a > b {
		return a
	}
	return b
}

func genAll() error {
	if err := genC18(); err != nil {
		return err
	}
	if err := genC15(); err != nil {
		return err
	}
	if err := genC03(); err != nil {
		return err
	}
	return genC04()
}

// genFor regenerates the L2 harness sources a property needs from /repo's
// current type information.
func genFor(prop string) error {
	// every harness directory is part of every run's overlay, so all generated
	// sources are brought up to date with /repo whatever the property
	return genAll()
}
