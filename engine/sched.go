package main

// Access log shared by the C12 (shared mutable state) and C13 (two-thread
// schedules) checks.  Filled in by load/store when st.log != nil.

type access struct {
	obj    int
	path   string
	write  bool
	thread int
	seg    int
	locks  string // mutexes held (canonical)
	where  string
}

type accessLog struct {
	epoch         int // only objects with id <= epoch are logged (pre-existing objects)
	acc           []access
	held          []string
	seg           int
	onLockBlocked func(st *State, p PtrVal)
	events        []string
}

func (l *accessLog) clone() *accessLog {
	n := *l
	n.acc = append([]access(nil), l.acc...)
	n.held = append([]string(nil), l.held...)
	n.events = append([]string(nil), l.events...)
	return &n
}

func pathKey(p []int) string {
	b := make([]byte, 0, len(p)*3)
	for _, i := range p {
		b = append(b, byte('0'+i/100%10), byte('0'+i/10%10), byte('0'+i%10), '.')
	}
	return string(b)
}

func (l *accessLog) note(st *State, p PtrVal, write bool) {
	if p.obj > l.epoch {
		return
	}
	where := ""
	if len(st.frames) > 0 {
		where = st.frames[len(st.frames)-1].fn.String()
	}
	hl := ""
	for _, h := range l.held {
		hl += h + ","
	}
	l.acc = append(l.acc, access{obj: p.obj, path: pathKey(p.path), write: write, thread: st.thread, seg: l.seg, locks: hl, where: where})
}

func (l *accessLog) lockEvent(st *State, p PtrVal, lock bool) {
	k := pathKey(p.path)
	id := string(rune('A'+p.obj%26)) + k
	_ = id
	key := itoa(p.obj) + ":" + k
	if lock {
		l.held = append(l.held, key)
	} else {
		for i := len(l.held) - 1; i >= 0; i-- {
			if l.held[i] == key {
				l.held = append(l.held[:i:i], l.held[i+1:]...)
				break
			}
		}
	}
	l.seg++
}

func itoa(n int) string {
	if n == 0 {
		return "0"
	}
	var b []byte
	for n > 0 {
		b = append([]byte{byte('0' + n%10)}, b...)
		n /= 10
	}
	return string(b)
}
