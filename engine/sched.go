package main

// Access log shared by the C12 (shared mutable state) and C13 (two-thread
// schedules) checks.  Filled in by load/store when st.log != nil.

type access struct {
	obj    int
	path   string
	write  bool
	thread int
	seg    int
	locks  string // mutexes held (canonical)
	where  string
	seq    int
}

type lockEv struct {
	thread  int
	seq     int
	key     string
	acquire bool
}

type accessLog struct {
	epoch         int // only objects with id <= epoch are logged (pre-existing objects)
	acc           []access
	held          []string // mutexes held by the running thread (swapped on a thread switch)
	heldOther     []string // mutexes held by the suspended thread (interleaved mode)
	interleaved   bool     // accesses were logged in a real interleaving: seq is the execution order
	seg           int
	onLockBlocked func(st *State, p PtrVal)
	events        []string
	seq           int
	lockEvs       []lockEv
}

func (l *accessLog) clone() *accessLog {
	n := *l
	n.acc = append([]access(nil), l.acc...)
	n.held = append([]string(nil), l.held...)
	n.heldOther = append([]string(nil), l.heldOther...)
	n.events = append([]string(nil), l.events...)
	n.lockEvs = append([]lockEv(nil), l.lockEvs...)
	return &n
}

func pathKey(p []int) string {
	b := make([]byte, 0, len(p)*3)
	for _, i := range p {
		b = append(b, byte('0'+i/100%10), byte('0'+i/10%10), byte('0'+i%10), '.')
	}
	return string(b)
}

func (l *accessLog) note(st *State, p PtrVal, write bool) {
	if p.obj > l.epoch || st.thread == 0 {
		return
	}
	where := ""
	if len(st.frames) > 0 {
		where = st.frames[len(st.frames)-1].fn.String()
	}
	hl := ""
	for _, h := range l.held {
		hl += h + ","
	}
	l.seq++
	l.acc = append(l.acc, access{obj: p.obj, path: pathKey(p.path), write: write, thread: st.thread, seg: l.seg, locks: hl, where: where, seq: l.seq})
}

func (l *accessLog) lockEvent(st *State, p PtrVal, lock bool) {
	k := pathKey(p.path)
	id := string(rune('A'+p.obj%26)) + k
	_ = id
	key := itoa(p.obj) + ":" + k
	l.seq++
	l.lockEvs = append(l.lockEvs, lockEv{thread: st.thread, seq: l.seq, key: key, acquire: lock})
	if lock {
		l.held = append(l.held, key)
	} else {
		for i := len(l.held) - 1; i >= 0; i-- {
			if l.held[i] == key {
				l.held = append(l.held[:i:i], l.held[i+1:]...)
				break
			}
		}
	}
	l.seg++
}

func itoa(n int) string {
	if n == 0 {
		return "0"
	}
	var b []byte
	for n > 0 {
		b = append([]byte{byte('0' + n%10)}, b...)
		n /= 10
	}
	return string(b)
}

// races performs a lockset analysis of the logged accesses: two accesses to
// the same location (one path a prefix of the other) from different threads,
// at least one of them a write, with no mutex held in common, are a data race
// by the Go memory model (only mutexes order the threads).
func (l *accessLog) races() []string {
	if l.interleaved {
		return l.racesHB()
	}
	type key struct {
		obj  int
		path string
	}
	byObj := map[int][]access{}
	for _, a := range l.acc {
		byObj[a.obj] = append(byObj[a.obj], a)
	}
	seen := map[string]bool{}
	var out []string
	common := func(x, y string) bool {
		if x == "" || y == "" {
			return false
		}
		for _, a := range splitComma(x) {
			for _, b := range splitComma(y) {
				if a == b {
					return true
				}
			}
		}
		return false
	}
	for _, as := range byObj {
		for i := 0; i < len(as); i++ {
			for j := i + 1; j < len(as); j++ {
				a, b := as[i], as[j]
				if a.thread == b.thread || (!a.write && !b.write) {
					continue
				}
				// only the two schedules are compared: (1,2) and (3,4)
				lo, hi := a.thread, b.thread
				if lo > hi {
					lo, hi = hi, lo
				}
				if !((lo == 1 && hi == 2) || (lo == 3 && hi == 4)) {
					continue
				}
				if !(hasPrefix(a.path, b.path) || hasPrefix(b.path, a.path)) {
					continue
				}
				if common(a.locks, b.locks) {
					continue
				}
				// schedule: the critical sections of the lower-numbered thread
				// come first; x happens-before y if x precedes a release of some
				// mutex L by its thread and y follows an acquisition of L by the
				// other thread
				x, y := a, b
				if x.thread > y.thread {
					x, y = y, x
				}
				ordered := false
				for _, r := range l.lockEvs {
					if r.thread != x.thread || r.acquire || r.seq < x.seq {
						continue
					}
					for _, q := range l.lockEvs {
						if q.thread == y.thread && q.acquire && q.key == r.key && q.seq < y.seq {
							ordered = true
						}
					}
				}
				if ordered {
					continue
				}
				w, r := a, b
				if !w.write {
					w, r = b, a
				}
				kind := "read"
				if r.write {
					kind = "write"
				}
				d := "write in " + w.where + " vs " + kind + " in " + r.where
				if !seen[d] {
					seen[d] = true
					out = append(out, d)
				}
			}
		}
	}
	return out
}

func hasPrefix(s, p string) bool { return len(s) >= len(p) && s[:len(p)] == p }

func splitComma(s string) []string {
	var out []string
	cur := ""
	for i := 0; i < len(s); i++ {
		if s[i] == ',' {
			if cur != "" {
				out = append(out, cur)
			}
			cur = ""
		} else {
			cur += string(s[i])
		}
	}
	if cur != "" {
		out = append(out, cur)
	}
	return out
}

// racesHB is the happens-before analysis of one executed interleaving (vfPar):
// seq is the real execution order.  Two accesses of different threads to one
// location, one of them a write, race unless the earlier one is followed (in
// its thread) by a release of a mutex that the later one's thread acquired
// after that release and before the later access.  With two threads a direct
// release/acquire edge is the only way to order them.
func (l *accessLog) racesHB() []string {
	byObj := map[int][]access{}
	for _, a := range l.acc {
		byObj[a.obj] = append(byObj[a.obj], a)
	}
	// per thread: releases and acquires in seq order
	seen := map[string]bool{}
	var out []string
	for _, as := range byObj {
		for i := 0; i < len(as); i++ {
			for j := i + 1; j < len(as); j++ {
				x, y := as[i], as[j] // x.seq < y.seq (log order)
				if x.thread == y.thread || (!x.write && !y.write) {
					continue
				}
				if !(hasPrefix(x.path, y.path) || hasPrefix(y.path, x.path)) {
					continue
				}
				ordered := false
				for _, r := range l.lockEvs {
					if r.thread != x.thread || r.acquire || r.seq < x.seq || r.seq > y.seq {
						continue
					}
					for _, q := range l.lockEvs {
						if q.thread == y.thread && q.acquire && q.key == r.key && q.seq > r.seq && q.seq < y.seq {
							ordered = true
							break
						}
					}
					if ordered {
						break
					}
				}
				if ordered {
					continue
				}
				w, r := x, y
				if !w.write {
					w, r = y, x
				}
				kind := "read"
				if r.write {
					kind = "write"
				}
				d := "write in " + w.where + " vs " + kind + " in " + r.where
				if !seen[d] {
					seen[d] = true
					out = append(out, d)
				}
			}
		}
	}
	return out
}

// ---------- vfPar: two suspendable threads, preemption-bounded interleavings
//
// vfPar(f, g, budget) runs the closures f and g as two threads of the one
// machine state.  A thread runs until it finishes, blocks on a mutex the other
// thread holds (forced switch), or is preempted at a scheduling point: just
// before a Lock/TryLock and just after an Unlock.  Which thread starts and at
// which scheduling points a preemption happens are forked choices; the number
// of preemptions per execution is bounded by budget.  Code between two
// synchronisation operations is atomic in the exploration; the happens-before
// analysis (racesHB) reports unordered conflicting accesses inside such
// segments.

type parState struct {
	main    []*Frame
	stacks  [2][]*Frame
	cur     int
	done    [2]bool
	blocked [2]bool
	skipAsk [2]bool
	budget  int
	nsp     int
	switches int
}

func (p *parState) clone() *parState {
	n := *p
	n.main = append([]*Frame(nil), p.main...)
	for _, f := range p.main {
		f.owner = nil
	}
	for i := range p.stacks {
		if i == p.cur {
			n.stacks[i] = nil // stale: the running thread's stack is st.frames
			continue
		}
		n.stacks[i] = append([]*Frame(nil), p.stacks[i]...)
		for _, f := range p.stacks[i] {
			f.owner = nil
		}
	}
	return &n
}

func (e *Engine) parStart(st *State, fr *Frame, args []Val) {
	if st.par != nil {
		abort("unsupported", "nested vfPar")
	}
	f, g := args[0].(FuncVal), args[1].(FuncVal)
	if f.fn == nil || g.fn == nil || f.native != nil || g.native != nil {
		abort("unsupported", "vfPar needs two Go closures")
	}
	budget := e.needInt(st, args[2], "preemption budget")
	e.rep.bounds["vfPar.preemptions"] = itoa(budget)
	first := e.choose(st, "par-first", 2)
	fr = st.top()
	fr.idx++ // the harness continues after the call once both threads are done
	p := &parState{budget: budget}
	p.main = st.frames
	st.frames = nil
	e.pushFrame(st, f.fn, nil, f.bind, nil)
	p.stacks[0] = st.frames
	st.frames = nil
	e.pushFrame(st, g.fn, nil, g.bind, nil)
	p.stacks[1] = st.frames
	p.cur = first
	st.frames = p.stacks[first]
	st.par = p
	st.thread = first + 1
	st.log = &accessLog{epoch: *st.nextObj, interleaved: true}
}

func (e *Engine) parSwitch(st *State) {
	p := st.par
	p.stacks[p.cur] = st.frames
	p.cur = 1 - p.cur
	st.frames = p.stacks[p.cur]
	st.thread = p.cur + 1
	st.log.held, st.log.heldOther = st.log.heldOther, st.log.held
	p.switches++
}

// parThreadEnd is called when the frame stack ran empty; it reports whether
// the whole path is over.
func (e *Engine) parThreadEnd(st *State) bool {
	p := st.par
	if p == nil {
		return true
	}
	p.done[p.cur] = true
	if len(st.log.held) > 0 {
		abort("panic", "goroutine ended holding a mutex")
	}
	if !p.done[1-p.cur] {
		e.parSwitch(st)
		return false
	}
	st.frames = p.main
	st.par = nil
	st.thread = 0
	e.rep.notes["vfPar: executions explored"]++
	return false
}

// parMayPreempt: a forked decision at a scheduling point of the running
// thread.  It must be taken before the caller changes any state (the forked
// state re-executes the synchronisation call from its start).
func (e *Engine) parMayPreempt(st *State) bool {
	p := st.par
	if p == nil || p.budget <= 0 || p.done[1-p.cur] || p.blocked[1-p.cur] {
		return false
	}
	site := "preempt#" + itoa(p.nsp)
	c := e.choose(st, site, 2)
	p = st.par
	p.nsp++
	return c == 1
}
