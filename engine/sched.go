package main

// Access log shared by the C12 (shared mutable state) and C13 (two-thread
// schedules) checks.  Filled in by load/store when st.log != nil.

type access struct {
	obj    int
	path   string
	write  bool
	thread int
	seg    int
	locks  string // mutexes held (canonical)
	where  string
	seq    int
}

type lockEv struct {
	thread  int
	seq     int
	key     string
	acquire bool
}

type accessLog struct {
	epoch         int // only objects with id <= epoch are logged (pre-existing objects)
	acc           []access
	held          []string
	seg           int
	onLockBlocked func(st *State, p PtrVal)
	events        []string
	seq           int
	lockEvs       []lockEv
}

func (l *accessLog) clone() *accessLog {
	n := *l
	n.acc = append([]access(nil), l.acc...)
	n.held = append([]string(nil), l.held...)
	n.events = append([]string(nil), l.events...)
	n.lockEvs = append([]lockEv(nil), l.lockEvs...)
	return &n
}

func pathKey(p []int) string {
	b := make([]byte, 0, len(p)*3)
	for _, i := range p {
		b = append(b, byte('0'+i/100%10), byte('0'+i/10%10), byte('0'+i%10), '.')
	}
	return string(b)
}

func (l *accessLog) note(st *State, p PtrVal, write bool) {
	if p.obj > l.epoch || st.thread == 0 {
		return
	}
	where := ""
	if len(st.frames) > 0 {
		where = st.frames[len(st.frames)-1].fn.String()
	}
	hl := ""
	for _, h := range l.held {
		hl += h + ","
	}
	l.seq++
	l.acc = append(l.acc, access{obj: p.obj, path: pathKey(p.path), write: write, thread: st.thread, seg: l.seg, locks: hl, where: where, seq: l.seq})
}

func (l *accessLog) lockEvent(st *State, p PtrVal, lock bool) {
	k := pathKey(p.path)
	id := string(rune('A'+p.obj%26)) + k
	_ = id
	key := itoa(p.obj) + ":" + k
	l.seq++
	l.lockEvs = append(l.lockEvs, lockEv{thread: st.thread, seq: l.seq, key: key, acquire: lock})
	if lock {
		l.held = append(l.held, key)
	} else {
		for i := len(l.held) - 1; i >= 0; i-- {
			if l.held[i] == key {
				l.held = append(l.held[:i:i], l.held[i+1:]...)
				break
			}
		}
	}
	l.seg++
}

func itoa(n int) string {
	if n == 0 {
		return "0"
	}
	var b []byte
	for n > 0 {
		b = append([]byte{byte('0' + n%10)}, b...)
		n /= 10
	}
	return string(b)
}

// races performs a lockset analysis of the logged accesses: two accesses to
// the same location (one path a prefix of the other) from different threads,
// at least one of them a write, with no mutex held in common, are a data race
// by the Go memory model (only mutexes order the threads).
func (l *accessLog) races() []string {
	type key struct {
		obj  int
		path string
	}
	byObj := map[int][]access{}
	for _, a := range l.acc {
		byObj[a.obj] = append(byObj[a.obj], a)
	}
	seen := map[string]bool{}
	var out []string
	common := func(x, y string) bool {
		if x == "" || y == "" {
			return false
		}
		for _, a := range splitComma(x) {
			for _, b := range splitComma(y) {
				if a == b {
					return true
				}
			}
		}
		return false
	}
	for _, as := range byObj {
		for i := 0; i < len(as); i++ {
			for j := i + 1; j < len(as); j++ {
				a, b := as[i], as[j]
				if a.thread == b.thread || (!a.write && !b.write) {
					continue
				}
				// only the two schedules are compared: (1,2) and (3,4)
				lo, hi := a.thread, b.thread
				if lo > hi {
					lo, hi = hi, lo
				}
				if !((lo == 1 && hi == 2) || (lo == 3 && hi == 4)) {
					continue
				}
				if !(hasPrefix(a.path, b.path) || hasPrefix(b.path, a.path)) {
					continue
				}
				if common(a.locks, b.locks) {
					continue
				}
				// schedule: the critical sections of the lower-numbered thread
				// come first; x happens-before y if x precedes a release of some
				// mutex L by its thread and y follows an acquisition of L by the
				// other thread
				x, y := a, b
				if x.thread > y.thread {
					x, y = y, x
				}
				ordered := false
				for _, r := range l.lockEvs {
					if r.thread != x.thread || r.acquire || r.seq < x.seq {
						continue
					}
					for _, q := range l.lockEvs {
						if q.thread == y.thread && q.acquire && q.key == r.key && q.seq < y.seq {
							ordered = true
						}
					}
				}
				if ordered {
					continue
				}
				w, r := a, b
				if !w.write {
					w, r = b, a
				}
				kind := "read"
				if r.write {
					kind = "write"
				}
				d := "write in " + w.where + " vs " + kind + " in " + r.where
				if !seen[d] {
					seen[d] = true
					out = append(out, d)
				}
			}
		}
	}
	return out
}

func hasPrefix(s, p string) bool { return len(s) >= len(p) && s[:len(p)] == p }

func splitComma(s string) []string {
	var out []string
	cur := ""
	for i := 0; i < len(s); i++ {
		if s[i] == ',' {
			if cur != "" {
				out = append(out, cur)
			}
			cur = ""
		} else {
			cur += string(s[i])
		}
	}
	if cur != "" {
		out = append(out, cur)
	}
	return out
}
