package main

// Concrete floating-point bridge.  math/big.Float decimal conversion and the
// mewmew/float kinds (half, bfloat, x86_fp80, fp128, ppc_fp128) cannot be
// encoded for the solver; when every argument is concrete the executor calls
// the real library natively and imports the result, so that templates and
// tables with concrete float literals run through the real llir/llvm code
// (NewFloatFromString, Float.Ident, the parser and printer around them).
// With a symbolic argument these functions still end the path as a stated cut.

import (
	"fmt"
	"math"
	"math/big"

	"github.com/mewmew/float"
	"github.com/mewmew/float/bfloat"
	"github.com/mewmew/float/binary128"
	"github.com/mewmew/float/binary16"
	"github.com/mewmew/float/float128ppc"
	"github.com/mewmew/float/float80x86"
	"golang.org/x/tools/go/ssa"
)

func concU(v Val) (uint64, bool) {
	t, ok := v.(*Term)
	if !ok || !t.IsConst() {
		return 0, false
	}
	return t.c, true
}

func (e *Engine) newBigFloat(st *State, x *big.Float) PtrVal {
	f64, _ := x.Float64()
	return PtrVal{obj: st.alloc(BigFloatVal{f: ConstF64(f64), prec: int(x.Prec()), conc: x})}
}

func (e *Engine) concFloat(st *State, v Val) *big.Float {
	p, ok := v.(PtrVal)
	if !ok || p.obj == 0 {
		return nil
	}
	if b, ok := st.hget(p.obj).(BigFloatVal); ok {
		if b.conc != nil {
			return b.conc
		}
		if b.f != nil && b.f.IsConst() {
			x := new(big.Float).SetFloat64(math.Float64frombits(b.f.c))
			if b.prec > 0 {
				x.SetPrec(uint(b.prec))
			}
			return x
		}
	}
	return nil
}

func registerFloatBridge(e *Engine) {
	ic := e.intercept
	cut := func(what string) { abort("cut", "%s with a symbolic argument is not modelled", what) }
	ic["(*math/big.Float).Cmp"] = func(e *Engine, st *State, fr *Frame, in ssa.CallInstruction, a []Val) Val {
		x, y := e.concFloat(st, a[0]), e.concFloat(st, a[1])
		if x == nil || y == nil {
			cut("big.Float.Cmp on a symbolic value")
		}
		return ConstBV(64, uint64(int64(x.Cmp(y))))
	}
	ic["math/big.ParseFloat"] = func(e *Engine, st *State, fr *Frame, in ssa.CallInstruction, a []Val) Val {
		s, ok := a[0].(StrVal).goString()
		base, ok2 := concInt(a[1])
		prec, ok3 := concU(a[2])
		mode, ok4 := concU(a[3])
		if !ok || !ok2 || !ok3 || !ok4 {
			cut("big.ParseFloat (decimal parsing)")
		}
		x, b, err := big.ParseFloat(s, base, uint(prec), big.RoundingMode(mode))
		if err != nil {
			return TupleVal{[]Val{PtrVal{}, ConstBV(64, 0), opaqueErrNamed(st, "big.ParseFloat: "+err.Error())}}
		}
		return TupleVal{[]Val{e.newBigFloat(st, x), ConstBV(64, uint64(b)), IfaceVal{}}}
	}
	ic["(*math/big.Float).Text"] = func(e *Engine, st *State, fr *Frame, in ssa.CallInstruction, a []Val) Val {
		x := e.concFloat(st, a[0])
		f, ok := concU(a[1])
		p, ok2 := concInt(a[2])
		if x == nil || !ok || !ok2 {
			cut("big.Float.Text (decimal rendering)")
		}
		return constStr(x.Text(byte(f), p))
	}
	ic["(*math/big.Float).String"] = func(e *Engine, st *State, fr *Frame, in ssa.CallInstruction, a []Val) Val {
		x := e.concFloat(st, a[0])
		if x == nil {
			cut("big.Float.String")
		}
		return constStr(x.String())
	}
	exact := func(f func(*big.Float) bool) interceptFn {
		return func(e *Engine, st *State, fr *Frame, in ssa.CallInstruction, a []Val) Val {
			if x := e.concFloat(st, a[0]); x != nil {
				return ConstBool(f(x))
			}
			return Fresh("isexact", BoolS) // unconstrained: both printer branches are explored
		}
	}
	ic["github.com/mewmew/float.IsExact16"] = exact(float.IsExact16)
	ic["github.com/mewmew/float.IsExact32"] = exact(float.IsExact32)
	ic["github.com/mewmew/float.IsExact64"] = exact(float.IsExact64)

	// the five mewmew kinds: Big() and NewFromBig on concrete values
	type kind struct {
		pkg     string
		fromVal func(v StructVal) (x *big.Float, nan bool, ok bool)
		fromBig func(x *big.Float) (fields []uint64, acc big.Accuracy)
		widths  []int
		isF64   bool
	}
	u := func(v Val) (uint64, bool) { return concU(v) }
	kinds := []kind{
		{pkg: "binary16", widths: []int{16},
			fromVal: func(v StructVal) (*big.Float, bool, bool) {
				b, ok := u(v.f[0])
				x, nan := binary16.NewFromBits(uint16(b)).Big()
				return x, nan, ok
			},
			fromBig: func(x *big.Float) ([]uint64, big.Accuracy) {
				f, acc := binary16.NewFromBig(x)
				return []uint64{uint64(f.Bits())}, acc
			}},
		{pkg: "bfloat", widths: []int{16},
			fromVal: func(v StructVal) (*big.Float, bool, bool) {
				b, ok := u(v.f[0])
				x, nan := bfloat.NewFromBits(uint16(b)).Big()
				return x, nan, ok
			}},
		{pkg: "float80x86", widths: []int{16, 64},
			fromVal: func(v StructVal) (*big.Float, bool, bool) {
				se, ok := u(v.f[0])
				m, ok2 := u(v.f[1])
				x, nan := float80x86.NewFromBits(uint16(se), m).Big()
				return x, nan, ok && ok2
			},
			fromBig: func(x *big.Float) ([]uint64, big.Accuracy) {
				f, acc := float80x86.NewFromBig(x)
				se, m := f.Bits()
				return []uint64{uint64(se), m}, acc
			}},
		{pkg: "binary128", widths: []int{64, 64},
			fromVal: func(v StructVal) (*big.Float, bool, bool) {
				a, ok := u(v.f[0])
				b, ok2 := u(v.f[1])
				x, nan := binary128.NewFromBits(a, b).Big()
				return x, nan, ok && ok2
			},
			fromBig: func(x *big.Float) ([]uint64, big.Accuracy) {
				f, acc := binary128.NewFromBig(x)
				a, b := f.Bits()
				return []uint64{a, b}, acc
			}},
		{pkg: "float128ppc", widths: []int{64, 64}, isF64: true,
			fromVal: func(v StructVal) (*big.Float, bool, bool) {
				a, ok := u(v.f[0]) // float64 fields: the constant's bit pattern
				b, ok2 := u(v.f[1])
				x, nan := float128ppc.NewFromBits(a, b).Big()
				return x, nan, ok && ok2
			},
			fromBig: func(x *big.Float) ([]uint64, big.Accuracy) {
				f, acc := float128ppc.NewFromBig(x)
				a, b := f.Bits()
				return []uint64{a, b}, acc
			}},
	}
	for _, k := range kinds {
		k := k
		path := "github.com/mewmew/float/" + k.pkg
		ic["("+path+".Float).Big"] = func(e *Engine, st *State, fr *Frame, in ssa.CallInstruction, a []Val) Val {
			x, nan, ok := k.fromVal(a[0].(StructVal))
			if !ok {
				cut(k.pkg + ".Float.Big")
			}
			return TupleVal{[]Val{e.newBigFloat(st, x), ConstBool(nan)}}
		}
		if k.fromBig != nil {
			ic[path+".NewFromBig"] = func(e *Engine, st *State, fr *Frame, in ssa.CallInstruction, a []Val) Val {
				x := e.concFloat(st, a[0])
				if x == nil {
					cut(k.pkg + ".NewFromBig")
				}
				fields, acc := k.fromBig(x)
				sv := StructVal{}
				for i, fv := range fields {
					if k.isF64 {
						sv.f = append(sv.f, mk("const", F64S, fv, 0, 0, ""))
					} else {
						sv.f = append(sv.f, ConstBV(k.widths[i], fv))
					}
				}
				return TupleVal{[]Val{sv, ConstBV(8, uint64(uint8(int8(acc))))}}
			}
		}
	}
	_ = fmt.Sprintf
}
