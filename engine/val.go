package main

import (
	"fmt"
	"go/types"
	"math/big"
	"sort"
	"strings"

	"golang.org/x/tools/go/ssa"
)

// ---------- values (all immutable; the heap is the only mutable store)

type Val interface{}

type StrVal struct{ b []*Term }
type PtrVal struct {
	obj  int // 0 = nil
	path []int
	// sym != nil: the last path element is a placeholder, the real index is
	// the term sym in [0, symN) (only for arrays of scalars)
	sym  *Term
	symN int
}
type SliceVal struct {
	obj           int // 0 = nil slice
	off, len, cap int
}
type StructVal struct{ f []Val }
type ArrayVal struct{ e []Val }
type IfaceVal struct {
	t types.Type // nil => nil interface
	v Val
}
type FuncVal struct {
	fn   *ssa.Function
	bind []Val
	// bound method closure from an intercept (e.g. a model)
	native func(e *Engine, st *State, args []Val) Val
}
type TupleVal struct{ v []Val }

// pendingGo is a goroutine that has been spawned but not run yet (lazy mode of
// the sequentialised goroutine model).
type pendingGo struct {
	fn   FuncVal
	args []Val
}

// ChanObj is a channel of the sequentialised goroutine model (heap object;
// a channel value is a PtrVal to it).
type ChanObj struct {
	buf    []Val
	cap    int
	closed bool
}
type MapVal struct{ obj int } // 0 = nil map
type MapObj struct {
	keys, vals []Val
	idx        map[string]int // canonical concrete key -> position
}
type IterVal struct {
	keys, vals []Val
	pos        int
	str        bool
}

// Model objects living in the heap.
type BigIntVal struct {
	t    *Term // bit-vector of bigW bits, two's complement
	bits int   // static bound on the magnitude in bits
}
type BigFloatVal struct {
	f    *Term // Float64 value
	prec int
	conc *big.Float // concrete value (floatbridge.go); nil when symbolic
}
type OpaqueVal struct{ what string }

func constStr(s string) StrVal {
	b := make([]*Term, len(s))
	for i := 0; i < len(s); i++ {
		b[i] = ConstBV(8, uint64(s[i]))
	}
	return StrVal{b}
}
func (s StrVal) goString() (string, bool) {
	var sb strings.Builder
	for _, t := range s.b {
		if !t.IsConst() {
			return "", false
		}
		sb.WriteByte(byte(t.c))
	}
	return sb.String(), true
}

// ---------- layered persistent map

type lmap[K comparable, V any] struct {
	parent *lmap[K, V]
	m      map[K]V
	depth  int
	base   bool // never flattened into children (large, shared)
}

func newLmap[K comparable, V any]() *lmap[K, V] { return &lmap[K, V]{m: map[K]V{}} }

func (l *lmap[K, V]) get(k K) (V, bool) {
	for p := l; p != nil; p = p.parent {
		if v, ok := p.m[k]; ok {
			return v, true
		}
	}
	var z V
	return z, false
}
func (l *lmap[K, V]) set(k K, v V) { l.m[k] = v }

// child returns a fresh mutable layer on top of l (l must not be written any more).
func (l *lmap[K, V]) child() *lmap[K, V] {
	p := l
	if len(l.m) == 0 && l.parent != nil && !l.base {
		p = l.parent
	}
	if p.depth >= 24 && !p.base {
		// flatten non-base layers
		m := map[K]V{}
		var chain []*lmap[K, V]
		q := p
		for q != nil && !q.base {
			chain = append(chain, q)
			q = q.parent
		}
		for i := len(chain) - 1; i >= 0; i-- {
			for k, v := range chain[i].m {
				m[k] = v
			}
		}
		d := 0
		if q != nil {
			d = q.depth + 1
		}
		p = &lmap[K, V]{parent: q, m: m, depth: d}
	}
	return &lmap[K, V]{parent: p, m: map[K]V{}, depth: p.depth + 1}
}

func (l *lmap[K, V]) each(f func(K, V)) {
	seen := map[K]bool{}
	for p := l; p != nil; p = p.parent {
		for k, v := range p.m {
			if !seen[k] {
				seen[k] = true
				f(k, v)
			}
		}
	}
}

// ---------- machine state

type deferred struct {
	fn   FuncVal
	args []Val
}

type Frame struct {
	fn       *ssa.Function
	blk      *ssa.BasicBlock
	prev     *ssa.BasicBlock
	idx      int
	env      map[ssa.Value]Val
	retTo    ssa.Value
	defers   []deferred
	resume   bool // frame was pushed by RunDefers: on return re-run RunDefers
	owner    *State
	panicing bool
	onReturn func(e *Engine, st *State, v Val) // engine continuation (summaries / models)
}

type State struct {
	frames  []*Frame
	pc      []*Term
	heap    *lmap[int, Val]
	known   *lmap[*Term, bool]
	globals *lmap[string, int]
	choices *lmap[string, int]
	unwind  map[*ssa.BasicBlock]int
	nextObj *int
	steps   int
	result  Val
	model   map[*Term]uint64 // last model known to satisfy pc (nil = none)
	inputs  []inputRec       // symbolic inputs created on this path (for replay vectors)
	obs     []obsRec
	knownIn []string // ids of known-finding regions this path is inside
	panicOK bool
	mapMode int
	mapUsed bool // a non-default map iteration order was selected on this path
	goLazy  bool // vfGoMode(1): goroutines are queued and run when the spawner waits
	pending []pendingGo
	writerN int // C19: index of next harness-writer call
	siteCtr int // per-path counter naming fork sites
	reached []string
	sharded bool
	snap    *lmap[int, Val] // heap snapshot (vfHeapSnapshot)
	snapG   *lmap[string, int]
	trackShared  bool
	sharedEpoch  int
	sharedWrites int
	sharedWhere  []string
	mapSite      int // mode 4: index of the range-over-map site that is permuted
	mapSiteCtr   int
	entropy []entropyMemo
	approx  bool // the path went through an over-approximating model
	dom     *lmap[*Term, *[4]uint64] // feasible-value superset per 8-bit variable
	multi   *lmap[*Term, bool]       // variables constrained together with other variables
	pcSeen  int                      // number of pc conjuncts already folded into dom
	thread  int
	tag     string
	asserts int // number of vfAssert evaluated on this path (non-trivial)
	log     *accessLog
	par     *parState // vfPar: the two suspendable threads (nil outside)
}

type entropyMemo struct {
	t *Term
	f float64
}

type inputRec struct {
	kind string // "str","bytes","u64","i64","int","bool","byte","len"
	name string
	n    int
	t    []*Term
}
type obsRec struct {
	name string
	kind string
	v    Val
}

func (st *State) clone() *State {
	n := *st
	// freeze current layers; both states continue on children
	n.heap = st.heap.child()
	st.heap = st.heap.child()
	n.known = st.known.child()
	st.known = st.known.child()
	n.globals = st.globals.child()
	st.globals = st.globals.child()
	n.choices = st.choices.child()
	st.choices = st.choices.child()
	n.dom = st.dom.child()
	st.dom = st.dom.child()
	n.multi = st.multi.child()
	st.multi = st.multi.child()
	n.pc = append([]*Term(nil), st.pc...)
	n.unwind = make(map[*ssa.BasicBlock]int, len(st.unwind))
	for k, v := range st.unwind {
		n.unwind[k] = v
	}
	n.frames = append([]*Frame(nil), st.frames...)
	for i, f := range st.frames {
		if i == len(st.frames)-1 {
			// the running instruction keeps a pointer to the top frame of st:
			// the clone gets its own copy now, st keeps exclusive ownership
			nf := *f
			nf.env = make(map[ssa.Value]Val, len(f.env)+8)
			for k, v := range f.env {
				nf.env[k] = v
			}
			nf.defers = append([]deferred(nil), f.defers...)
			nf.owner = &n
			n.frames[i] = &nf
		} else {
			f.owner = nil // shared: whoever touches it first copies it
		}
	}
	n.inputs = append([]inputRec(nil), st.inputs...)
	n.obs = append([]obsRec(nil), st.obs...)
	n.knownIn = append([]string(nil), st.knownIn...)
	if st.log != nil {
		n.log = st.log.clone()
	}
	if st.par != nil {
		n.par = st.par.clone()
	}
	n.pending = append([]pendingGo(nil), st.pending...)
	return &n
}

// top returns the top frame, owned by st (copy on write).
func (st *State) top() *Frame {
	i := len(st.frames) - 1
	return st.own(i)
}

func (st *State) own(i int) *Frame {
	f := st.frames[i]
	if f.owner == st {
		return f
	}
	nf := *f
	nf.env = make(map[ssa.Value]Val, len(f.env)+8)
	for k, v := range f.env {
		nf.env[k] = v
	}
	nf.defers = append([]deferred(nil), f.defers...)
	nf.owner = st
	st.frames[i] = &nf
	return &nf
}

func (st *State) alloc(v Val) int {
	*st.nextObj++
	id := *st.nextObj
	st.heap.set(id, v)
	return id
}

// hset replaces a heap object; writes to objects that existed before the
// harness started are counted when shared-state tracking is on (C12).
func (st *State) hset(id int, v Val) {
	if st.trackShared && id <= st.sharedEpoch {
		st.sharedWrites++
		if len(st.sharedWhere) < 4 && len(st.frames) > 0 {
			st.sharedWhere = append(st.sharedWhere[:len(st.sharedWhere):len(st.sharedWhere)], st.frames[len(st.frames)-1].fn.String())
		}
	}
	if st.log != nil && st.thread != 0 && id <= st.log.epoch {
		st.log.note(st, PtrVal{obj: id}, true)
	}
	st.heap.set(id, v)
}

func (st *State) hget(id int) Val {
	v, ok := st.heap.get(id)
	if !ok {
		panic(fmt.Sprintf("heap: no object %d", id))
	}
	return v
}

// ---------- canonical keys for concrete values (map index)

func concKey(v Val) (string, bool) {
	switch x := v.(type) {
	case *Term:
		if !x.IsConst() {
			return "", false
		}
		if x.s.K == 'i' {
			return "i" + x.bi.String(), true
		}
		return fmt.Sprintf("c%c%d:%d", x.s.K, x.s.W, x.c), true
	case StrVal:
		s, ok := x.goString()
		return "s" + s, ok
	case PtrVal:
		return fmt.Sprintf("p%d%v", x.obj, x.path), true
	case MapVal:
		return fmt.Sprintf("m%d", x.obj), true
	case IfaceVal:
		if x.t == nil {
			return "nil", true
		}
		k, ok := concKey(x.v)
		return "I" + x.t.String() + "|" + k, ok
	case StructVal:
		var sb strings.Builder
		sb.WriteString("{")
		for _, f := range x.f {
			k, ok := concKey(f)
			if !ok {
				return "", false
			}
			sb.WriteString(k)
			sb.WriteString(";")
		}
		return sb.String(), true
	case ArrayVal:
		var sb strings.Builder
		sb.WriteString("[")
		for _, f := range x.e {
			k, ok := concKey(f)
			if !ok {
				return "", false
			}
			sb.WriteString(k)
			sb.WriteString(";")
		}
		return sb.String(), true
	case FuncVal:
		if x.fn == nil {
			return "fnil", true
		}
		return "f" + x.fn.String(), true
	}
	return "", false
}

func sortedKeys[V any](m map[string]V) []string {
	var ks []string
	for k := range m {
		ks = append(ks, k)
	}
	sort.Strings(ks)
	return ks
}
