package main

// One long-lived solver process, SMT-LIB2 over pipes, push/pop mirrors the
// current path condition.  Any "(error" line makes the query inconclusive.

import (
	"bufio"
	"fmt"
	"io"
	"math/big"
	"os"
	"os/exec"
	"sort"
	"strings"
	"time"
)

type Solver struct {
	bin     string
	cmd     *exec.Cmd
	in      *bufio.Writer
	inc     io.WriteCloser
	out     *bufio.Reader
	lines   chan string // lines of the current solver process (closed when it dies)
	nrestart int
	defined map[int]bool
	stack   []*Term
	nq      int
	nsat    int
	nunsat  int
	nunk    int
	nerr    int
	dur     time.Duration
	maxq    time.Duration
	log     io.Writer
	extra   bool
	timeout int // ms
	allVars []*Term
}

func NewSolver(bin string, timeoutMs int) *Solver {
	s := &Solver{bin: bin, timeout: timeoutMs}
	if os.Getenv("VF_SMTLOG") != "" {
		f, _ := os.Create(os.Getenv("VF_SMTLOG"))
		s.log = f
	}
	s.start()
	return s
}

// start launches a fresh solver process; nothing is declared or pushed in it.
func (s *Solver) start() {
	args := []string{"-in"}
	if strings.Contains(s.bin, "cvc5") {
		args = []string{"--incremental", "--lang", "smt2", "--produce-models", fmt.Sprintf("--tlimit-per=%d", s.timeout)}
	}
	cmd := exec.Command(s.bin, args...)
	in, _ := cmd.StdinPipe()
	outp, _ := cmd.StdoutPipe()
	cmd.Stderr = cmd.Stdout
	if err := cmd.Start(); err != nil {
		panic(err)
	}
	s.cmd, s.inc = cmd, in
	s.in = bufio.NewWriterSize(in, 1<<16)
	s.out = bufio.NewReaderSize(outp, 1<<20)
	s.defined = map[int]bool{}
	s.stack = nil
	s.allVars = nil
	s.extra = false
	lines := make(chan string, 1024)
	s.lines = lines
	rd := s.out
	go func() {
		for {
			line, err := rd.ReadString('\n')
			if err != nil {
				close(lines)
				return
			}
			lines <- line
		}
	}()
	s.send("(set-option :global-declarations true)")
	s.send("(set-option :produce-models true)")
	if !strings.Contains(s.bin, "cvc5") {
		s.send(fmt.Sprintf("(set-option :timeout %d)", s.timeout))
	}
}

func (s *Solver) send(l string) {
	if s.log != nil {
		fmt.Fprintln(s.log, l)
	}
	s.in.WriteString(l)
	s.in.WriteString("\n")
}

// ask sends l and collects the answer lines.  A hard wall-clock limit guards
// against a solver that ignores its own time limits: the process is killed and
// restarted (empty assertion stack) and the current path ends as unsupported
// (inconclusive), never as "holds".
func (s *Solver) ask(l string) []string {
	if l != "" {
		s.send(l)
	}
	s.send(`(echo "<<END>>")`)
	s.in.Flush()
	var res []string
	limit := time.Duration(4*s.timeout)*time.Millisecond + 20*time.Second
	timer := time.NewTimer(limit)
	defer timer.Stop()
	for {
		select {
		case line, ok := <-s.lines:
			if !ok {
				panic(fmt.Errorf("solver died; got %v", res))
			}
			line = strings.TrimRight(line, "\r\n")
			if strings.Trim(line, `"`) == "<<END>>" {
				return res
			}
			res = append(res, line)
		case <-timer.C:
			s.cmd.Process.Kill()
			s.inc.Close()
			s.cmd.Wait()
			s.nrestart++
			s.nunk++
			s.start()
			abort("unsupported", "solver did not answer within the hard limit of %v; query abandoned, solver restarted", limit)
		}
	}
}

func (s *Solver) define(t *Term) {
	if t.op == "const" || t.op == "bigconst" || s.defined[t.id] {
		return
	}
	// iterative post-order to avoid deep host recursion on long ite chains
	type fr struct {
		t *Term
		i int
	}
	stk := []fr{{t, 0}}
	for len(stk) > 0 {
		top := &stk[len(stk)-1]
		if top.t.op == "const" || top.t.op == "bigconst" || s.defined[top.t.id] {
			stk = stk[:len(stk)-1]
			continue
		}
		if top.i < len(top.t.args) {
			a := top.t.args[top.i]
			top.i++
			if a.op != "const" && a.op != "bigconst" && !s.defined[a.id] {
				stk = append(stk, fr{a, 0})
			}
			continue
		}
		x := top.t
		s.defined[x.id] = true
		if x.op == "var" {
			s.send(fmt.Sprintf("(declare-const %s %s)", smtName(x.name), x.s))
			s.allVars = append(s.allVars, x)
		} else {
			s.send(fmt.Sprintf("(define-fun t%d () %s %s)", x.id, x.s, x.body()))
		}
		stk = stk[:len(stk)-1]
	}
}

func (s *Solver) align(pcs []*Term) {
	i := 0
	for i < len(s.stack) && i < len(pcs) && s.stack[i] == pcs[i] {
		i++
	}
	if n := len(s.stack) - i; n > 0 {
		s.send(fmt.Sprintf("(pop %d)", n))
		s.stack = s.stack[:i]
	}
	for ; i < len(pcs); i++ {
		s.define(pcs[i])
		s.send("(push 1)")
		s.send(fmt.Sprintf("(assert %s)", pcs[i].ref()))
		s.stack = append(s.stack, pcs[i])
	}
}

// Check decides pcs ∧ extra.  The extra assertion stays pushed until Done so
// that Values can be asked.
func (s *Solver) Check(pcs []*Term, extra *Term) string {
	if extra != nil && extra.IsConst() {
		if extra.c == 0 {
			return "unsat"
		}
		extra = nil
	}
	t0 := time.Now()
	s.align(pcs)
	if extra != nil {
		s.define(extra)
		s.send("(push 1)")
		s.send(fmt.Sprintf("(assert %s)", extra.ref()))
		s.extra = true
	} else {
		s.extra = false
	}
	res := s.ask(s.checkCmd(pcs, extra))
	s.nq++
	d := time.Since(t0)
	s.dur += d
	if d > s.maxq {
		s.maxq = d
	}
	r := "unknown"
	for _, l := range res {
		if strings.Contains(l, "(error") {
			r = "error"
			fmt.Fprintln(os.Stderr, "SOLVER ERROR:", l)
			break
		}
		if l == "sat" || l == "unsat" || l == "unknown" {
			r = l
		}
	}
	switch r {
	case "sat":
		s.nsat++
	case "unsat":
		s.nunsat++
	case "error":
		s.nerr++
		r = "unknown"
	default:
		s.nunk++
	}
	return r
}

type sideResult struct {
	verdict string
	model   map[*Term]uint64
}

// Sides decides pcs ∧ x for every x in extras in ONE round trip (pipe
// latency, not solving, dominates small queries) and, for satisfiable sides,
// returns a model of the bit-vector / Bool variables.
func (s *Solver) Sides(pcs []*Term, extras []*Term, wantModel bool) []sideResult {
	t0 := time.Now()
	s.align(pcs)
	s.extra = false
	var vars []*Term
	if wantModel {
		for _, x := range extras {
			s.define(x)
		}
		for _, v := range s.allVars {
			if v.s.K == 'b' || v.s.K == 'v' {
				vars = append(vars, v)
			}
		}
	}
	var gv strings.Builder
	if len(vars) > 0 {
		gv.WriteString("(get-value (")
		for _, v := range vars {
			gv.WriteString(v.ref())
			gv.WriteByte(' ')
		}
		gv.WriteString("))")
	}
	for _, x := range extras {
		s.define(x)
		s.send("(push 1)")
		s.send(fmt.Sprintf("(assert %s)", x.ref()))
		s.send(s.checkCmd(pcs, x))
		s.send(`(echo "<<M>>")`)
		if gv.Len() > 0 {
			s.send(gv.String())
		}
		s.send("(pop 1)")
		s.send(`(echo "<<Q>>")`)
	}
	lines := s.ask("")
	out := make([]sideResult, 0, len(extras))
	cur := sideResult{verdict: "unknown"}
	inModel := false
	var mtxt []string
	for _, l := range lines {
		t := strings.Trim(l, `"`)
		switch {
		case t == "<<M>>":
			inModel = true
			mtxt = nil
		case t == "<<Q>>":
			if cur.verdict == "sat" && len(vars) > 0 {
				txt := strings.Join(mtxt, " ")
				if !strings.Contains(txt, "(error") {
					vals := parseValues(txt)
					if len(vals) == len(vars) {
						cur.model = make(map[*Term]uint64, len(vars))
						for i, v := range vars {
							cur.model[v] = vals[i].u
						}
					}
				}
			}
			out = append(out, cur)
			cur = sideResult{verdict: "unknown"}
			inModel = false
		case inModel:
			mtxt = append(mtxt, l)
		default:
			if strings.Contains(l, "(error") {
				cur.verdict = "error"
				fmt.Fprintln(os.Stderr, "SOLVER ERROR:", l)
			} else if (l == "sat" || l == "unsat" || l == "unknown") && cur.verdict != "error" {
				cur.verdict = l
			}
		}
	}
	for len(out) < len(extras) {
		out = append(out, sideResult{verdict: "unknown"})
	}
	d := time.Since(t0)
	s.dur += d
	if d > s.maxq {
		s.maxq = d
	}
	for i := range out {
		s.nq++
		switch out[i].verdict {
		case "sat":
			s.nsat++
		case "unsat":
			s.nunsat++
		case "error":
			s.nerr++
			out[i].verdict = "unknown"
		default:
			s.nunk++
		}
	}
	return out
}

// checkCmd picks the tactic: pure bit-vector queries go through z3's
// bit-blasting SAT pipeline (4x faster than the incremental SMT core on the
// string kernels); anything with Int or FloatingPoint terms uses check-sat.
func (s *Solver) checkCmd(pcs []*Term, extra *Term) string {
	if strings.Contains(s.bin, "cvc5") || os.Getenv("VF_PLAINCHECK") != "" {
		return "(check-sat)"
	}
	if extra != nil && !extra.pureBV() {
		return "(check-sat)"
	}
	for _, p := range pcs {
		if !p.pureBV() {
			return "(check-sat)"
		}
	}
	// (set-option :timeout) does not bound check-sat-using: the tactic carries
	// its own limit (an exceeded limit answers "unknown")
	return fmt.Sprintf("(check-sat-using (try-for (then simplify bit-blast sat) %d))", s.timeout)
}

func (s *Solver) Done() {
	if s.extra {
		s.send("(pop 1)")
		s.extra = false
	}
}

// Model values after a sat Check (before Done).  Bit-vector and Bool values
// are returned as uint64 (width ≤ 64), Int values in the second map.
func (s *Solver) Values(ts []*Term) (map[*Term]uint64, map[*Term]*big.Int) {
	m := map[*Term]uint64{}
	mi := map[*Term]*big.Int{}
	const chunk = 200
	for i := 0; i < len(ts); i += chunk {
		j := i + chunk
		if j > len(ts) {
			j = len(ts)
		}
		var sb strings.Builder
		sb.WriteString("(get-value (")
		for _, t := range ts[i:j] {
			s.define(t)
			sb.WriteString(t.ref())
			sb.WriteByte(' ')
		}
		sb.WriteString("))")
		res := s.ask(sb.String())
		txt := strings.Join(res, " ")
		if strings.Contains(txt, "(error") {
			fmt.Fprintln(os.Stderr, "SOLVER ERROR (get-value):", txt)
			return nil, nil
		}
		vals := parseValues(txt)
		if len(vals) != j-i {
			fmt.Fprintf(os.Stderr, "get-value: expected %d values, got %d: %s\n", j-i, len(vals), txt)
			return nil, nil
		}
		for k, t := range ts[i:j] {
			v := vals[k]
			switch t.s.K {
			case 'i':
				mi[t] = v.i
			case 'f':
				m[t] = v.u
			default:
				m[t] = v.u
			}
		}
	}
	return m, mi
}

type smtVal struct {
	u uint64
	i *big.Int
}

// parseValues parses "((a v) (b v) ...)" into the list of values.
func parseValues(txt string) []smtVal {
	toks := tokenize(txt)
	// toks: ( ( name value... ) ( ... ) )
	var out []smtVal
	pos := 0
	next := func() string {
		if pos < len(toks) {
			pos++
			return toks[pos-1]
		}
		return ""
	}
	var skip func()
	skip = func() { // skip one s-expr
		t := next()
		if t == "(" {
			for pos < len(toks) && toks[pos] != ")" {
				skip()
			}
			next()
		}
	}
	var parseVal func() smtVal
	parseVal = func() smtVal {
		t := next()
		switch {
		case t == "(":
			// (- n) | (_ bvN w) | (fp s e m) | (_ NaN ..) etc.
			h := next()
			switch h {
			case "-":
				v := parseVal()
				next() // )
				if v.i == nil {
					v.i = new(big.Int).SetUint64(v.u)
				}
				return smtVal{i: new(big.Int).Neg(v.i)}
			case "_":
				a := next()
				if strings.HasPrefix(a, "bv") {
					var u uint64
					fmt.Sscanf(a[2:], "%d", &u)
					next() // width
					next() // )
					return smtVal{u: u}
				}
				for pos < len(toks) && toks[pos] != ")" {
					skip()
				}
				next()
				return smtVal{}
			case "fp":
				sg, ex, mn := parseVal(), parseVal(), parseVal()
				next()
				return smtVal{u: sg.u<<63 | ex.u<<52 | mn.u}
			default:
				for pos < len(toks) && toks[pos] != ")" {
					skip()
				}
				next()
				return smtVal{}
			}
		case strings.HasPrefix(t, "#x"):
			var u uint64
			fmt.Sscanf(t[2:], "%x", &u)
			return smtVal{u: u}
		case strings.HasPrefix(t, "#b"):
			var u uint64
			for _, ch := range t[2:] {
				u = u<<1 | uint64(ch-'0')
			}
			return smtVal{u: u}
		case t == "true":
			return smtVal{u: 1}
		case t == "false":
			return smtVal{u: 0}
		default:
			bi, ok := new(big.Int).SetString(t, 10)
			if ok {
				u := uint64(0)
				if bi.IsUint64() {
					u = bi.Uint64()
				}
				return smtVal{u: u, i: bi}
			}
			return smtVal{}
		}
	}
	if next() != "(" {
		return nil
	}
	for pos < len(toks) && toks[pos] == "(" {
		next()
		skip() // name / term
		out = append(out, parseVal())
		next() // )
	}
	return out
}

func tokenize(s string) []string {
	var toks []string
	i := 0
	for i < len(s) {
		c := s[i]
		switch {
		case c == ' ' || c == '\t' || c == '\n':
			i++
		case c == '(' || c == ')':
			toks = append(toks, string(c))
			i++
		case c == '|':
			j := strings.IndexByte(s[i+1:], '|')
			if j < 0 {
				j = len(s) - i - 2
			}
			toks = append(toks, s[i:i+j+2])
			i += j + 2
		default:
			j := i
			for j < len(s) && s[j] != ' ' && s[j] != '(' && s[j] != ')' && s[j] != '\n' {
				j++
			}
			toks = append(toks, s[i:j])
			i = j
		}
	}
	return toks
}

func (s *Solver) Close() {
	s.send("(exit)")
	s.in.Flush()
	s.inc.Close()
	s.cmd.Wait()
}

// Standalone renders pcs ∧ extra as a self-contained SMT-LIB2 script, used to
// re-decide obligation queries with the other solvers.
func Standalone(pcs []*Term, extra *Term) string {
	var sb strings.Builder
	seen := map[int]bool{}
	var defs []*Term
	var walk func(t *Term)
	walk = func(t *Term) {
		if t.op == "const" || t.op == "bigconst" || seen[t.id] {
			return
		}
		seen[t.id] = true
		for _, a := range t.args {
			walk(a)
		}
		defs = append(defs, t)
	}
	all := append([]*Term(nil), pcs...)
	if extra != nil {
		all = append(all, extra)
	}
	for _, t := range all {
		walk(t)
	}
	sort.SliceStable(defs, func(i, j int) bool { return defs[i].id < defs[j].id })
	for _, t := range defs {
		if t.op == "var" {
			fmt.Fprintf(&sb, "(declare-const %s %s)\n", smtName(t.name), t.s)
		} else {
			fmt.Fprintf(&sb, "(define-fun t%d () %s %s)\n", t.id, t.s, t.body())
		}
	}
	for _, t := range all {
		fmt.Fprintf(&sb, "(assert %s)\n", t.ref())
	}
	sb.WriteString("(check-sat)\n")
	return sb.String()
}
