package main

import (
	"fmt"
	"go/constant"
	"go/token"
	"go/types"
	"math"
	"math/big"
	"os"
	"strconv"
	"strings"
	"time"

	"golang.org/x/tools/go/ssa"
)

type PathEnd struct {
	kind string // return panic unwind unsupported infeasible forkall cut
	msg  string
	st   *State
}

type pathAbort struct{ end PathEnd }

func abort(kind, format string, a ...interface{}) {
	panic(pathAbort{PathEnd{kind: kind, msg: fmt.Sprintf(format, a...)}})
}

type interceptFn func(e *Engine, st *State, fr *Frame, in ssa.CallInstruction, args []Val) Val

type Engine struct {
	prog      *ssa.Program
	sol       *Solver
	work      []*State
	intercept map[string]interceptFn
	redirect  map[string]*ssa.Function
	pure      map[string]bool
	initPkgs  map[string]bool
	initSet   map[string]bool // globals set by an initialiser that is not interpreted
	funcs     map[string]bool // functions interpreted
	models    map[string]int  // intercepts / redirects hit
	maxUnwind int
	maxSteps  int
	noPrune   bool
	tier      int

	nIfConv   int
	forkSites map[string]int
	nDomain int
	nForks  int
	nDecide int
	nPaths  int
	nSteps  int64

	rep *Report // obligations bookkeeping (intrin.go)

	shardI, shardN int
	shardCtr       int
	shardDepth     int

	textMemo     map[string]BigIntVal
	lastProgress time.Time
	sumCache     map[string]sumEntry
	baseEpoch    int // objects with id <= baseEpoch existed before the harness started
	trace     bool
}

func width(t types.Type) (w int, signed bool, ok bool) {
	b, isb := t.Underlying().(*types.Basic)
	if !isb {
		return 0, false, false
	}
	switch b.Kind() {
	case types.Int, types.Int64, types.UntypedInt:
		return 64, true, true
	case types.Uint, types.Uint64, types.Uintptr:
		return 64, false, true
	case types.Int32, types.UntypedRune:
		return 32, true, true
	case types.Uint32:
		return 32, false, true
	case types.Int16:
		return 16, true, true
	case types.Uint16:
		return 16, false, true
	case types.Int8:
		return 8, true, true
	case types.Uint8:
		return 8, false, true
	}
	return 0, false, false
}

func isFloat(t types.Type) bool {
	b, ok := t.Underlying().(*types.Basic)
	return ok && (b.Kind() == types.Float64 || b.Kind() == types.UntypedFloat)
}

func isFloat32(t types.Type) bool {
	b, ok := t.Underlying().(*types.Basic)
	return ok && b.Kind() == types.Float32
}

func (e *Engine) zero(t types.Type) Val {
	switch u := t.Underlying().(type) {
	case *types.Basic:
		if u.Info()&types.IsBoolean != 0 {
			return False
		}
		if u.Info()&types.IsString != 0 {
			return StrVal{}
		}
		if w, _, ok := width(t); ok {
			return ConstBV(w, 0)
		}
		if u.Kind() == types.Float64 || u.Kind() == types.UntypedFloat {
			return ConstF64(0)
		}
		if u.Kind() == types.Float32 {
			return ConstF64(0)
		}
		if u.Kind() == types.UnsafePointer {
			return PtrVal{}
		}
		if u.Kind() == types.UntypedNil {
			return nil
		}
	case *types.Pointer:
		return PtrVal{}
	case *types.Slice:
		return SliceVal{}
	case *types.Struct:
		f := make([]Val, u.NumFields())
		for i := range f {
			f[i] = e.zero(u.Field(i).Type())
		}
		return StructVal{f}
	case *types.Array:
		n := u.Len()
		el := make([]Val, n)
		if n > 0 {
			z := e.zero(u.Elem())
			for i := range el {
				el[i] = z
			}
		}
		return ArrayVal{el}
	case *types.Interface:
		return IfaceVal{}
	case *types.Signature:
		return FuncVal{}
	case *types.Map:
		return MapVal{}
	case *types.Chan:
		return PtrVal{}
	case *types.Tuple:
		tv := TupleVal{}
		for i := 0; i < u.Len(); i++ {
			tv.v = append(tv.v, e.zero(u.At(i).Type()))
		}
		return tv
	}
	abort("unsupported", "zero of %s", t)
	return nil
}

func (e *Engine) constVal(c *ssa.Const) Val {
	t := c.Type()
	if c.Value == nil {
		return e.zero(t)
	}
	switch c.Value.Kind() {
	case constant.Bool:
		return ConstBool(constant.BoolVal(c.Value))
	case constant.String:
		return constStr(constant.StringVal(c.Value))
	case constant.Int:
		if w, _, ok := width(t); ok {
			if v, exact := constant.Int64Val(c.Value); exact {
				return ConstBV(w, uint64(v))
			}
			if v, exact := constant.Uint64Val(c.Value); exact {
				return ConstBV(w, v)
			}
		}
		if isFloat(t) {
			f, _ := constant.Float64Val(c.Value)
			return ConstF64(f)
		}
	case constant.Float:
		if isFloat(t) {
			f, _ := constant.Float64Val(c.Value)
			return ConstF64(f)
		}
	}
	abort("unsupported", "const %s", c)
	return nil
}

func (e *Engine) get(st *State, fr *Frame, v ssa.Value) Val {
	switch v := v.(type) {
	case *ssa.Const:
		return e.constVal(v)
	case *ssa.Function:
		return FuncVal{fn: v}
	case *ssa.Global:
		return e.globalPtr(st, v)
	case *ssa.Builtin:
		return v
	}
	x, ok := fr.env[v]
	if !ok {
		panic(fmt.Sprintf("no value for %s in %s", v.Name(), fr.fn))
	}
	return x
}

func (e *Engine) globalPtr(st *State, g *ssa.Global) Val {
	key := g.String()
	if id, ok := st.globals.get(key); ok {
		return PtrVal{obj: id}
	}
	et := g.Type().(*types.Pointer).Elem()
	var init Val
	if g.Pkg != nil && !e.initPkgs[g.Pkg.Pkg.Path()] && et.String() == "error" {
		// sentinel error variables of packages whose init is not interpreted
		// (strconv.ErrRange, io.EOF, ...): distinct non-nil opaque errors
		init = opaqueErrNamed(st, key)
	} else {
		if e.initSet[key] {
			if _, isIface := et.Underlying().(*types.Interface); !isIface {
				abort("unsupported", "global %s is set by the initialiser of package %s, which is not interpreted", key, g.Pkg.Pkg.Path())
			}
		}
		init = e.zero(et)
	}
	id := st.alloc(init)
	st.globals.set(key, id)
	return PtrVal{obj: id}
}

func navGet(root Val, path []int) Val {
	for _, i := range path {
		switch r := root.(type) {
		case StructVal:
			root = r.f[i]
		case ArrayVal:
			if i >= len(r.e) {
				panic(fmt.Sprintf("navGet: index %d beyond %d", i, len(r.e)))
			}
			root = r.e[i]
		default:
			abort("unsupported", "field access into a modelled object (%T): a method of this library type has no model", root)
		}
	}
	return root
}
func navSet(root Val, path []int, v Val) Val {
	if len(path) == 0 {
		return v
	}
	i := path[0]
	switch r := root.(type) {
	case StructVal:
		nf := append([]Val(nil), r.f...)
		nf[i] = navSet(r.f[i], path[1:], v)
		return StructVal{nf}
	case ArrayVal:
		ne := append([]Val(nil), r.e...)
		ne[i] = navSet(r.e[i], path[1:], v)
		return ArrayVal{ne}
	}
	abort("unsupported", "field store into a modelled object (%T)", root)
	return nil
}

func (e *Engine) load(st *State, p PtrVal) Val {
	if p.obj == 0 {
		abort("panic", "nil pointer dereference")
	}
	if st.log != nil {
		st.log.note(st, p, false)
	}
	return navGet(st.hget(p.obj), p.path)
}
func (e *Engine) store(st *State, p PtrVal, v Val) {
	if p.obj == 0 {
		abort("panic", "nil pointer dereference")
	}
	if st.log != nil {
		st.log.note(st, p, true)
	}
	if len(p.path) == 0 {
		st.heap.set(p.obj, v)
		return
	}
	st.heap.set(p.obj, navSet(st.hget(p.obj), p.path, v))
}

// idxVal widens an index / length operand to 64 bits according to the
// signedness of its static type (uint8 200 is 200, not -56).
func (e *Engine) idxVal(st *State, fr *Frame, v ssa.Value) Val {
	x := e.get(st, fr, v)
	t, ok := x.(*Term)
	if !ok || t.s.K != 'v' || t.s.W == 64 {
		return x
	}
	_, signed, _ := width(v.Type())
	if signed {
		return SExt(t, 64)
	}
	return ZExt(t, 64)
}

func concInt(v Val) (int, bool) {
	t, ok := v.(*Term)
	if !ok || !t.IsConst() {
		return 0, false
	}
	return int(sext64(t.c, t.s.W)), true
}

// needInt concretises an integer: symbolic terms are enumerated value by
// value (model value, then fork on equality; the other side re-executes).
func (e *Engine) needInt(st *State, v Val, what string) int {
	if n, ok := concInt(v); ok {
		return n
	}
	t := v.(*Term)
	for tries := 0; tries < 4096; tries++ {
		val, ok := e.modelValue(st, t)
		if !ok {
			abort("unsupported", "cannot concretise %s", what)
		}
		if e.decide(st, Eq(t, ConstBV(t.s.W, val))) {
			return int(sext64(val, t.s.W))
		}
	}
	abort("unsupported", "concretisation limit for %s", what)
	return 0
}

// modelValue returns a value of t consistent with the path condition.
func (e *Engine) modelValue(st *State, t *Term) (uint64, bool) {
	if st.model != nil {
		if v, ok := evalTerm(t, st.model, map[*Term]uint64{}); ok {
			// the model satisfies pc as of when it was taken; pc may have grown
			// only by conditions that the model satisfies (decide keeps it so).
			return v, true
		}
	}
	r := e.sol.Check(st.pc, nil)
	if r != "sat" {
		e.sol.Done()
		if r == "unsat" {
			abort("infeasible", "")
		}
		return 0, false
	}
	m, _ := e.sol.Values([]*Term{t})
	e.sol.Done()
	if m == nil {
		return 0, false
	}
	return m[t], true
}

var forkLog = os.Getenv("VF_FORKLOG") != ""
var maxPaths, _ = strconv.Atoi(os.Getenv("VF_MAXPATHS"))
var noIfConv = os.Getenv("VF_NOIFCONV") != ""
var noModel = os.Getenv("VF_NOMODEL") != ""

func (e *Engine) fetchModel() map[*Term]uint64 {
	if noModel {
		return nil
	}
	var ts []*Term
	for _, v := range e.sol.allVars {
		if v.s.K == 'b' || v.s.K == 'v' {
			ts = append(ts, v)
		}
	}
	m, _ := e.sol.Values(ts)
	return m
}

// decide returns the truth value of c to follow in this state; if both values
// are feasible the state is forked: the clone (with not c) is queued and will
// re-execute the current instruction from its start.
func (e *Engine) decide(st *State, c *Term) bool {
	if c.IsConst() {
		return c.c == 1
	}
	if v, ok := st.known.get(c); ok {
		return v
	}
	if nc := Not(c); nc != c {
		if v, ok := st.known.get(nc); ok {
			return !v
		}
	}
	e.nDecide++
	// a worker whose solver keeps answering "unknown" (queries at the per-query
	// limit) would explore both sides of every such branch: after 30 unknown
	// verdicts the remaining paths of this worker end as unsupported
	// (inconclusive) instead of running for hours
	if e.sol != nil && e.sol.nunk > 30 {
		abort("unsupported", "more than 30 solver queries of this worker came back unknown (time limit): exploration abandoned")
	}
	ft, ff := true, true
	var mT, mF map[*Term]uint64
	domT, domF, exact := e.domainSides(st, c)
	if !domT && !domF {
		abort("infeasible", "")
	}
	if exact || !domT || !domF {
		// decided without the solver: a side that no value of the variable's
		// feasible-value superset satisfies is infeasible; if the variable is
		// not tied to others the superset is exact
		e.nDomain++
		ft, ff = domT, domF
		if exact || !(domT && domF) {
			goto decided
		}
	}
	if !e.noPrune {
		done := false
		if st.model != nil {
			if v, ok := evalTerm(c, st.model, map[*Term]uint64{}); ok {
				done = true
				if v == 1 {
					mT = st.model
					r := e.sol.Sides(st.pc, []*Term{Not(c)}, !noModel)[0]
					ff = r.verdict != "unsat"
					mF = r.model
				} else {
					mF = st.model
					r := e.sol.Sides(st.pc, []*Term{c}, !noModel)[0]
					ft = r.verdict != "unsat"
					mT = r.model
				}
			}
		}
		if !done {
			rs := e.sol.Sides(st.pc, []*Term{c, Not(c)}, !noModel)
			ft = rs[0].verdict != "unsat"
			ff = rs[1].verdict != "unsat"
			mT, mF = rs[0].model, rs[1].model
		}
	}
decided:
	switch {
	case ft && ff:
		e.nForks++
		if forkLog {
			if len(st.frames) > 0 {
				fr := st.frames[len(st.frames)-1]
				k := fr.fn.String()
				if fr.idx < len(fr.blk.Instrs) {
					k += " :: " + fr.blk.Instrs[fr.idx].String()
				}
				if e.forkSites == nil {
					e.forkSites = map[string]int{}
				}
				e.forkSites[k]++
			}
		}
		st2 := st.clone()
		st2.known.set(c, false)
		st2.pc = append(st2.pc, Not(c))
		st2.model = mF
		e.work = append(e.work, st2)
		st.known.set(c, true)
		st.pc = append(st.pc, c)
		st.model = mT
		return true
	case ft:
		st.known.set(c, true)
		if mT != nil {
			st.model = mT
		}
		return true
	case ff:
		st.known.set(c, false)
		if mF != nil {
			st.model = mF
		}
		return false
	}
	abort("infeasible", "")
	return false
}

// assume adds c to the path condition (ends the path if it is infeasible).
func (e *Engine) assume(st *State, c *Term) {
	if c.IsConst() {
		if c.c == 0 {
			abort("infeasible", "")
		}
		return
	}
	if v, ok := st.known.get(c); ok {
		if !v {
			abort("infeasible", "")
		}
		return
	}
	if st.model != nil {
		if v, ok := evalTerm(c, st.model, map[*Term]uint64{}); ok && v == 1 {
			st.pc = append(st.pc, c)
			st.known.set(c, true)
			return
		}
	}
	r := e.sol.Check(st.pc, c)
	var m map[*Term]uint64
	if r == "sat" {
		m = e.fetchModel()
	}
	e.sol.Done()
	if r == "unsat" {
		abort("infeasible", "")
	}
	st.pc = append(st.pc, c)
	st.known.set(c, true)
	st.model = m
}

// elemAt reads elems[idx] for a possibly symbolic index.
func (e *Engine) elemAt(st *State, elems []Val, idx Val, what string) Val {
	if i, ok := concInt(idx); ok {
		if i < 0 || i >= len(elems) {
			abort("panic", "index out of range [%d] with length %d (%s)", i, len(elems), what)
		}
		return elems[i]
	}
	it := idx.(*Term)
	inb := BvCmp("bvult", it, ConstBV(it.s.W, uint64(len(elems))))
	if !e.decide(st, inb) {
		abort("panic", "index out of range (symbolic index, length %d) %s", len(elems), what)
	}
	if len(elems) == 0 {
		abort("infeasible", "")
	}
	if _, ok := elems[0].(*Term); !ok {
		// non-scalar: concretise
		i := e.needInt(st, idx, what)
		return elems[i]
	}
	r := elems[len(elems)-1].(*Term)
	for i := len(elems) - 2; i >= 0; i-- {
		r = Ite(Eq(it, ConstBV(it.s.W, uint64(i))), elems[i].(*Term), r)
	}
	return r
}

func strCmp(op token.Token, a, b StrVal) *Term {
	switch op {
	case token.EQL, token.NEQ:
		var r *Term
		if len(a.b) != len(b.b) {
			r = False
		} else {
			r = True
			for i := range a.b {
				r = And(r, Eq(a.b[i], b.b[i]))
			}
		}
		if op == token.NEQ {
			return Not(r)
		}
		return r
	case token.LSS, token.LEQ, token.GTR, token.GEQ:
		if op == token.GTR {
			return strCmp(token.LSS, b, a)
		}
		if op == token.GEQ {
			return strCmp(token.LEQ, b, a)
		}
		n := len(a.b)
		if len(b.b) < n {
			n = len(b.b)
		}
		var tail *Term
		if op == token.LSS {
			tail = ConstBool(len(a.b) < len(b.b))
		} else {
			tail = ConstBool(len(a.b) <= len(b.b))
		}
		r := tail
		for i := n - 1; i >= 0; i-- {
			r = Ite(Eq(a.b[i], b.b[i]), r, BvCmp("bvult", a.b[i], b.b[i]))
		}
		return r
	}
	panic("strCmp op")
}

func (e *Engine) binop(st *State, op token.Token, xtype types.Type, x, y Val) Val {
	if xs, ok := x.(StrVal); ok {
		ys := y.(StrVal)
		if op == token.ADD {
			return StrVal{append(append(make([]*Term, 0, len(xs.b)+len(ys.b)), xs.b...), ys.b...)}
		}
		return strCmp(op, xs, ys)
	}
	xt, okx := x.(*Term)
	yt, oky := y.(*Term)
	if !okx || !oky {
		switch op {
		case token.EQL, token.NEQ:
			eq := e.valEq(st, x, y)
			if op == token.NEQ {
				return Not(eq)
			}
			return eq
		}
		abort("unsupported", "binop %s on %T", op, x)
	}
	if xt.s.K == 'b' {
		switch op {
		case token.EQL:
			return Eq(xt, yt)
		case token.NEQ:
			return Not(Eq(xt, yt))
		case token.AND, token.LAND:
			return And(xt, yt)
		case token.OR, token.LOR:
			return Or(xt, yt)
		}
	}
	if xt.s.K == 'f' {
		switch op {
		case token.ADD:
			return FpBin("fp.add", xt, yt)
		case token.SUB:
			return FpBin("fp.sub", xt, yt)
		case token.MUL:
			return FpBin("fp.mul", xt, yt)
		case token.QUO:
			return FpBin("fp.div", xt, yt)
		case token.EQL:
			return FpCmp("fp.eq", xt, yt)
		case token.NEQ:
			return Not(FpCmp("fp.eq", xt, yt))
		case token.LSS:
			return FpCmp("fp.lt", xt, yt)
		case token.LEQ:
			return FpCmp("fp.leq", xt, yt)
		case token.GTR:
			return FpCmp("fp.gt", xt, yt)
		case token.GEQ:
			return FpCmp("fp.geq", xt, yt)
		}
		abort("unsupported", "float binop %s", op)
	}
	_, signed, _ := width(xtype)
	w := xt.s.W
	switch op {
	case token.ADD:
		return BvBin("bvadd", xt, yt)
	case token.SUB:
		return BvBin("bvsub", xt, yt)
	case token.MUL:
		return BvBin("bvmul", xt, yt)
	case token.QUO, token.REM:
		if e.decide(st, Eq(yt, ConstBV(w, 0))) {
			abort("panic", "integer divide by zero")
		}
		var o string
		switch {
		case signed && op == token.QUO:
			o = "bvsdiv"
		case signed:
			o = "bvsrem"
		case op == token.QUO:
			o = "bvudiv"
		default:
			o = "bvurem"
		}
		return BvBin(o, xt, yt)
	case token.AND:
		return BvBin("bvand", xt, yt)
	case token.OR:
		return BvBin("bvor", xt, yt)
	case token.XOR:
		return BvBin("bvxor", xt, yt)
	case token.AND_NOT:
		return BvBin("bvand", xt, BvNot(yt))
	case token.SHL, token.SHR:
		cnt := yt
		if cnt.s.W < w {
			cnt = ZExt(cnt, w)
		} else if cnt.s.W > w {
			big := Not(Eq(Extract(cnt.s.W-1, w, cnt), ConstBV(cnt.s.W-w, 0)))
			cnt = Ite(big, ConstBV(w, uint64(w)), Extract(w-1, 0, cnt))
		}
		if op == token.SHL {
			return BvBin("bvshl", xt, cnt)
		}
		if signed {
			return BvBin("bvashr", xt, cnt)
		}
		return BvBin("bvlshr", xt, cnt)
	case token.EQL:
		return Eq(xt, yt)
	case token.NEQ:
		return Not(Eq(xt, yt))
	case token.LSS, token.LEQ, token.GTR, token.GEQ:
		a, b := xt, yt
		o := op
		if o == token.GTR {
			a, b, o = b, a, token.LSS
		} else if o == token.GEQ {
			a, b, o = b, a, token.LEQ
		}
		name := "bvu"
		if signed {
			name = "bvs"
		}
		if o == token.LSS {
			return BvCmp(name+"lt", a, b)
		}
		return BvCmp(name+"le", a, b)
	}
	abort("unsupported", "binop %s", op)
	return nil
}

func samePath(a, b []int) bool {
	if len(a) != len(b) {
		return false
	}
	for i := range a {
		if a[i] != b[i] {
			return false
		}
	}
	return true
}

func (e *Engine) valEq(st *State, x, y Val) *Term {
	switch a := x.(type) {
	case PtrVal:
		b, ok := y.(PtrVal)
		if !ok {
			return False
		}
		if a.sym != nil || b.sym != nil {
			abort("unsupported", "comparison of symbolic-index pointers")
		}
		return ConstBool(a.obj == b.obj && samePath(a.path, b.path))
	case MapVal:
		b, ok := y.(MapVal)
		if !ok {
			return False
		}
		return ConstBool(a.obj == b.obj)
	case IfaceVal:
		b, ok := y.(IfaceVal)
		if !ok {
			abort("unsupported", "valEq iface vs %T", y)
		}
		if a.t == nil || b.t == nil {
			return ConstBool(a.t == nil && b.t == nil)
		}
		if !types.Identical(a.t, b.t) {
			return False
		}
		return e.valEq(st, a.v, b.v)
	case *Term:
		b, ok := y.(*Term)
		if !ok {
			return False
		}
		if a.s.K == 'f' {
			return FpCmp("fp.eq", a, b)
		}
		return Eq(a, b)
	case StrVal:
		return strCmp(token.EQL, a, y.(StrVal))
	case SliceVal:
		b := y.(SliceVal)
		return ConstBool(a.obj == 0 && b.obj == 0)
	case FuncVal:
		b := y.(FuncVal)
		return ConstBool(a.fn == nil && b.fn == nil)
	case StructVal:
		b := y.(StructVal)
		r := True
		for i := range a.f {
			r = And(r, e.valEq(st, a.f[i], b.f[i]))
		}
		return r
	case ArrayVal:
		b := y.(ArrayVal)
		r := True
		for i := range a.e {
			r = And(r, e.valEq(st, a.e[i], b.e[i]))
		}
		return r
	case nil:
		return ConstBool(y == nil)
	}
	abort("unsupported", "valEq %T", x)
	return nil
}

func (e *Engine) convert(st *State, v Val, from, to types.Type) Val {
	switch x := v.(type) {
	case *Term:
		if tb, ok := to.Underlying().(*types.Basic); ok && tb.Info()&types.IsString != 0 {
			// string(rune)
			if !x.IsConst() {
				if e.decide(st, BvCmp("bvult", x, ConstBV(x.s.W, 0x80))) {
					return StrVal{[]*Term{Extract(7, 0, x)}}
				}
				abort("cut", "string(rune) of symbolic non-ASCII rune")
			}
			return constStr(string(rune(sext64(x.c, x.s.W))))
		}
		if isFloat32(to) && x.s.K == 'f' {
			// float32 values are kept as the float64 of the same value
			if isFloat32(from) {
				return x
			}
			if x.IsConst() {
				return ConstF64(float64(float32(math.Float64frombits(x.c))))
			}
			abort("cut", "float64->float32 conversion of a symbolic value is not modelled")
		}
		if isFloat(to) {
			if x.s.K == 'f' {
				return x
			}
			_, fs, _ := width(from)
			return FpFromInt(x, fs)
		}
		tw, _, ok := width(to)
		if !ok {
			break
		}
		if x.s.K == 'f' {
			if x.IsConst() {
				f := math.Float64frombits(x.c)
				return ConstBV(tw, uint64(int64(f)))
			}
			abort("unsupported", "float->int conversion of symbolic value")
		}
		_, fs, _ := width(from)
		if tw == x.s.W {
			return x
		}
		if tw < x.s.W {
			return Extract(tw-1, 0, x)
		}
		if fs {
			return SExt(x, tw)
		}
		return ZExt(x, tw)
	case PtrVal:
		return x // unsafe.Pointer conversions of pointers
	}
	abort("unsupported", "convert %T %s->%s", v, from, to)
	return nil
}

// ---------- running

func (e *Engine) newState() *State {
	n := 0
	return &State{dom: newLmap[*Term, *[4]uint64](), multi: newLmap[*Term, bool](), heap: newLmap[int, Val](), known: newLmap[*Term, bool](), globals: newLmap[string, int](), choices: newLmap[string, int](), nextObj: &n, unwind: map[*ssa.BasicBlock]int{}}
}

func (e *Engine) pushFrame(st *State, fn *ssa.Function, args []Val, bind []Val, retTo ssa.Value) *Frame {
	if len(fn.Blocks) == 0 {
		abort("unsupported", "no body: %s", fn)
	}
	if len(st.frames) > 400 {
		abort("unwind", "call depth limit at %s", fn)
	}
	e.funcs[fn.String()] = true
	fr := &Frame{fn: fn, blk: fn.Blocks[0], env: make(map[ssa.Value]Val, 16), retTo: retTo, owner: st}
	if len(args) != len(fn.Params) {
		panic(fmt.Sprintf("pushFrame %s: %d args for %d params", fn, len(args), len(fn.Params)))
	}
	for i, p := range fn.Params {
		fr.env[p] = args[i]
	}
	for i, fv := range fn.FreeVars {
		fr.env[fv] = bind[i]
	}
	st.frames = append(st.frames, fr)
	return fr
}

// explore runs all paths from st0 (depth-first) and reports each end.
func (e *Engine) explore(st0 *State, onEnd func(PathEnd)) {
	saved := e.work
	e.work = []*State{st0}
	for len(e.work) > 0 {
		st := e.work[len(e.work)-1]
		e.work = e.work[:len(e.work)-1]
		if time.Since(e.lastProgress) > 15*time.Second {
			if !e.lastProgress.IsZero() {
				fmt.Fprintf(os.Stderr, "progress: paths=%d forks=%d queue=%d queries=%d solver=%.1fs terms=%d steps=%d\n", e.nPaths, e.nForks, len(e.work), e.sol.nq, e.sol.dur.Seconds(), len(termList), e.nSteps)
			}
			e.lastProgress = time.Now()
		}
		if maxPaths > 0 && e.nPaths > maxPaths {
			e.rep.note("ABORTED", "VF_MAXPATHS reached")
			e.work = nil
			break
		}
		end := e.runPath(st)
		if end.kind != "infeasible" && end.kind != "forkall" {
			onEnd(end)
		}
	}
	e.work = saved
}

func (e *Engine) runPath(st *State) (end PathEnd) {
	defer func() {
		if r := recover(); r != nil {
			if pa, ok := r.(pathAbort); ok {
				end = pa.end
				end.st = st
				if end.kind == "unsupported" || end.kind == "panic" || end.kind == "unwind" {
					if len(st.frames) > 0 {
						fr := st.frames[len(st.frames)-1]
						end.msg += " @ " + fr.fn.String()
					}
				}
				return
			}
			if len(st.frames) > 0 {
				fr := st.frames[len(st.frames)-1]
				var ins string
				if fr.idx < len(fr.blk.Instrs) {
					ins = fr.blk.Instrs[fr.idx].String()
				}
				fmt.Fprintf(os.Stderr, "HOST PANIC at %s block %d instr %d: %s: %v\n", fr.fn, fr.blk.Index, fr.idx, ins, r)
				for i := len(st.frames) - 1; i >= 0 && i > len(st.frames)-12; i-- {
					fmt.Fprintf(os.Stderr, "   in %s\n", st.frames[i].fn)
				}
			}
			panic(r)
		}
	}()
	for {
		fr := st.top()
		in := fr.blk.Instrs[fr.idx]
		st.steps++
		e.nSteps++
		if st.steps > e.maxSteps {
			return PathEnd{kind: "unwind", msg: "step limit in " + fr.fn.String(), st: st}
		}
		if e.trace {
			fmt.Fprintf(os.Stderr, "  [%d] %s b%d.%d %s\n", len(st.frames), fr.fn.Name(), fr.blk.Index, fr.idx, in)
		}
		if e.exec(st, fr, in) {
			return PathEnd{kind: "return", st: st}
		}
	}
}

// runPending starts the oldest queued goroutine (lazy mode); when it returns,
// the current instruction of the caller is executed again.
func (e *Engine) runPending(st *State) bool {
	if len(st.pending) == 0 {
		return false
	}
	g := st.pending[0]
	st.pending = append([]pendingGo(nil), st.pending[1:]...)
	nf := e.pushFrame(st, g.fn.fn, g.args, g.fn.bind, nil)
	nf.resume = true
	return true
}

func (e *Engine) jump(fr *Frame, to *ssa.BasicBlock) {
	fr.prev = fr.blk
	fr.blk = to
	fr.idx = 0
}

func (e *Engine) ret(st *State, fr *Frame, v Val) bool {
	st.frames = st.frames[:len(st.frames)-1]
	if fr.onReturn != nil {
		fr.onReturn(e, st, v)
		if len(st.frames) == 0 && st.par != nil {
			return e.parThreadEnd(st)
		}
		return len(st.frames) == 0
	}
	if len(st.frames) == 0 {
		if st.par != nil {
			return e.parThreadEnd(st)
		}
		st.result = v
		return true
	}
	caller := st.top()
	if fr.retTo != nil {
		caller.env[fr.retTo] = v
	}
	if !fr.resume {
		caller.idx++
	}
	return false
}

func (e *Engine) setRes(fr *Frame, in ssa.Instruction, v Val) {
	if val, ok := in.(ssa.Value); ok {
		fr.env[val] = v
	}
}

func (e *Engine) sliceElems(st *State, x SliceVal) []Val {
	if x.obj == 0 || x.len == 0 {
		return nil
	}
	arr := st.hget(x.obj).(ArrayVal)
	return arr.e[x.off : x.off+x.len]
}

func (e *Engine) bytesToStr(st *State, x SliceVal) StrVal {
	els := e.sliceElems(st, x)
	bs := make([]*Term, len(els))
	for i, el := range els {
		bs[i] = el.(*Term)
	}
	return StrVal{bs}
}

func (e *Engine) newByteSlice(st *State, s StrVal) SliceVal {
	arr := make([]Val, len(s.b))
	for i, b := range s.b {
		arr[i] = b
	}
	id := st.alloc(ArrayVal{arr})
	return SliceVal{id, 0, len(arr), len(arr)}
}

func (e *Engine) exec(st *State, fr *Frame, in ssa.Instruction) bool {
	switch in := in.(type) {
	case *ssa.DebugRef:
	case *ssa.Phi:
		blk := fr.blk
		var vals []Val
		var phis []*ssa.Phi
		pi := -1
		for k, pred := range blk.Preds {
			if pred == fr.prev {
				pi = k
				break
			}
		}
		for _, i2 := range blk.Instrs {
			p, ok := i2.(*ssa.Phi)
			if !ok {
				break
			}
			vals = append(vals, e.get(st, fr, p.Edges[pi]))
			phis = append(phis, p)
		}
		for i, p := range phis {
			fr.env[p] = vals[i]
		}
		fr.idx += len(phis)
		return false
	case *ssa.BinOp:
		fr.env[in] = e.binop(st, in.Op, in.X.Type(), e.get(st, fr, in.X), e.get(st, fr, in.Y))
	case *ssa.UnOp:
		x := e.get(st, fr, in.X)
		switch in.Op {
		case token.NOT:
			fr.env[in] = Not(x.(*Term))
		case token.SUB:
			t := x.(*Term)
			if t.s.K == 'f' {
				fr.env[in] = FpNeg(t)
			} else {
				fr.env[in] = BvNeg(t)
			}
		case token.XOR:
			fr.env[in] = BvNot(x.(*Term))
		case token.MUL:
			v := e.loadPtr(st, x.(PtrVal))
			if b, ok := in.Type().Underlying().(*types.Basic); ok && b.Info()&types.IsString != 0 {
				if _, isSlice := v.(SliceVal); isSlice {
					abort("unsupported", "unsafe reinterpretation of a []byte as a string (memory shared between a string and a slice is not modelled)")
				}
			}
			fr.env[in] = v
		case token.ARROW:
			ch := x.(PtrVal)
			if ch.obj == 0 {
				abort("unsupported", "receive from a nil channel (blocks forever)")
			}
			co := st.hget(ch.obj).(ChanObj)
			var v Val
			ok := True
			if len(co.buf) > 0 {
				v = co.buf[0]
				co.buf = append([]Val(nil), co.buf[1:]...)
				st.heap.set(ch.obj, co)
			} else if co.closed {
				v = e.zero(in.X.Type().Underlying().(*types.Chan).Elem())
				ok = False
			} else if e.runPending(st) {
				return false // a queued goroutine runs first; the receive is retried
			} else {
				abort("unsupported", "channel receive that would block in the sequentialised goroutine model")
			}
			if in.CommaOk {
				fr.env[in] = TupleVal{[]Val{v, ok}}
			} else {
				fr.env[in] = v
			}
		default:
			abort("unsupported", "unop %s", in.Op)
		}
	case *ssa.If:
		c := e.get(st, fr, in.Cond).(*Term)
		if !c.IsConst() && !noIfConv {
			if _, ok := st.known.get(c); !ok {
				if _, ok2 := st.known.get(Not(c)); !ok2 && e.tryIfConvert(st, fr, c) {
					e.nIfConv++
					return false
				}
			}
		}
		if !c.IsConst() {
			if _, ok := st.known.get(c); !ok {
				st.unwind[fr.blk]++
				if st.unwind[fr.blk] > e.maxUnwind {
					abort("unwind", "unwinding bound %d at block %d", e.maxUnwind, fr.blk.Index)
				}
			}
		}
		if e.decide(st, c) {
			e.jump(fr, fr.blk.Succs[0])
		} else {
			e.jump(fr, fr.blk.Succs[1])
		}
		return false
	case *ssa.Jump:
		e.jump(fr, fr.blk.Succs[0])
		return false
	case *ssa.Return:
		var v Val
		switch len(in.Results) {
		case 0:
		case 1:
			v = e.get(st, fr, in.Results[0])
		default:
			t := TupleVal{}
			for _, r := range in.Results {
				t.v = append(t.v, e.get(st, fr, r))
			}
			v = t
		}
		return e.ret(st, fr, v)
	case *ssa.Call:
		return e.call(st, fr, in)
	case *ssa.Lookup:
		x := e.get(st, fr, in.X)
		if s, ok := x.(StrVal); ok {
			els := make([]Val, len(s.b))
			for i, b := range s.b {
				els[i] = b
			}
			fr.env[in] = e.elemAt(st, els, e.idxVal(st, fr, in.Index), "string index")
			break
		}
		mp := x.(MapVal)
		res, ok := e.mapLookup(st, mp, e.get(st, fr, in.Index))
		if !ok {
			res = e.zero(in.X.Type().Underlying().(*types.Map).Elem())
		}
		if in.CommaOk {
			fr.env[in] = TupleVal{[]Val{res, ConstBool(ok)}}
		} else {
			fr.env[in] = res
		}
	case *ssa.Slice:
		e.execSlice(st, fr, in)
	case *ssa.Alloc:
		t := in.Type().(*types.Pointer).Elem()
		id := st.alloc(e.zero(t))
		fr.env[in] = PtrVal{obj: id}
	case *ssa.Store:
		ap := e.get(st, fr, in.Addr).(PtrVal)
		if ap.sym != nil {
			e.storePtr(st, ap, e.get(st, fr, in.Val))
			break
		}
		if len(ap.path) == 1 && fr.fn.Name() == "init" && ap.obj != 0 {
			if arr, ok := st.hget(ap.obj).(ArrayVal); ok && len(arr.e) > 2000 {
				// table initialisers of the generated lexer/parser (llir/ll):
				// only the native parser needs them (see concolic.go)
				break
			}
		}
		e.storePtr(st, ap, e.get(st, fr, in.Val))
	case *ssa.MakeSlice:
		n := e.needInt(st, e.idxVal(st, fr, in.Len), "make len")
		c := e.needInt(st, e.idxVal(st, fr, in.Cap), "make cap")
		if n < 0 || c < n {
			abort("panic", "makeslice: len out of range")
		}
		if c > 1<<20 {
			abort("unsupported", "makeslice of %d elements", c)
		}
		el := in.Type().Underlying().(*types.Slice).Elem()
		arr := make([]Val, c)
		if c > 0 {
			z := e.zero(el)
			for i := range arr {
				arr[i] = z
			}
		}
		id := st.alloc(ArrayVal{arr})
		fr.env[in] = SliceVal{id, 0, n, c}
	case *ssa.IndexAddr:
		i0 := fr.idx
		e.execIndexAddr(st, fr, in)
		if fr.idx != i0 {
			return false
		}
	case *ssa.FieldAddr:
		x := e.get(st, fr, in.X).(PtrVal)
		if x.obj == 0 {
			abort("panic", "nil pointer dereference (field %d of %s)", in.Field, in.X.Type())
		}
		if x.sym != nil {
			abort("unsupported", "field address through a symbolic-index pointer")
		}
		fr.env[in] = PtrVal{obj: x.obj, path: append(append(make([]int, 0, len(x.path)+1), x.path...), in.Field)}
	case *ssa.Field:
		fr.env[in] = e.get(st, fr, in.X).(StructVal).f[in.Field]
	case *ssa.Index:
		x := e.get(st, fr, in.X)
		switch x := x.(type) {
		case ArrayVal:
			fr.env[in] = e.elemAt(st, x.e, e.idxVal(st, fr, in.Index), "array index")
		case StrVal:
			els := make([]Val, len(x.b))
			for i, b := range x.b {
				els[i] = b
			}
			fr.env[in] = e.elemAt(st, els, e.idxVal(st, fr, in.Index), "string index")
		default:
			abort("unsupported", "index %T", x)
		}
	case *ssa.Extract:
		fr.env[in] = e.get(st, fr, in.Tuple).(TupleVal).v[in.Index]
	case *ssa.Convert:
		x := e.get(st, fr, in.X)
		from, to := in.X.Type(), in.Type()
		_, toSlice := to.Underlying().(*types.Slice)
		_, fromSlice := from.Underlying().(*types.Slice)
		if s, ok := x.(StrVal); ok && toSlice {
			el := to.Underlying().(*types.Slice).Elem()
			if w, _, _ := width(el); w == 32 {
				// []rune(s): ASCII only
				arr := make([]Val, len(s.b))
				for i, b := range s.b {
					if !b.IsConst() || b.c >= 0x80 {
						abort("cut", "[]rune of symbolic/non-ASCII string")
					}
					arr[i] = ConstBV(32, b.c)
				}
				id := st.alloc(ArrayVal{arr})
				fr.env[in] = SliceVal{id, 0, len(arr), len(arr)}
			} else {
				fr.env[in] = e.newByteSlice(st, s)
			}
		} else if sl, ok := x.(SliceVal); ok && fromSlice {
			el := from.Underlying().(*types.Slice).Elem()
			if w, _, _ := width(el); w == 32 {
				var bs []*Term
				for _, r := range e.sliceElems(st, sl) {
					rt := r.(*Term)
					if !rt.IsConst() || rt.c >= 0x80 {
						abort("cut", "string([]rune) of symbolic/non-ASCII")
					}
					bs = append(bs, ConstBV(8, rt.c))
				}
				fr.env[in] = StrVal{bs}
			} else {
				fr.env[in] = e.bytesToStr(st, sl)
			}
		} else if s, ok := x.(StrVal); ok {
			fr.env[in] = s
		} else {
			fr.env[in] = e.convert(st, x, from, to)
		}
	case *ssa.ChangeType:
		fr.env[in] = e.get(st, fr, in.X)
	case *ssa.MakeInterface:
		fr.env[in] = IfaceVal{t: in.X.Type(), v: e.get(st, fr, in.X)}
	case *ssa.ChangeInterface:
		fr.env[in] = e.get(st, fr, in.X)
	case *ssa.TypeAssert:
		x := e.get(st, fr, in.X).(IfaceVal)
		ok := false
		ifc, isIface := in.AssertedType.Underlying().(*types.Interface)
		if x.t != nil {
			if isIface {
				ok = types.Implements(x.t, ifc)
			} else {
				ok = types.Identical(x.t, in.AssertedType)
			}
		}
		var res Val
		if ok {
			if isIface {
				res = x
			} else {
				res = x.v
			}
		} else {
			if !in.CommaOk {
				ts := "nil"
				if x.t != nil {
					ts = x.t.String()
				}
				abort("panic", "interface conversion: %s is not %s", ts, in.AssertedType)
			}
			res = e.zero(in.AssertedType)
		}
		if in.CommaOk {
			fr.env[in] = TupleVal{[]Val{res, ConstBool(ok)}}
		} else {
			fr.env[in] = res
		}
	case *ssa.MakeClosure:
		var b []Val
		for _, x := range in.Bindings {
			b = append(b, e.get(st, fr, x))
		}
		fr.env[in] = FuncVal{fn: in.Fn.(*ssa.Function), bind: b}
	case *ssa.Range:
		x := e.get(st, fr, in.X)
		switch x := x.(type) {
		case MapVal:
			it := IterVal{}
			if x.obj != 0 {
				mo := st.hget(x.obj).(MapObj)
				if st.log != nil {
					st.log.note(st, PtrVal{obj: x.obj}, false)
				}
				it.keys, it.vals = e.mapOrder(st, mo)
			}
			fr.env[in] = it
		case StrVal:
			it := IterVal{str: true}
			for _, b := range x.b {
				it.vals = append(it.vals, b)
			}
			fr.env[in] = it
		default:
			abort("unsupported", "range over %T", x)
		}
	case *ssa.Next:
		it := e.get(st, fr, in.Iter).(IterVal)
		tt := in.Type().(*types.Tuple)
		if it.str {
			if it.pos >= len(it.vals) {
				fr.env[in] = TupleVal{[]Val{False, ConstBV(64, 0), ConstBV(32, 0)}}
			} else {
				b := it.vals[it.pos].(*Term)
				if !e.decide(st, BvCmp("bvult", b, ConstBV(8, 0x80))) {
					abort("cut", "range over string: non-ASCII byte (UTF-8 decoding not modelled)")
				}
				fr.env[in] = TupleVal{[]Val{True, ConstBV(64, uint64(it.pos)), ZExt(b, 32)}}
				it.pos++
				fr.env[in.Iter] = it
			}
			break
		}
		if it.pos >= len(it.keys) {
			fr.env[in] = TupleVal{[]Val{False, e.zeroOrNil(tt.At(1).Type()), e.zeroOrNil(tt.At(2).Type())}}
		} else {
			fr.env[in] = TupleVal{[]Val{True, it.keys[it.pos], it.vals[it.pos]}}
			it.pos++
			fr.env[in.Iter] = it
		}
	case *ssa.MakeMap:
		fr.env[in] = MapVal{obj: st.alloc(MapObj{idx: map[string]int{}})}
	case *ssa.MapUpdate:
		mp := e.get(st, fr, in.Map).(MapVal)
		if mp.obj == 0 {
			abort("panic", "assignment to entry in nil map")
		}
		e.mapUpdate(st, mp, e.get(st, fr, in.Key), e.get(st, fr, in.Value))
	case *ssa.Panic:
		x := e.get(st, fr, in.X)
		abort("panic", "explicit panic: %s", e.describe(st, x))
	case *ssa.Defer:
		cc := in.Common()
		var args []Val
		for _, a := range cc.Args {
			args = append(args, e.get(st, fr, a))
		}
		d := deferred{args: args}
		if cc.IsInvoke() {
			recv := e.get(st, fr, cc.Value).(IfaceVal)
			if recv.t == nil {
				abort("panic", "defer on nil interface")
			}
			fn := e.lookupMethod(recv.t, cc.Method)
			d.fn = FuncVal{fn: fn}
			d.args = append([]Val{recv.v}, args...)
		} else if sf := cc.StaticCallee(); sf != nil {
			d.fn = FuncVal{fn: sf}
			if mc, ok := cc.Value.(*ssa.MakeClosure); ok {
				d.fn = e.get(st, fr, mc).(FuncVal)
			}
		} else {
			d.fn = e.get(st, fr, cc.Value).(FuncVal)
		}
		fr.defers = append(fr.defers, d)
	case *ssa.RunDefers:
		if n := len(fr.defers); n > 0 {
			d := fr.defers[n-1]
			name := d.fn.fn.String()
			if h, ok := e.intercept[name]; ok {
				// the deferred call is popped only after the model ran: a model
				// that forks re-executes this instruction in the forked state
				e.models[name]++
				h(e, st, fr, nil, d.args)
				fr.defers = fr.defers[:n-1]
				return false // re-run RunDefers
			}
			fr.defers = fr.defers[:n-1]
			target := d.fn.fn
			if rf, ok := e.redirect[name]; ok {
				e.models[name+" (Go-source model)"]++
				target = rf
			}
			nf := e.pushFrame(st, target, d.args, d.fn.bind, nil)
			nf.resume = true
			return false
		}
	case *ssa.SliceToArrayPointer:
		x := e.get(st, fr, in.X).(SliceVal)
		if x.off != 0 {
			abort("unsupported", "SliceToArrayPointer with offset")
		}
		fr.env[in] = PtrVal{obj: x.obj}
	case *ssa.MultiConvert:
		abort("unsupported", "MultiConvert")
	case *ssa.Go:
		// Sequentialised goroutines: the new goroutine runs to completion at the
		// point where it is spawned (one legal schedule when it does not wait for
		// anything a later statement of the spawner provides; a channel operation
		// or WaitGroup.Wait that would block ends the path as unsupported).
		e.models["go statement: the goroutine runs to completion where it is spawned (one legal schedule)"]++
		cc := in.Common()
		var args []Val
		for _, a := range cc.Args {
			args = append(args, e.get(st, fr, a))
		}
		var fv FuncVal
		if cc.IsInvoke() {
			recv := e.get(st, fr, cc.Value).(IfaceVal)
			if recv.t == nil {
				abort("panic", "go on nil interface")
			}
			fv = FuncVal{fn: e.lookupMethod(recv.t, cc.Method)}
			args = append([]Val{recv.v}, args...)
		} else if sf := cc.StaticCallee(); sf != nil {
			fv = FuncVal{fn: sf}
			if mc, ok := cc.Value.(*ssa.MakeClosure); ok {
				fv = e.get(st, fr, mc).(FuncVal)
			}
		} else {
			fv = e.get(st, fr, cc.Value).(FuncVal)
		}
		if fv.fn == nil || fv.native != nil {
			abort("unsupported", "go statement on a modelled function")
		}
		if _, ok := e.intercept[fv.fn.String()]; ok {
			abort("unsupported", "go statement on a modelled function")
		}
		if len(fv.fn.Blocks) == 0 && fv.fn.Pkg != nil {
			fv.fn.Pkg.Build()
		}
		if st.goLazy {
			// the other extreme schedule: the goroutine runs when the spawner
			// waits for it (WaitGroup.Wait, a receive that would block)
			st.pending = append(st.pending[:len(st.pending):len(st.pending)], pendingGo{fn: fv, args: args})
			break
		}
		e.pushFrame(st, fv.fn, args, fv.bind, nil)
		return false
	case *ssa.MakeChan:
		n := e.needInt(st, e.get(st, fr, in.Size), "channel size")
		fr.env[in] = PtrVal{obj: st.alloc(ChanObj{cap: n})}
	case *ssa.Send:
		ch := e.get(st, fr, in.Chan).(PtrVal)
		if ch.obj == 0 {
			abort("unsupported", "send on a nil channel (blocks forever)")
		}
		co := st.hget(ch.obj).(ChanObj)
		if co.closed {
			abort("panic", "send on closed channel")
		}
		if len(co.buf) >= co.cap {
			abort("unsupported", "channel send that would block in the sequentialised goroutine model")
		}
		co.buf = append(append([]Val(nil), co.buf...), e.get(st, fr, in.X))
		st.heap.set(ch.obj, co)
	default:
		abort("unsupported", "instr %T", in)
	}
	fr.idx++
	return false
}

func (e *Engine) zeroOrNil(t types.Type) Val {
	if b, ok := t.(*types.Basic); ok && b.Kind() == types.Invalid {
		return nil
	}
	return e.zero(t)
}

// loadPtr / storePtr handle pointers whose last index is symbolic.
func (e *Engine) loadPtr(st *State, p PtrVal) Val {
	if p.sym == nil {
		return e.load(st, p)
	}
	par := PtrVal{obj: p.obj, path: p.path[:len(p.path)-1]}
	arr := e.load(st, par).(ArrayVal)
	base := p.path[len(p.path)-1]
	r := arr.e[base+p.symN-1].(*Term)
	for i := p.symN - 2; i >= 0; i-- {
		r = Ite(Eq(p.sym, ConstBV(p.sym.s.W, uint64(i))), arr.e[base+i].(*Term), r)
	}
	return r
}
func (e *Engine) storePtr(st *State, p PtrVal, v Val) {
	if p.sym == nil {
		e.store(st, p, v)
		return
	}
	par := PtrVal{obj: p.obj, path: p.path[:len(p.path)-1]}
	arr := e.load(st, par).(ArrayVal)
	base := p.path[len(p.path)-1]
	ne := append([]Val(nil), arr.e...)
	vt := v.(*Term)
	for i := 0; i < p.symN; i++ {
		ne[base+i] = Ite(Eq(p.sym, ConstBV(p.sym.s.W, uint64(i))), vt, ne[base+i].(*Term))
	}
	e.store(st, par, ArrayVal{ne})
}

// scalarElems reports whether elems[lo:lo+n] are all scalar terms of one sort.
func scalarElems(elems []Val, lo, n int) bool {
	if n == 0 {
		return false
	}
	var s Sort
	for i := 0; i < n; i++ {
		t, ok := elems[lo+i].(*Term)
		if !ok {
			return false
		}
		if i == 0 {
			s = t.s
		} else if t.s != s {
			return false
		}
	}
	return true
}

func (e *Engine) execSlice(st *State, fr *Frame, in *ssa.Slice) {
	x := e.get(st, fr, in.X)
	lo, hi, mx := 0, -1, -1
	if in.Low != nil {
		lo = e.needInt(st, e.idxVal(st, fr, in.Low), "slice low")
	}
	if in.High != nil {
		hi = e.needInt(st, e.idxVal(st, fr, in.High), "slice high")
	}
	if in.Max != nil {
		mx = e.needInt(st, e.idxVal(st, fr, in.Max), "slice max")
	}
	switch x := x.(type) {
	case StrVal:
		if hi < 0 {
			hi = len(x.b)
		}
		if lo < 0 || hi > len(x.b) || lo > hi {
			abort("panic", "slice bounds out of range [%d:%d] with length %d", lo, hi, len(x.b))
		}
		fr.env[in] = StrVal{x.b[lo:hi:hi]}
	case SliceVal:
		if in.High == nil {
			hi = x.len
		}
		cp := x.cap
		if mx >= 0 {
			cp = mx
		}
		if lo < 0 || hi < 0 || hi > cp || cp > x.cap || lo > hi {
			abort("panic", "slice bounds out of range [%d:%d] with capacity %d", lo, hi, x.cap)
		}
		if x.obj == 0 {
			fr.env[in] = SliceVal{}
		} else {
			fr.env[in] = SliceVal{x.obj, x.off + lo, hi - lo, cp - lo}
		}
	case PtrVal:
		if x.obj == 0 {
			abort("panic", "slice of nil array pointer")
		}
		arr := e.load(st, x).(ArrayVal)
		if in.High == nil {
			hi = len(arr.e)
		}
		if lo < 0 || hi > len(arr.e) || lo > hi {
			abort("panic", "slice bounds out of range")
		}
		if len(x.path) != 0 {
			abort("unsupported", "slice of nested array")
		}
		fr.env[in] = SliceVal{x.obj, lo, hi - lo, len(arr.e) - lo}
	default:
		abort("unsupported", "slice of %T", x)
	}
}

func (e *Engine) execIndexAddr(st *State, fr *Frame, in *ssa.IndexAddr) {
	x := e.get(st, fr, in.X)
	idx := e.idxVal(st, fr, in.Index)
	switch x := x.(type) {
	case SliceVal:
		i, ok := concInt(idx)
		if !ok {
			it := idx.(*Term)
			inb := BvCmp("bvult", it, ConstBV(it.s.W, uint64(x.len)))
			if !e.decide(st, inb) {
				abort("panic", "index out of range (symbolic index, length %d)", x.len)
			}
			if arr, ok := st.hget(x.obj).(ArrayVal); ok && scalarElems(arr.e, x.off, x.len) {
				fr.env[in] = PtrVal{obj: x.obj, path: []int{x.off}, sym: it, symN: x.len}
				fr.idx++
				return
			}
			i = e.needInt(st, idx, "slice index")
		}
		if i < 0 || i >= x.len {
			abort("panic", "index out of range [%d] with length %d", i, x.len)
		}
		fr.env[in] = PtrVal{obj: x.obj, path: []int{x.off + i}}
	case PtrVal:
		if x.obj == 0 {
			abort("panic", "nil array pointer")
		}
		n := int(in.X.Type().Underlying().(*types.Pointer).Elem().Underlying().(*types.Array).Len())
		i, ok := concInt(idx)
		if !ok {
			it := idx.(*Term)
			inb := BvCmp("bvult", it, ConstBV(it.s.W, uint64(n)))
			if !e.decide(st, inb) {
				abort("panic", "array index out of range (symbolic)")
			}
			if arr, ok := e.load(st, x).(ArrayVal); ok && x.sym == nil && scalarElems(arr.e, 0, n) {
				fr.env[in] = PtrVal{obj: x.obj, path: append(append(make([]int, 0, len(x.path)+1), x.path...), 0), sym: it, symN: n}
				fr.idx++
				return
			}
			i = e.needInt(st, idx, "array index")
		}
		if i < 0 || i >= n {
			abort("panic", "array index out of range [%d] with length %d", i, n)
		}
		fr.env[in] = PtrVal{obj: x.obj, path: append(append(make([]int, 0, len(x.path)+1), x.path...), i)}
	default:
		abort("unsupported", "indexaddr %T", x)
	}
}

// ---------- maps

func (e *Engine) mapLookup(st *State, mp MapVal, k Val) (Val, bool) {
	if mp.obj == 0 {
		return nil, false
	}
	mo := st.hget(mp.obj).(MapObj)
	if st.log != nil {
		st.log.note(st, PtrVal{obj: mp.obj}, false)
	}
	if ck, ok := concKey(k); ok && len(mo.idx) == len(mo.keys) {
		if i, ok := mo.idx[ck]; ok {
			return mo.vals[i], true
		}
		return nil, false
	}
	for i := range mo.keys {
		if e.decide(st, e.valEq(st, mo.keys[i], k)) {
			return mo.vals[i], true
		}
	}
	return nil, false
}

func (e *Engine) mapUpdate(st *State, mp MapVal, k, v Val) {
	mo := st.hget(mp.obj).(MapObj)
	ck, conc := concKey(k)
	pos := -1
	if conc && len(mo.idx) == len(mo.keys) {
		if i, ok := mo.idx[ck]; ok {
			pos = i
		}
	} else {
		for i := range mo.keys {
			if e.decide(st, e.valEq(st, mo.keys[i], k)) {
				pos = i
				break
			}
		}
	}
	if pos >= 0 {
		nv := append([]Val(nil), mo.vals...)
		nv[pos] = v
		st.hset(mp.obj, MapObj{mo.keys, nv, mo.idx})
		return
	}
	// appending to slices shared with older versions is safe: older versions
	// never look beyond their own length.
	nk := append(mo.keys[:len(mo.keys):len(mo.keys)], k)
	nv := append(mo.vals[:len(mo.vals):len(mo.vals)], v)
	idx := mo.idx
	if conc {
		// copy-on-write of the index (small maps) / shared growth (large, concrete)
		ni := make(map[string]int, len(idx)+1)
		for a, b := range idx {
			ni[a] = b
		}
		ni[ck] = len(nk) - 1
		idx = ni
	}
	st.hset(mp.obj, MapObj{nk, nv, idx})
}

func (e *Engine) mapDelete(st *State, mp MapVal, k Val) {
	if mp.obj == 0 {
		return
	}
	mo := st.hget(mp.obj).(MapObj)
	for i := range mo.keys {
		if e.decide(st, e.valEq(st, mo.keys[i], k)) {
			nk := append(append([]Val(nil), mo.keys[:i]...), mo.keys[i+1:]...)
			nv := append(append([]Val(nil), mo.vals[:i]...), mo.vals[i+1:]...)
			idx := map[string]int{}
			for j, kk := range nk {
				if ck, ok := concKey(kk); ok {
					idx[ck] = j
				}
			}
			st.hset(mp.obj, MapObj{nk, nv, idx})
			return
		}
	}
}

// mapOrder returns the iteration order for a range over mo: insertion order
// by default (one legal Go order); other modes are selected by vfMapOrder.
func (e *Engine) mapOrder(st *State, mo MapObj) ([]Val, []Val) {
	n := len(mo.keys)
	switch st.mapMode {
	case 1: // reversed
		k := make([]Val, n)
		v := make([]Val, n)
		for i := range mo.keys {
			k[n-1-i], v[n-1-i] = mo.keys[i], mo.vals[i]
		}
		return k, v
	case 2: // rotated by one
		if n > 1 {
			k := append(append([]Val(nil), mo.keys[1:]...), mo.keys[0])
			v := append(append([]Val(nil), mo.vals[1:]...), mo.vals[0])
			return k, v
		}
	case 4: // all permutations at ONE range site (the st.mapSite-th), insertion order elsewhere
		if n > 1 {
			k := st.mapSiteCtr
			st.mapSiteCtr++
			if k == st.mapSite && n <= 4 {
				perms := permutations(n)
				site := fmt.Sprintf("maporder#%d", st.siteCtr)
				st.mapSiteCtr-- // undone for the clones' re-execution; redone below
				c := e.choose(st, site, len(perms))
				st.mapSiteCtr++
				st.siteCtr++
				p := perms[c]
				k2 := make([]Val, n)
				v2 := make([]Val, n)
				for i, j := range p {
					k2[i], v2[i] = mo.keys[j], mo.vals[j]
				}
				return k2, v2
			}
		}
	case 3: // every permutation (n <= 4), chosen by forking
		if n > 1 && n <= 4 {
			perms := permutations(n)
			site := fmt.Sprintf("maporder#%d", st.siteCtr)
			c := e.choose(st, site, len(perms))
			st.siteCtr++
			p := perms[c]
			k := make([]Val, n)
			v := make([]Val, n)
			for i, j := range p {
				k[i], v[i] = mo.keys[j], mo.vals[j]
			}
			return k, v
		}
	}
	return mo.keys, mo.vals
}

func permutations(n int) [][]int {
	var res [][]int
	var rec func(cur []int, used []bool)
	rec = func(cur []int, used []bool) {
		if len(cur) == n {
			res = append(res, append([]int(nil), cur...))
			return
		}
		for i := 0; i < n; i++ {
			if !used[i] {
				used[i] = true
				rec(append(cur, i), used)
				used[i] = false
			}
		}
	}
	rec(nil, make([]bool, n))
	return res
}

// choose forks the state over 0..n-1 (memoised by name on the path).
func (e *Engine) choose(st *State, name string, n int) int {
	if v, ok := st.choices.get(name); ok {
		return v
	}
	if n <= 0 {
		abort("infeasible", "")
	}
	for v := n - 1; v >= 1; v-- {
		c := st.clone()
		c.choices.set(name, v)
		e.work = append(e.work, c)
	}
	st.choices.set(name, 0)
	return 0
}

// ---------- calls

func (e *Engine) lookupMethod(t types.Type, m *types.Func) *ssa.Function {
	ms := e.prog.MethodSets.MethodSet(t)
	sel := ms.Lookup(m.Pkg(), m.Name())
	if sel == nil {
		abort("unsupported", "method %s not found on %s", m.Name(), t)
	}
	fn := e.prog.MethodValue(sel)
	if fn == nil {
		abort("unsupported", "abstract method %s on %s", m.Name(), t)
	}
	return fn
}

func (e *Engine) call(st *State, fr *Frame, in *ssa.Call) bool {
	cc := in.Common()
	args := make([]Val, 0, len(cc.Args)+1)
	for _, a := range cc.Args {
		args = append(args, e.get(st, fr, a))
	}
	if cc.IsInvoke() {
		recv := e.get(st, fr, cc.Value).(IfaceVal)
		if recv.t == nil {
			abort("panic", "nil interface: invoke of %s", cc.Method.Name())
		}
		if h := e.ifaceModel(recv, cc.Method.Name()); h != nil {
			fr.env[in] = h(e, st, fr, in, append([]Val{recv.v}, args...))
			fr.idx++
			return false
		}
		fn := e.lookupMethod(recv.t, cc.Method)
		return e.callFn(st, fr, in, fn, append([]Val{recv.v}, args...), nil)
	}
	switch callee := cc.Value.(type) {
	case *ssa.Builtin:
		fr.env[in] = e.builtin(st, fr, callee.Name(), cc, args)
		fr.idx++
		return false
	case *ssa.Function:
		return e.callFn(st, fr, in, callee, args, nil)
	default:
		fv := e.get(st, fr, cc.Value).(FuncVal)
		if fv.native != nil {
			fr.env[in] = fv.native(e, st, args)
			fr.idx++
			return false
		}
		if fv.fn == nil {
			abort("panic", "call of nil func")
		}
		return e.callFn(st, fr, in, fv.fn, args, fv.bind)
	}
}

func (e *Engine) callFn(st *State, fr *Frame, in *ssa.Call, callee *ssa.Function, args []Val, bind []Val) bool {
	name := callee.String()
	if callee.Name() == "init" && callee.Pkg != nil && callee.Parent() == nil && callee.Signature.Recv() == nil {
		if !e.initPkgs[callee.Pkg.Pkg.Path()] {
			fr.idx++
			return false
		}
	}
	if rf, ok := e.redirect[name]; ok {
		e.models[name+" (Go-source model)"]++
		e.pushFrame(st, rf, args, nil, in)
		return false
	}
	if h, ok := e.intercept[name]; ok {
		e.models[name]++
		v := h(e, st, fr, in, args)
		// an intercept may have pushed frames itself (returns errPushed)
		if v == pushedMarker {
			return false
		}
		if v == callReal {
			e.models[name]--
			if len(callee.Blocks) == 0 {
				abort("unsupported", "external function without body: %s", name)
			}
			e.pushFrame(st, callee, args, bind, in)
			return false
		}
		fr.env[in] = v
		fr.idx++
		return false
	}
	if short := callee.Name(); short == "vfPar" && callee.Signature.Recv() == nil {
		e.parStart(st, fr, args)
		return false
	}
	if short := callee.Name(); strings.HasPrefix(short, "vf") && callee.Signature.Recv() == nil {
		v := e.intrinsic(st, fr, in, short, args)
		fr.env[in] = v
		fr.idx++
		return false
	}
	if e.pure[name] {
		if v, ok := e.summarize(st, callee, args); ok {
			fr.env[in] = v
			fr.idx++
			return false
		}
	}
	if len(callee.Blocks) == 0 {
		if callee.Pkg != nil {
			callee.Pkg.Build()
		}
		if len(callee.Blocks) == 0 {
			abort("unsupported", "external function without model: %s", name)
		}
	}
	e.pushFrame(st, callee, args, bind, in)
	return false
}

type marker struct{ tag string }

var pushedMarker = &marker{"pushed"}
var callReal = &marker{"callreal"}

func (e *Engine) builtin(st *State, fr *Frame, name string, cc *ssa.CallCommon, args []Val) Val {
	switch name {
	case "ssa:wrapnilchk":
		if p, ok := args[0].(PtrVal); ok && p.obj == 0 {
			abort("panic", "nil receiver (wrapnilchk)")
		}
		return args[0]
	case "len":
		switch x := args[0].(type) {
		case StrVal:
			return ConstBV(64, uint64(len(x.b)))
		case SliceVal:
			return ConstBV(64, uint64(x.len))
		case ArrayVal:
			return ConstBV(64, uint64(len(x.e)))
		case MapVal:
			if x.obj == 0 {
				return ConstBV(64, 0)
			}
			return ConstBV(64, uint64(len(st.hget(x.obj).(MapObj).keys)))
		case PtrVal:
			if x.obj == 0 {
				return ConstBV(64, 0)
			}
			if co, ok := st.hget(x.obj).(ChanObj); ok && len(x.path) == 0 {
				return ConstBV(64, uint64(len(co.buf)))
			}
			if a, ok := e.load(st, x).(ArrayVal); ok {
				return ConstBV(64, uint64(len(a.e)))
			}
		}
	case "close":
		ch := args[0].(PtrVal)
		if ch.obj == 0 {
			abort("panic", "close of nil channel")
		}
		co := st.hget(ch.obj).(ChanObj)
		if co.closed {
			abort("panic", "close of closed channel")
		}
		co.closed = true
		st.heap.set(ch.obj, co)
		return nil
	case "cap":
		switch x := args[0].(type) {
		case PtrVal:
			if x.obj != 0 {
				if co, ok := st.hget(x.obj).(ChanObj); ok {
					return ConstBV(64, uint64(co.cap))
				}
			}
		case SliceVal:
			return ConstBV(64, uint64(x.cap))
		case ArrayVal:
			return ConstBV(64, uint64(len(x.e)))
		}
	case "append":
		sl := args[0].(SliceVal)
		var add []Val
		switch y := args[1].(type) {
		case SliceVal:
			add = e.sliceElems(st, y)
		case StrVal:
			for _, b := range y.b {
				add = append(add, b)
			}
		}
		if len(add) == 0 {
			return sl
		}
		if sl.obj != 0 && sl.len+len(add) <= sl.cap {
			arr := st.hget(sl.obj).(ArrayVal)
			ne := append([]Val(nil), arr.e...)
			copy(ne[sl.off+sl.len:], add)
			st.hset(sl.obj, ArrayVal{ne})
			return SliceVal{sl.obj, sl.off, sl.len + len(add), sl.cap}
		}
		cur := e.sliceElems(st, sl)
		nl := len(cur) + len(add)
		// capacity growth as in runtime.growslice (without the rounding up to
		// allocation size classes): spare capacity is what lets two slice headers
		// that share a backing array overwrite each other's appends
		nc := nl
		if oc := sl.cap; nl <= 2*oc {
			if oc < 256 {
				nc = 2 * oc
			} else {
				nc = oc + (oc+3*256)/4
			}
		}
		if nc < nl {
			nc = nl
		}
		ne := make([]Val, nc)
		copy(ne, cur)
		copy(ne[len(cur):], add)
		if nc > nl {
			z := e.zero(cc.Args[0].Type().Underlying().(*types.Slice).Elem())
			for i := nl; i < nc; i++ {
				ne[i] = z
			}
		}
		id := st.alloc(ArrayVal{ne})
		return SliceVal{id, 0, nl, nc}
	case "copy":
		dst := args[0].(SliceVal)
		var src []Val
		switch y := args[1].(type) {
		case SliceVal:
			src = e.sliceElems(st, y)
		case StrVal:
			for _, b := range y.b {
				src = append(src, b)
			}
		}
		n := len(src)
		if dst.len < n {
			n = dst.len
		}
		if n > 0 {
			arr := st.hget(dst.obj).(ArrayVal)
			ne := append([]Val(nil), arr.e...)
			copy(ne[dst.off:dst.off+n], append([]Val(nil), src[:n]...))
			st.hset(dst.obj, ArrayVal{ne})
		}
		return ConstBV(64, uint64(n))
	case "delete":
		e.mapDelete(st, args[0].(MapVal), args[1])
		return nil
	case "print", "println":
		return nil
	case "min", "max":
		r := args[0].(*Term)
		_, signed, _ := width(cc.Args[0].Type())
		for _, a := range args[1:] {
			at := a.(*Term)
			op := "bvult"
			if signed {
				op = "bvslt"
			}
			var c *Term
			if name == "min" {
				c = BvCmp(op, at, r)
			} else {
				c = BvCmp(op, r, at)
			}
			r = Ite(c, at, r)
		}
		return r
	case "recover":
		return IfaceVal{}
	}
	abort("unsupported", "builtin %s(%T)", name, args[0])
	return nil
}

// describe renders a value for messages (best effort).
func (e *Engine) describe(st *State, v Val) string {
	switch x := v.(type) {
	case IfaceVal:
		if x.t == nil {
			return "nil"
		}
		if s, ok := x.v.(StrVal); ok {
			if g, ok := s.goString(); ok {
				return g
			}
			return fmt.Sprintf("<string len %d>", len(s.b))
		}
		if p, ok := x.v.(PtrVal); ok && p.obj != 0 {
			if ov, ok := st.hget(p.obj).(OpaqueVal); ok {
				return ov.what
			}
		}
		return x.t.String()
	case StrVal:
		if g, ok := x.goString(); ok {
			return g
		}
	}
	return fmt.Sprintf("%T", v)
}

// summarize runs a pure callee on all its paths and merges the result.
func (e *Engine) summarize(st *State, fn *ssa.Function, args []Val) (Val, bool) {
	// Summaries are computed from an empty path condition, so that they are
	// valid in every context and can be cached by (function, arguments).
	key := fn.String()
	keyOK := true
	for _, a := range args {
		k, ok := symKey(a)
		if !ok {
			keyOK = false
			break
		}
		key += "|" + k
	}
	if keyOK {
		if v, ok := e.sumCache[key]; ok {
			return v.v, v.ok
		}
	}
	v, ok := e.summarize1(st, fn, args)
	if keyOK {
		if e.sumCache == nil {
			e.sumCache = map[string]sumEntry{}
		}
		e.sumCache[key] = sumEntry{v, ok}
	}
	return v, ok
}

type sumEntry struct {
	v  Val
	ok bool
}

// symKey is a structural key of a value built from scalars and strings
// (terms by identity).
func symKey(v Val) (string, bool) {
	switch x := v.(type) {
	case *Term:
		return fmt.Sprintf("t%d", x.id), true
	case StrVal:
		var sb strings.Builder
		sb.WriteString("s")
		for _, b := range x.b {
			fmt.Fprintf(&sb, "%d,", b.id)
		}
		return sb.String(), true
	}
	return "", false
}

func (e *Engine) summarize1(st *State, fn *ssa.Function, args []Val) (Val, bool) {
	sub := st.clone()
	sub.frames = nil
	sub.pc = nil
	sub.known = newLmap[*Term, bool]()
	sub.model = nil
	base := 0
	e.pushFrame(sub, fn, args, nil, nil)
	type res struct {
		cond *Term
		v    Val
	}
	var rs []res
	bad := false
	e.explore(sub, func(en PathEnd) {
		if en.kind != "return" {
			if en.kind == "panic" || en.kind == "unwind" || en.kind == "unsupported" {
				bad = true
				e.rep.note("summary-"+en.kind, en.msg)
			}
			return
		}
		rs = append(rs, res{AndN(en.st.pc[base:]), en.st.result})
		e.nPaths++
	})
	if bad {
		return nil, false
	}
	if len(rs) == 0 {
		abort("infeasible", "")
	}
	var out Val = rs[len(rs)-1].v
	for i := len(rs) - 2; i >= 0; i-- {
		m, ok := mergeVal(rs[i].cond, rs[i].v, out)
		if !ok {
			return nil, false
		}
		out = m
	}
	return out, true
}

func mergeVal(c *Term, a, b Val) (Val, bool) {
	switch x := a.(type) {
	case *Term:
		y, ok := b.(*Term)
		if !ok || x.s != y.s {
			return nil, false
		}
		return Ite(c, x, y), true
	case StrVal:
		y, ok := b.(StrVal)
		if !ok || len(x.b) != len(y.b) {
			return nil, false
		}
		r := make([]*Term, len(x.b))
		for i := range r {
			r[i] = Ite(c, x.b[i], y.b[i])
		}
		return StrVal{r}, true
	case TupleVal:
		y, ok := b.(TupleVal)
		if !ok || len(x.v) != len(y.v) {
			return nil, false
		}
		r := make([]Val, len(x.v))
		for i := range r {
			m, ok := mergeVal(c, x.v[i], y.v[i])
			if !ok {
				return nil, false
			}
			r[i] = m
		}
		return TupleVal{r}, true
	case nil:
		return nil, b == nil
	}
	return nil, false
}

var _ = big.NewInt

// ---------- byte-domain tracking (solver-free decisions on single bytes)

func single8(t *Term) *Term {
	fv := t.freeVars()
	if len(fv) != 1 {
		return nil
	}
	for v := range fv {
		if v.s.K == 'v' && v.s.W == 8 {
			return v
		}
	}
	return nil
}

// syncDomains folds the pc conjuncts added since the last call into the
// per-variable domains.
func (e *Engine) syncDomains(st *State) {
	for ; st.pcSeen < len(st.pc); st.pcSeen++ {
		c := st.pc[st.pcSeen]
		if x := single8(c); x != nil {
			cur, ok := st.dom.get(x)
			var nb [4]uint64
			if !ok {
				nb = [4]uint64{^uint64(0), ^uint64(0), ^uint64(0), ^uint64(0)}
			} else {
				nb = *cur
			}
			m := map[*Term]uint64{}
			for v := 0; v < 256; v++ {
				if nb[v>>6]&(1<<uint(v&63)) == 0 {
					continue
				}
				m[x] = uint64(v)
				r, ok := evalTerm(c, m, map[*Term]uint64{})
				if ok && r == 0 {
					nb[v>>6] &^= 1 << uint(v&63)
				}
			}
			st.dom.set(x, &nb)
			continue
		}
		fv := c.freeVars()
		if len(fv) > 1 {
			for v := range fv {
				st.multi.set(v, true)
			}
		} else {
			for v := range fv { // single variable of another sort: not tracked
				st.multi.set(v, true)
			}
		}
	}
}

// domainSides reports which truth values of c are possible over the
// feasible-value superset of its (single, 8-bit) variable, and whether that
// superset is exact (the variable occurs in no multi-variable conjunct).
func (e *Engine) domainSides(st *State, c *Term) (canT, canF, exact bool) {
	x := single8(c)
	if x == nil {
		return true, true, false
	}
	e.syncDomains(st)
	nb := [4]uint64{^uint64(0), ^uint64(0), ^uint64(0), ^uint64(0)}
	if cur, ok := st.dom.get(x); ok {
		nb = *cur
	}
	m := map[*Term]uint64{}
	for v := 0; v < 256; v++ {
		if nb[v>>6]&(1<<uint(v&63)) == 0 {
			continue
		}
		m[x] = uint64(v)
		r, ok := evalTerm(c, m, map[*Term]uint64{})
		if !ok {
			return true, true, false
		}
		if r == 1 {
			canT = true
		} else {
			canF = true
		}
		if canT && canF {
			break
		}
	}
	_, tied := st.multi.get(x)
	return canT, canF, !tied
}

// ---------- if-conversion
//
// A branch whose arm(s) consist only of pure, non-trapping scalar instructions
// and rejoin immediately (triangle / diamond, the shape of `if c { n++ }`,
// `a && b` on comparisons, conditional assignments) is executed on both arms
// and the phis of the join block become ite terms: no fork, no solver query.

func pureInstr(in ssa.Instruction) bool {
	switch x := in.(type) {
	case *ssa.BinOp:
		switch x.Op {
		case token.QUO, token.REM:
			return false
		case token.SHL, token.SHR:
			_, signed, _ := width(x.Y.Type())
			if signed {
				if _, isConst := x.Y.(*ssa.Const); !isConst {
					return false
				}
			}
		}
		if _, ok := x.X.Type().Underlying().(*types.Basic); !ok {
			return false
		}
		return true
	case *ssa.UnOp:
		return x.Op == token.NOT || x.Op == token.SUB || x.Op == token.XOR
	case *ssa.Convert:
		_, _, ok1 := width(x.X.Type())
		_, _, ok2 := width(x.Type())
		return ok1 && ok2
	case *ssa.ChangeType:
		_, ok := x.Type().Underlying().(*types.Basic)
		return ok
	case *ssa.DebugRef:
		return true
	}
	return false
}

// pureArm reports whether b is a pure block with the single predecessor from
// that jumps unconditionally, and returns its successor.
func pureArm(b, from *ssa.BasicBlock) (*ssa.BasicBlock, bool) {
	if len(b.Preds) != 1 || b.Preds[0] != from || len(b.Instrs) == 0 || len(b.Instrs) > 12 {
		return nil, false
	}
	if _, ok := b.Instrs[len(b.Instrs)-1].(*ssa.Jump); !ok {
		return nil, false
	}
	for _, in := range b.Instrs[:len(b.Instrs)-1] {
		if !pureInstr(in) {
			return nil, false
		}
	}
	return b.Succs[0], true
}

func predIndex(b, pred *ssa.BasicBlock) int {
	for i, p := range b.Preds {
		if p == pred {
			return i
		}
	}
	return -1
}

func (e *Engine) tryIfConvert(st *State, fr *Frame, c *Term) (ok bool) {
	blk := fr.blk
	T, F := blk.Succs[0], blk.Succs[1]
	if T == F {
		return false
	}
	var J *ssa.BasicBlock
	var predT, predF *ssa.BasicBlock // predecessors of J on the true / false side
	jt, okT := pureArm(T, blk)
	jf, okF := pureArm(F, blk)
	switch {
	case okT && okF && jt == jf:
		J, predT, predF = jt, T, F
	case okT && jt == F:
		J, predT, predF = F, T, blk
	case okF && jf == T:
		J, predT, predF = T, blk, F
	default:
		return false
	}
	if J == blk || J == T && predT != blk && false {
		return false
	}
	iT, iF := predIndex(J, predT), predIndex(J, predF)
	if iT < 0 || iF < 0 || iT == iF {
		return false
	}
	// J must not be reached twice from blk directly (switch-like duplicates)
	defer func() {
		if r := recover(); r != nil {
			if _, isAbort := r.(pathAbort); isAbort {
				ok = false // fall back to an ordinary fork
				return
			}
			panic(r)
		}
	}()
	run := func(b *ssa.BasicBlock) {
		for _, in := range b.Instrs[:len(b.Instrs)-1] {
			switch x := in.(type) {
			case *ssa.BinOp:
				fr.env[x] = e.binop(st, x.Op, x.X.Type(), e.get(st, fr, x.X), e.get(st, fr, x.Y))
			case *ssa.UnOp:
				v := e.get(st, fr, x.X).(*Term)
				switch x.Op {
				case token.NOT:
					fr.env[x] = Not(v)
				case token.SUB:
					if v.s.K == 'f' {
						fr.env[x] = FpNeg(v)
					} else {
						fr.env[x] = BvNeg(v)
					}
				default:
					fr.env[x] = BvNot(v)
				}
			case *ssa.Convert:
				fr.env[x] = e.convert(st, e.get(st, fr, x.X), x.X.Type(), x.Type())
			case *ssa.ChangeType:
				fr.env[x] = e.get(st, fr, x.X)
			}
		}
	}
	if predT != blk {
		run(predT)
	}
	if predF != blk {
		run(predF)
	}
	var phis []*ssa.Phi
	var vals []Val
	for _, in := range J.Instrs {
		p, isPhi := in.(*ssa.Phi)
		if !isPhi {
			break
		}
		vt, vf := e.get(st, fr, p.Edges[iT]), e.get(st, fr, p.Edges[iF])
		m, okm := mergeVal(c, vt, vf)
		if !okm {
			return false
		}
		phis = append(phis, p)
		vals = append(vals, m)
	}
	for i, p := range phis {
		fr.env[p] = vals[i]
	}
	fr.prev = predT
	fr.blk = J
	fr.idx = len(phis)
	return true
}
