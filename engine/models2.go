package main

// Further environment models: sync/atomic, more of math/big.Int and
// math/big.Float (concrete bridge).  Added after seeded changes introduced
// lock-free fast paths, sync.Map caches and big.Float.SetString.

import (
	"go/types"
	"math/big"
	"strconv"
	"strings"

	"golang.org/x/tools/go/ssa"
)

// atomicEvent records an atomic operation as an acquire followed by a release
// of a pseudo-mutex named after the location.  This over-approximates the
// happens-before edges atomics create (every later atomic operation on the
// location is ordered after it), which can only hide races, never invent one.
func (e *Engine) atomicEvent(st *State, p PtrVal) {
	if st.log == nil || st.thread == 0 {
		return
	}
	l := st.log
	key := "atomic:" + itoa(p.obj) + ":" + pathKey(p.path)
	l.seq++
	l.lockEvs = append(l.lockEvs, lockEv{thread: st.thread, seq: l.seq, key: key, acquire: true})
	l.seq++
	l.lockEvs = append(l.lockEvs, lockEv{thread: st.thread, seq: l.seq, key: key, acquire: false})
}

// atomicSched: an atomic operation is a scheduling point under vfPar (lock-free
// fast paths are decided by what the other goroutine did just before).
func (e *Engine) atomicSched(st *State) bool {
	par := st.par
	if par == nil {
		return false
	}
	if !par.skipAsk[par.cur] && e.parMayPreempt(st) {
		par.budget--
		par.skipAsk[par.cur] = true
		e.parSwitch(st)
		return true
	}
	par.skipAsk[par.cur] = false
	return false
}

func rawGet(st *State, p PtrVal) Val {
	if p.obj == 0 {
		abort("panic", "nil pointer dereference (atomic)")
	}
	return navGet(st.hget(p.obj), p.path)
}
func rawSet(st *State, p PtrVal, v Val) {
	st.heap.set(p.obj, navSet(st.hget(p.obj), p.path, v))
}

func registerModels2(e *Engine) {
	ic := e.intercept
	for _, ty := range []string{"Int32", "Int64", "Uint32", "Uint64", "Uintptr", "Pointer"} {
		ty := ty
		ic["sync/atomic.Load"+ty] = func(e *Engine, st *State, fr *Frame, in ssa.CallInstruction, a []Val) Val {
			if e.atomicSched(st) {
				return pushedMarker
			}
			p := a[0].(PtrVal)
			v := rawGet(st, p)
			e.atomicEvent(st, p)
			return v
		}
		ic["sync/atomic.Store"+ty] = func(e *Engine, st *State, fr *Frame, in ssa.CallInstruction, a []Val) Val {
			if e.atomicSched(st) {
				return pushedMarker
			}
			p := a[0].(PtrVal)
			rawGet(st, p)
			rawSet(st, p, a[1])
			e.atomicEvent(st, p)
			return nil
		}
		ic["sync/atomic.Swap"+ty] = func(e *Engine, st *State, fr *Frame, in ssa.CallInstruction, a []Val) Val {
			if e.atomicSched(st) {
				return pushedMarker
			}
			p := a[0].(PtrVal)
			old := rawGet(st, p)
			rawSet(st, p, a[1])
			e.atomicEvent(st, p)
			return old
		}
		ic["sync/atomic.CompareAndSwap"+ty] = func(e *Engine, st *State, fr *Frame, in ssa.CallInstruction, a []Val) Val {
			if e.atomicSched(st) {
				return pushedMarker
			}
			p := a[0].(PtrVal)
			cur := rawGet(st, p)
			same := e.decide(st, e.valEq(st, cur, a[1]))
			if same {
				rawSet(st, p, a[2])
			}
			e.atomicEvent(st, p)
			return ConstBool(same)
		}
		if ty != "Pointer" {
			ic["sync/atomic.Add"+ty] = func(e *Engine, st *State, fr *Frame, in ssa.CallInstruction, a []Val) Val {
				if e.atomicSched(st) {
					return pushedMarker
				}
				p := a[0].(PtrVal)
				cur := rawGet(st, p).(*Term)
				nv := BvBin("bvadd", cur, a[1].(*Term))
				rawSet(st, p, nv)
				e.atomicEvent(st, p)
				return nv
			}
			for _, op := range []string{"And", "Or"} {
				op := op
				ic["sync/atomic."+op+ty] = func(e *Engine, st *State, fr *Frame, in ssa.CallInstruction, a []Val) Val {
					if e.atomicSched(st) {
						return pushedMarker
					}
					p := a[0].(PtrVal)
					cur := rawGet(st, p).(*Term)
					o := "bvand"
					if op == "Or" {
						o = "bvor"
					}
					rawSet(st, p, BvBin(o, cur, a[1].(*Term)))
					e.atomicEvent(st, p)
					return cur
				}
			}
		}
	}

	// sync.WaitGroup in the sequentialised goroutine model: a counter (kept in the
	// struct's last field); Wait with a non-zero counter would block
	wgCtr := func(a Val) PtrVal {
		p := a.(PtrVal)
		if p.obj == 0 {
			abort("panic", "nil *sync.WaitGroup")
		}
		return PtrVal{obj: p.obj, path: append(append([]int(nil), p.path...), 2)}
	}
	wgAdd := func(e *Engine, st *State, a Val, d *Term) {
		f := wgCtr(a)
		cur := rawGet(st, f).(*Term)
		nv := BvBin("bvadd", cur, Extract(cur.s.W-1, 0, SExt(d, 64)))
		if nv.IsConst() && int32(nv.c) < 0 {
			abort("panic", "sync: negative WaitGroup counter")
		}
		rawSet(st, f, nv)
		e.atomicEvent(st, f)
	}
	ic["(*sync.WaitGroup).Add"] = func(e *Engine, st *State, fr *Frame, in ssa.CallInstruction, a []Val) Val {
		wgAdd(e, st, a[0], a[1].(*Term))
		return nil
	}
	ic["(*sync.WaitGroup).Done"] = func(e *Engine, st *State, fr *Frame, in ssa.CallInstruction, a []Val) Val {
		wgAdd(e, st, a[0], ConstBV(64, ^uint64(0)))
		return nil
	}
	ic["(*sync.WaitGroup).Wait"] = func(e *Engine, st *State, fr *Frame, in ssa.CallInstruction, a []Val) Val {
		f := wgCtr(a[0])
		cur := rawGet(st, f).(*Term)
		if !cur.IsConst() || cur.c != 0 {
			if e.runPending(st) {
				return pushedMarker // a queued goroutine runs first; Wait is retried
			}
			abort("unsupported", "WaitGroup.Wait that would block in the sequentialised goroutine model")
		}
		e.atomicEvent(st, f)
		return nil
	}
	ic["runtime.GOMAXPROCS"] = func(e *Engine, st *State, fr *Frame, in ssa.CallInstruction, a []Val) Val {
		return ConstBV(64, 16)
	}
	ic["runtime.NumCPU"] = ic["runtime.GOMAXPROCS"]
	ic["runtime.Gosched"] = func(e *Engine, st *State, fr *Frame, in ssa.CallInstruction, a []Val) Val { return nil }

	// atomic.Value: the stored interface value lives in the struct's first field
	avField := func(a Val) PtrVal {
		p := a.(PtrVal)
		if p.obj == 0 {
			abort("panic", "nil *atomic.Value")
		}
		return PtrVal{obj: p.obj, path: append(append([]int(nil), p.path...), 0)}
	}
	avGet := func(st *State, f PtrVal) Val {
		v := rawGet(st, f)
		if v == nil {
			return IfaceVal{}
		}
		return v
	}
	ic["(*sync/atomic.Value).Load"] = func(e *Engine, st *State, fr *Frame, in ssa.CallInstruction, a []Val) Val {
		if e.atomicSched(st) {
			return pushedMarker
		}
		f := avField(a[0])
		v := avGet(st, f)
		e.atomicEvent(st, f)
		return v
	}
	ic["(*sync/atomic.Value).Store"] = func(e *Engine, st *State, fr *Frame, in ssa.CallInstruction, a []Val) Val {
		if e.atomicSched(st) {
			return pushedMarker
		}
		if iv, ok := a[1].(IfaceVal); ok && iv.t == nil {
			abort("panic", "sync/atomic: store of nil value into Value")
		}
		f := avField(a[0])
		rawSet(st, f, a[1])
		e.atomicEvent(st, f)
		return nil
	}
	ic["(*sync/atomic.Value).Swap"] = func(e *Engine, st *State, fr *Frame, in ssa.CallInstruction, a []Val) Val {
		if e.atomicSched(st) {
			return pushedMarker
		}
		f := avField(a[0])
		old := avGet(st, f)
		rawSet(st, f, a[1])
		e.atomicEvent(st, f)
		return old
	}

	// ----- math/big.Int, further methods (192-bit two's complement model)
	zero := func() *Term { return bigConst(big.NewInt(0)) }
	abs := func(x *Term) *Term { return Ite(bigIsNeg(x), BvNeg(x), x) }
	ic["(*math/big.Int).Uint64"] = func(e *Engine, st *State, fr *Frame, in ssa.CallInstruction, a []Val) Val {
		return Extract(63, 0, abs(e.bigGet(st, a[0]))) // low 64 bits of |x|
	}
	ic["(*math/big.Int).BitLen"] = func(e *Engine, st *State, fr *Frame, in ssa.CallInstruction, a []Val) Val {
		xv := e.bigGetV(st, a[0])
		if c, ok := wideConst(xv.t); ok {
			return ConstBV(64, uint64(toSigned(c, bigW).BitLen()))
		}
		m := abs(xv.t)
		r := ConstBV(64, 0)
		hi := xv.bits
		if hi > bigW-1 {
			hi = bigW - 1
		}
		for i := 0; i <= hi; i++ {
			r = Ite(Eq(Extract(i, i, m), ConstBV(1, 1)), ConstBV(64, uint64(i+1)), r)
		}
		return r
	}
	// Bits: the little-endian 64-bit words of |x| without leading zero words;
	// the word count is decided by forking (0..3 words in the 192-bit model).
	// The result is a fresh slice (the real one aliases x; writing through it
	// is outside the model).
	ic["(*math/big.Int).Bits"] = func(e *Engine, st *State, fr *Frame, in ssa.CallInstruction, a []Val) Val {
		m := abs(e.bigGet(st, a[0]))
		n := bigW / 64
		for k := 0; k < bigW/64; k++ {
			if e.decide(st, BvCmp("bvult", m, bigConst(new(big.Int).Lsh(big.NewInt(1), uint(64*k))))) {
				n = k
				break
			}
		}
		arr := make([]Val, n)
		for i := 0; i < n; i++ {
			arr[i] = Extract(64*i+63, 64*i, m)
		}
		if n == 0 {
			return SliceVal{}
		}
		id := st.alloc(ArrayVal{arr})
		return SliceVal{id, 0, n, n}
	}
	ic["(*math/big.Int).Abs"] = func(e *Engine, st *State, fr *Frame, in ssa.CallInstruction, a []Val) Val {
		x := e.bigGetV(st, a[1])
		return e.bigSetV(st, a[0], abs(x.t), x.bits+1)
	}
	ic["(*math/big.Int).CmpAbs"] = func(e *Engine, st *State, fr *Frame, in ssa.CallInstruction, a []Val) Val {
		x, y := abs(e.bigGet(st, a[0])), abs(e.bigGet(st, a[1]))
		return Ite(BvCmp("bvult", x, y), ConstBV(64, ^uint64(0)), Ite(BvCmp("bvult", y, x), ConstBV(64, 1), ConstBV(64, 0)))
	}
	for name, op := range map[string]string{"And": "bvand", "Or": "bvor", "Xor": "bvxor"} {
		op := op
		ic["(*math/big.Int)."+name] = func(e *Engine, st *State, fr *Frame, in ssa.CallInstruction, a []Val) Val {
			x, y := e.bigGetV(st, a[1]), e.bigGetV(st, a[2])
			return e.bigSetV(st, a[0], BvBin(op, x.t, y.t), maxInt(x.bits, y.bits))
		}
	}
	ic["(*math/big.Int).Not"] = func(e *Engine, st *State, fr *Frame, in ssa.CallInstruction, a []Val) Val {
		x := e.bigGetV(st, a[1])
		return e.bigSetV(st, a[0], BvNot(x.t), x.bits+1)
	}
	ic["(*math/big.Int).Rsh"] = func(e *Engine, st *State, fr *Frame, in ssa.CallInstruction, a []Val) Val {
		x := e.bigGetV(st, a[1])
		n := e.needInt(st, a[2], "Rsh count")
		if n >= bigW {
			n = bigW - 1
		}
		return e.bigSetV(st, a[0], BvBin("bvashr", x.t, bigConst(big.NewInt(int64(n)))), x.bits)
	}
	ic["(*math/big.Int).SetBit"] = func(e *Engine, st *State, fr *Frame, in ssa.CallInstruction, a []Val) Val {
		x := e.bigGetV(st, a[1])
		i := e.needInt(st, a[2], "SetBit index")
		b := e.needInt(st, a[3], "SetBit value")
		if i < 0 || i > bigW-3 {
			abort("cut", "big.Int.SetBit beyond the model width")
		}
		mask := bigConst(new(big.Int).Lsh(big.NewInt(1), uint(i)))
		t := BvBin("bvor", x.t, mask)
		if b == 0 {
			t = BvBin("bvand", x.t, BvNot(mask))
		}
		return e.bigSetV(st, a[0], t, maxInt(x.bits, i+2))
	}
	ic["(*math/big.Int).TrailingZeroBits"] = func(e *Engine, st *State, fr *Frame, in ssa.CallInstruction, a []Val) Val {
		xv := e.bigGetV(st, a[0])
		m := abs(xv.t)
		r := ConstBV(64, 0)
		for i := bigW - 1; i >= 0; i-- {
			r = Ite(Eq(Extract(i, i, m), ConstBV(1, 1)), ConstBV(64, uint64(i)), r)
		}
		return r
	}
	// truncated (Quo/Rem) and Euclidean (Div/Mod) division
	divmod := func(name string) interceptFn {
		return func(e *Engine, st *State, fr *Frame, in ssa.CallInstruction, a []Val) Val {
			x, y := e.bigGetV(st, a[1]), e.bigGetV(st, a[2])
			if e.decide(st, Eq(y.t, zero())) {
				abort("panic", "division by zero")
			}
			q := BvBin("bvsdiv", x.t, y.t)
			r := BvBin("bvsrem", x.t, y.t)
			switch name {
			case "Quo":
				return e.bigSetV(st, a[0], q, x.bits+1)
			case "Rem":
				return e.bigSetV(st, a[0], r, maxInt(x.bits, y.bits))
			}
			// Euclidean: r >= 0
			rneg := bigIsNeg(r)
			ypos := Not(bigIsNeg(y.t))
			one := bigConst(big.NewInt(1))
			r2 := Ite(rneg, Ite(ypos, BvBin("bvadd", r, y.t), BvBin("bvsub", r, y.t)), r)
			q2 := Ite(rneg, Ite(ypos, BvBin("bvsub", q, one), BvBin("bvadd", q, one)), q)
			if name == "Div" {
				return e.bigSetV(st, a[0], q2, x.bits+1)
			}
			return e.bigSetV(st, a[0], r2, maxInt(x.bits, y.bits)+1)
		}
	}
	for _, n := range []string{"Quo", "Rem", "Div", "Mod"} {
		ic["(*math/big.Int)."+n] = divmod(n)
	}

	// ----- math/big.Float, concrete bridge for further methods
	conc := func(e *Engine, st *State, v Val) *big.Float {
		p, ok := v.(PtrVal)
		if !ok || p.obj == 0 {
			abort("panic", "nil *big.Float")
		}
		if _, fresh := st.hget(p.obj).(StructVal); fresh {
			return new(big.Float)
		}
		if x := e.concFloat(st, v); x != nil {
			return new(big.Float).Copy(x)
		}
		return nil
	}
	setc := func(st *State, p PtrVal, x *big.Float) Val {
		f64, _ := x.Float64()
		st.hset(p.obj, BigFloatVal{f: ConstF64(f64), prec: int(x.Prec()), conc: x})
		return p
	}
	cut := func(what string) { abort("cut", "%s with a symbolic argument is not modelled", what) }
	ic["(*math/big.Float).SetString"] = func(e *Engine, st *State, fr *Frame, in ssa.CallInstruction, a []Val) Val {
		z := conc(e, st, a[0])
		s, ok := a[1].(StrVal).goString()
		if z == nil || !ok {
			cut("big.Float.SetString")
		}
		if _, ok := z.SetString(s); !ok {
			return TupleVal{[]Val{PtrVal{}, False}}
		}
		return TupleVal{[]Val{setc(st, a[0].(PtrVal), z), True}}
	}
	ic["(*math/big.Float).Parse"] = func(e *Engine, st *State, fr *Frame, in ssa.CallInstruction, a []Val) Val {
		z := conc(e, st, a[0])
		s, ok := a[1].(StrVal).goString()
		base, ok2 := concInt(a[2])
		if z == nil || !ok || !ok2 {
			cut("big.Float.Parse")
		}
		_, b, err := z.Parse(s, base)
		if err != nil {
			return TupleVal{[]Val{PtrVal{}, ConstBV(64, 0), opaqueErrNamed(st, "big.Float.Parse: "+err.Error())}}
		}
		return TupleVal{[]Val{setc(st, a[0].(PtrVal), z), ConstBV(64, uint64(b)), IfaceVal{}}}
	}
	ic["(*math/big.Float).SetInf"] = func(e *Engine, st *State, fr *Frame, in ssa.CallInstruction, a []Val) Val {
		z := conc(e, st, a[0])
		neg, ok := a[1].(*Term)
		if z == nil || !ok || !neg.IsConst() {
			cut("big.Float.SetInf")
		}
		return setc(st, a[0].(PtrVal), z.SetInf(neg.IsTrue()))
	}
	ic["(*math/big.Float).SetMode"] = func(e *Engine, st *State, fr *Frame, in ssa.CallInstruction, a []Val) Val {
		z := conc(e, st, a[0])
		m, ok := concU(a[1])
		if z == nil || !ok {
			cut("big.Float.SetMode")
		}
		return setc(st, a[0].(PtrVal), z.SetMode(big.RoundingMode(m)))
	}
	ic["(*math/big.Float).SetInt64"] = func(e *Engine, st *State, fr *Frame, in ssa.CallInstruction, a []Val) Val {
		z := conc(e, st, a[0])
		x, ok := concU(a[1])
		if z == nil || !ok {
			cut("big.Float.SetInt64")
		}
		return setc(st, a[0].(PtrVal), z.SetInt64(int64(x)))
	}
	ic["(*math/big.Float).SetUint64"] = func(e *Engine, st *State, fr *Frame, in ssa.CallInstruction, a []Val) Val {
		z := conc(e, st, a[0])
		x, ok := concU(a[1])
		if z == nil || !ok {
			cut("big.Float.SetUint64")
		}
		return setc(st, a[0].(PtrVal), z.SetUint64(x))
	}
	un := func(name string, f func(z, x *big.Float) *big.Float) {
		ic["(*math/big.Float)."+name] = func(e *Engine, st *State, fr *Frame, in ssa.CallInstruction, a []Val) Val {
			z, x := conc(e, st, a[0]), conc(e, st, a[1])
			if z == nil || x == nil {
				cut("big.Float." + name)
			}
			return setc(st, a[0].(PtrVal), f(z, x))
		}
	}
	un("Neg", func(z, x *big.Float) *big.Float { return z.Neg(x) })
	un("Abs", func(z, x *big.Float) *big.Float { return z.Abs(x) })
	bin := func(name string, f func(z, x, y *big.Float) *big.Float) {
		ic["(*math/big.Float)."+name] = func(e *Engine, st *State, fr *Frame, in ssa.CallInstruction, a []Val) Val {
			z, x, y := conc(e, st, a[0]), conc(e, st, a[1]), conc(e, st, a[2])
			if z == nil || x == nil || y == nil {
				cut("big.Float." + name)
			}
			return setc(st, a[0].(PtrVal), f(z, x, y))
		}
	}
	bin("Add", func(z, x, y *big.Float) *big.Float { return z.Add(x, y) })
	bin("Sub", func(z, x, y *big.Float) *big.Float { return z.Sub(x, y) })
	bin("Mul", func(z, x, y *big.Float) *big.Float { return z.Mul(x, y) })
	bin("Quo", func(z, x, y *big.Float) *big.Float { return z.Quo(x, y) })
	ic["(*math/big.Float).Prec"] = func(e *Engine, st *State, fr *Frame, in ssa.CallInstruction, a []Val) Val {
		z := conc(e, st, a[0])
		if z == nil {
			return ConstBV(64, uint64(st.hget(a[0].(PtrVal).obj).(BigFloatVal).prec))
		}
		return ConstBV(64, uint64(z.Prec()))
	}
	ic["(*math/big.Float).MinPrec"] = func(e *Engine, st *State, fr *Frame, in ssa.CallInstruction, a []Val) Val {
		z := conc(e, st, a[0])
		if z == nil {
			cut("big.Float.MinPrec")
		}
		return ConstBV(64, uint64(z.MinPrec()))
	}
	ic["(*math/big.Float).Mode"] = func(e *Engine, st *State, fr *Frame, in ssa.CallInstruction, a []Val) Val {
		z := conc(e, st, a[0])
		if z == nil {
			return ConstBV(8, 0)
		}
		return ConstBV(8, uint64(z.Mode()))
	}
	ic["(*math/big.Float).Acc"] = func(e *Engine, st *State, fr *Frame, in ssa.CallInstruction, a []Val) Val {
		z := conc(e, st, a[0])
		if z == nil {
			cut("big.Float.Acc")
		}
		return ConstBV(8, uint64(uint8(int8(z.Acc()))))
	}
	ic["(*math/big.Float).IsInt"] = func(e *Engine, st *State, fr *Frame, in ssa.CallInstruction, a []Val) Val {
		z := conc(e, st, a[0])
		if z == nil {
			cut("big.Float.IsInt")
		}
		return ConstBool(z.IsInt())
	}
	ic["(*math/big.Float).MantExp"] = func(e *Engine, st *State, fr *Frame, in ssa.CallInstruction, a []Val) Val {
		x := conc(e, st, a[0])
		if x == nil {
			cut("big.Float.MantExp")
		}
		mp := a[1].(PtrVal)
		if mp.obj == 0 {
			return ConstBV(64, uint64(int64(x.MantExp(nil))))
		}
		m := conc(e, st, a[1])
		if m == nil {
			m = new(big.Float)
		}
		ex := x.MantExp(m)
		setc(st, mp, m)
		return ConstBV(64, uint64(int64(ex)))
	}
	ic["(*math/big.Float).SetMantExp"] = func(e *Engine, st *State, fr *Frame, in ssa.CallInstruction, a []Val) Val {
		z, m := conc(e, st, a[0]), conc(e, st, a[1])
		ex, ok := concInt(a[2])
		if z == nil || m == nil || !ok {
			cut("big.Float.SetMantExp")
		}
		return setc(st, a[0].(PtrVal), z.SetMantExp(m, ex))
	}
	// strconv.ParseFloat on a concrete literal runs natively (decimal to binary
	// conversion cannot be encoded); a symbolic literal ends the path as a cut.
	ic["strconv.ParseFloat"] = func(e *Engine, st *State, fr *Frame, in ssa.CallInstruction, a []Val) Val {
		str, ok := a[0].(StrVal).goString()
		bits, ok2 := concInt(a[1])
		if !ok || !ok2 {
			cut("strconv.ParseFloat")
		}
		f, err := strconv.ParseFloat(str, bits)
		res := ConstF64(f)
		if err == nil {
			return TupleVal{[]Val{res, IfaceVal{}}}
		}
		sentinel := "ErrSyntax"
		if ne, ok := err.(*strconv.NumError); ok && ne.Err == strconv.ErrRange {
			sentinel = "ErrRange"
		}
		sp := e.prog.ImportedPackage("strconv")
		nt := sp.Type("NumError").Type()
		z := e.zero(nt).(StructVal)
		z.f[0] = constStr("ParseFloat")
		z.f[1] = a[0]
		z.f[2] = e.load(st, e.globalPtr(st, sp.Var(sentinel)).(PtrVal))
		return TupleVal{[]Val{res, IfaceVal{t: types.NewPointer(nt), v: PtrVal{obj: st.alloc(z)}}}}
	}
	_ = strings.HasPrefix
}
