package main

// Harness intrinsics (functions whose name starts with "vf") and the
// bookkeeping of obligations, witnesses and counterexample candidates.

import (
	"encoding/hex"
	"fmt"
	"go/token"
	"math/big"
	"sort"
	"strings"

	"golang.org/x/tools/go/ssa"
)

type Obl struct {
	ID         string `json:"id"`
	Discharged int    `json:"discharged"`
	Failed     int    `json:"failed"`
	Unknown    int    `json:"unknown"`
	Trivial    int    `json:"trivial"` // condition was constant true
	KnownHits  int    `json:"known_hits"`
}

// Vector is a replay vector: concrete values for the inputs of one path.
type Vector struct {
	Entry   string            `json:"entry"`
	Pkg     string            `json:"pkg"`
	Expect  string            `json:"expect"` // assertion id expected to fail / "panic" / "" (witness)
	Kind    string            `json:"kind"`   // "violation" | "witness" | "known"
	KnownID string            `json:"known_id,omitempty"`
	Inputs  map[string]VecVal `json:"inputs"`
	Obs     map[string]string `json:"obs,omitempty"` // expected observations (hex / decimal)
	Reach   []string          `json:"reach,omitempty"`
	Msg     string            `json:"msg,omitempty"`
	Approx  bool              `json:"approx,omitempty"` // path used an over-approximating model: observations are not comparable
	MapDep  bool              `json:"map_order,omitempty"` // the path ran code under a non-default map iteration order (natively the order is random: the replay is repeated)
}
type VecVal struct {
	Kind string `json:"kind"`
	Hex  string `json:"hex,omitempty"` // str / bytes
	U    uint64 `json:"u,omitempty"`   // scalars (two's complement)
}

type Report struct {
	entry      string
	pkg        string
	obls       map[string]*Obl
	reachSeen  map[string]bool
	witnessed  map[string]bool
	notes      map[string]int
	ends       map[string]int
	vectors    []*Vector
	nCand      map[string]int
	bounds     map[string]string
	crossQ     []crossQuery
	crossSeen  map[string]int
	knownSeen  map[string]int
	maxCand    int
	nontrivial int
}

type crossQuery struct {
	id      string
	script  string
	verdict string
}

func newReport() *Report {
	return &Report{obls: map[string]*Obl{}, reachSeen: map[string]bool{}, witnessed: map[string]bool{}, notes: map[string]int{}, ends: map[string]int{}, nCand: map[string]int{}, bounds: map[string]string{}, crossSeen: map[string]int{}, knownSeen: map[string]int{}, maxCand: 2}
}

func (r *Report) note(kind, msg string) { r.notes[kind+": "+msg]++ }

func (r *Report) obl(id string) *Obl {
	o := r.obls[id]
	if o == nil {
		o = &Obl{ID: id}
		r.obls[id] = o
	}
	return o
}

func argStr(args []Val, i int) string {
	s, ok := args[i].(StrVal).goString()
	if !ok {
		panic("intrinsic: name argument must be constant")
	}
	return s
}

func (e *Engine) input(st *State, kind, name string, n int, ts []*Term) {
	for _, r := range st.inputs {
		if r.name == name && r.kind == kind {
			return
		}
	}
	st.inputs = append(st.inputs, inputRec{kind: kind, name: name, n: n, t: ts})
}

func (e *Engine) intrinsic(st *State, fr *Frame, in ssa.CallInstruction, name string, args []Val) Val {
	switch name {
	case "vfTier":
		return ConstBV(64, uint64(e.tier))
	case "vfLen": // (name, lo, hi) int: fork over lo..hi
		nm := argStr(args, 0)
		lo, hi := e.needInt(st, args[1], "lo"), e.needInt(st, args[2], "hi")
		e.rep.bounds[nm] = fmt.Sprintf("%d..%d", lo, hi)
		c := e.chooseSharded(st, nm, hi-lo+1)
		v := lo + c
		e.input(st, "len", nm, 0, []*Term{ConstBV(64, uint64(v))})
		return ConstBV(64, uint64(v))
	case "vfChoice": // (name, n) int: fork over 0..n-1
		nm := argStr(args, 0)
		n := e.needInt(st, args[1], "n")
		e.rep.bounds[nm] = fmt.Sprintf("choice of %d", n)
		c := e.chooseSharded(st, nm, n)
		e.input(st, "len", nm, 0, []*Term{ConstBV(64, uint64(c))})
		return ConstBV(64, uint64(c))
	case "vfString", "vfBytes":
		nm := argStr(args, 0)
		n := e.needInt(st, args[1], "n")
		b := make([]*Term, n)
		for i := range b {
			b[i] = Var(fmt.Sprintf("%s#%d", nm, i), BV(8))
		}
		if name == "vfString" {
			e.input(st, "str", nm, n, b)
			return StrVal{b}
		}
		e.input(st, "bytes", nm, n, b)
		return e.newByteSlice(st, StrVal{b})
	case "vfByte":
		t := Var(argStr(args, 0), BV(8))
		e.input(st, "byte", argStr(args, 0), 0, []*Term{t})
		return t
	case "vfUint64":
		t := Var(argStr(args, 0), BV(64))
		e.input(st, "u64", argStr(args, 0), 0, []*Term{t})
		return t
	case "vfInt64":
		t := Var(argStr(args, 0), BV(64))
		e.input(st, "i64", argStr(args, 0), 0, []*Term{t})
		return t
	case "vfInt":
		t := Var(argStr(args, 0), BV(64))
		e.input(st, "int", argStr(args, 0), 0, []*Term{t})
		return t
	case "vfUint32":
		t := Var(argStr(args, 0), BV(32))
		e.input(st, "u32", argStr(args, 0), 0, []*Term{t})
		return t
	case "vfBool":
		t := Var(argStr(args, 0), BoolS)
		e.input(st, "bool", argStr(args, 0), 0, []*Term{t})
		return t
	case "vfAnd":
		return And(args[0].(*Term), args[1].(*Term))
	case "vfOr":
		return Or(args[0].(*Term), args[1].(*Term))
	case "vfNot":
		return Not(args[0].(*Term))
	case "vfImp":
		return Imp(args[0].(*Term), args[1].(*Term))
	case "vfEqStr":
		return strCmp(token.EQL, args[0].(StrVal), args[1].(StrVal))
	case "vfAssume":
		e.assume(st, args[0].(*Term))
		return nil
	case "vfPanicOK":
		c := args[0].(*Term)
		st.panicOK = c.IsTrue()
		return nil
	case "vfMapOrder":
		st.mapMode = e.needInt(st, args[0], "map order mode")
		if st.mapMode != 0 {
			st.mapUsed = true
		}
		return nil
	case "vfGoMode": // 0: goroutines run where they are spawned; 1: when the spawner waits
		st.goLazy = e.needInt(st, args[0], "goroutine mode") == 1
		return nil
	case "vfMapOrderSite": // (site int): permute only that range-over-map site
		st.mapMode = 4
		st.mapUsed = true
		st.mapSite = e.needInt(st, args[0], "map site")
		st.mapSiteCtr = 0
		return nil
	case "vfMapSites": // number of range-over-map sites (>= 2 entries) seen since vfMapOrderSite
		return ConstBV(64, uint64(st.mapSiteCtr))
	case "vfTrackShared":
		st.trackShared = args[0].(*Term).IsTrue()
		st.sharedEpoch = e.baseEpoch
		return nil
	case "vfSharedWrites":
		if st.sharedWrites > 0 {
			e.rep.note("shared-write", strings.Join(st.sharedWhere, "; "))
		}
		return ConstBV(64, uint64(st.sharedWrites))
	case "vfHeapSnapshot":
		st.heap = st.heap.child()
		st.snap = st.heap.parent
		st.globals = st.globals.child()
		st.snapG = st.globals.parent
		st.log = &accessLog{epoch: *st.nextObj}
		return nil
	case "vfHeapRestore":
		if st.snap == nil {
			abort("unsupported", "vfHeapRestore without snapshot")
		}
		st.heap = st.snap.child()
		st.globals = st.snapG.child()
		return nil
	case "vfThreadBegin":
		st.thread = e.needInt(st, args[0], "thread id")
		if st.log == nil {
			st.log = &accessLog{epoch: *st.nextObj}
		}
		st.log.held = nil
		return nil
	case "vfThreadEnd":
		st.thread = 0
		return nil
	case "vfNoRace":
		if st.log == nil {
			return True
		}
		rs := st.log.races()
		for _, r := range rs {
			e.rep.note("data-race", r)
		}
		return ConstBool(len(rs) == 0)
	case "vfCut":
		abort("cut", "%s", argStr(args, 0))
	case "vfReach":
		id := argStr(args, 0)
		e.rep.reachSeen[id] = e.rep.reachSeen[id] || false
		for _, r := range st.reached {
			if r == id {
				return nil
			}
		}
		st.reached = append(st.reached, id)
		return nil
	case "vfObserveStr":
		st.obs = append(st.obs, obsRec{name: argStr(args, 0), kind: "str", v: args[1]})
		return nil
	case "vfObserveU64", "vfObserveInt", "vfObserveI64":
		st.obs = append(st.obs, obsRec{name: argStr(args, 0), kind: "u64", v: args[1]})
		return nil
	case "vfObserveBool":
		st.obs = append(st.obs, obsRec{name: argStr(args, 0), kind: "bool", v: args[1]})
		return nil
	case "vfKnown": // (id, cond)
		id := argStr(args, 0)
		kf := knownFinding(id)
		if kf == nil || kf.Status != "known" {
			return nil
		}
		if e.decide(st, args[1].(*Term)) {
			for _, k := range st.knownIn {
				if k == id {
					return nil
				}
			}
			st.knownIn = append(st.knownIn, id)
		}
		return nil
	case "vfAssert": // (id, cond)
		e.doAssert(st, argStr(args, 0), args[1].(*Term))
		return nil
	case "vfSame": // (a, b interface{}) bool : identity of pointers / equality of values
		return e.valEq(st, args[0], args[1])
	case "vfLog":
		return nil
	}
	if h, ok := extraIntrinsics[name]; ok {
		return h(e, st, fr, in, args)
	}
	abort("unsupported", "intrinsic %s", name)
	return nil
}

var extraIntrinsics = map[string]interceptFn{}

// chooseSharded is choose, except that the outermost forks of a harness are
// distributed over worker shards.
func (e *Engine) chooseSharded(st *State, name string, n int) int {
	if v, ok := st.choices.get(name); ok {
		return v
	}
	if n <= 0 {
		abort("infeasible", "")
	}
	if e.shardN > 1 && !st.sharded {
		// the outermost fork of an entry is distributed over the shard workers
		first := true
		for v := n - 1; v >= 0; v-- {
			if v%e.shardN != e.shardI {
				continue
			}
			c := st.clone()
			c.sharded = true
			c.choices.set(name, v)
			e.work = append(e.work, c)
			first = false
		}
		_ = first
		abort("forkall", "")
	}
	return e.choose(st, name, n)
}

func (e *Engine) inKnownRegion(st *State, assertID string) *Finding {
	for _, k := range st.knownIn {
		kf := knownFinding(k)
		if kf == nil {
			continue
		}
		for _, o := range kf.Obligations {
			if o == assertID || (strings.HasSuffix(o, "*") && strings.HasPrefix(assertID, strings.TrimSuffix(o, "*"))) {
				return kf
			}
		}
	}
	return nil
}

func (e *Engine) doAssert(st *State, id string, c *Term) {
	o := e.rep.obl(id)
	if c.IsTrue() {
		o.Trivial++
		return
	}
	if v, ok := st.known.get(c); ok && v {
		o.Discharged++
		return
	}
	st.asserts++
	neg := Not(c)
	r := e.sol.Check(st.pc, neg)
	e.recordCross(id, st.pc, neg, r)
	switch r {
	case "unsat":
		o.Discharged++
		e.sol.Done()
		st.known.set(c, true)
		return
	case "sat":
		kf := e.inKnownRegion(st, id)
		key := id
		if kf != nil {
			key = "known:" + kf.ID + ":" + id
			o.KnownHits++
		} else {
			o.Failed++
		}
		if e.rep.nCand[key] < e.rep.maxCand {
			e.rep.nCand[key]++
			v := e.buildVector(st, id)
			if kf != nil {
				v.Kind = "known"
				v.KnownID = kf.ID
			} else {
				v.Kind = "violation"
			}
			e.rep.vectors = append(e.rep.vectors, v)
		}
		e.sol.Done()
		// the path continues unconstrained, so that later obligations on it are
		// still examined for the inputs that violate this one
	default:
		o.Unknown++
		e.sol.Done()
	}
}

// buildVector extracts the values of the path's inputs from the current
// solver model (call between a sat Check and Done).
func (e *Engine) buildVector(st *State, expect string) *Vector {
	v := &Vector{Entry: e.rep.entry, Pkg: e.rep.pkg, Expect: expect, Inputs: map[string]VecVal{}, Reach: append([]string(nil), st.reached...), Approx: st.approx, MapDep: st.mapUsed}
	var ts []*Term
	for _, in := range st.inputs {
		for _, t := range in.t {
			if !t.IsConst() {
				ts = append(ts, t)
			}
		}
	}
	var obsT []*Term
	for _, ob := range st.obs {
		switch x := ob.v.(type) {
		case *Term:
			if !x.IsConst() {
				obsT = append(obsT, x)
			}
		case StrVal:
			for _, b := range x.b {
				if !b.IsConst() {
					obsT = append(obsT, b)
				}
			}
		}
	}
	m, mi := e.sol.Values(append(ts, obsT...))
	val := func(t *Term) uint64 {
		if t.IsConst() {
			return t.c
		}
		return m[t]
	}
	for _, in := range st.inputs {
		switch in.kind {
		case "str", "bytes":
			b := make([]byte, len(in.t))
			for i, t := range in.t {
				b[i] = byte(val(t))
			}
			v.Inputs[in.name] = VecVal{Kind: in.kind, Hex: hex.EncodeToString(b)}
		default:
			v.Inputs[in.name] = VecVal{Kind: in.kind, U: val(in.t[0])}
		}
	}
	if len(st.obs) > 0 {
		v.Obs = map[string]string{}
		for _, ob := range st.obs {
			switch x := ob.v.(type) {
			case *Term:
				if x.s.K == 'i' {
					if x.IsConst() {
						v.Obs[ob.name] = x.bi.String()
					} else if bi, ok := mi[x]; ok && bi != nil {
						v.Obs[ob.name] = bi.String()
					}
				} else {
					v.Obs[ob.name] = fmt.Sprintf("%d", val(x))
				}
			case StrVal:
				b := make([]byte, len(x.b))
				for i, t := range x.b {
					b[i] = byte(val(t))
				}
				v.Obs[ob.name] = "x" + hex.EncodeToString(b)
			}
		}
	}
	return v
}

// pathEnded is called for every explored path end of a harness entry.
func (e *Engine) pathEnded(en PathEnd) {
	st := en.st
	r := e.rep
	e.nPaths++
	if st.asserts > 0 {
		r.nontrivial++
	}
	switch en.kind {
	case "return":
		r.ends["return"]++
	case "cut":
		r.ends["cut: "+en.msg]++
	case "panic":
		if st.panicOK {
			r.ends["panic (allowed by harness): "+trimMsg(en.msg)]++
			break
		}
		r.ends["panic: "+trimMsg(en.msg)]++
		id := e.propOfEntry() + ".nopanic"
		o := r.obl(id)
		res := e.sol.Check(st.pc, nil)
		if res == "sat" {
			kf := e.inKnownRegion(st, id)
			key := id + "|" + trimMsg(en.msg)
			if kf != nil {
				key = "known:" + kf.ID + ":" + key
				o.KnownHits++
			} else {
				o.Failed++
			}
			if r.nCand[key] < r.maxCand {
				r.nCand[key]++
				v := e.buildVector(st, "panic")
				v.Msg = en.msg
				v.Kind = "violation"
				if kf != nil {
					v.Kind = "known"
					v.KnownID = kf.ID
				}
				r.vectors = append(r.vectors, v)
			}
		} else if res != "unsat" {
			o.Unknown++
		}
		e.sol.Done()
		return
	case "unwind":
		r.ends["UNWIND: "+en.msg]++
		return
	case "unsupported":
		r.ends["UNSUPPORTED: "+en.msg]++
		return
	}
	// reach witnesses: first path through each vfReach id
	need := false
	for _, id := range st.reached {
		if !r.witnessed[id] {
			need = true
		}
	}
	if need && (en.kind == "return" || en.kind == "cut") {
		if res := e.sol.Check(st.pc, nil); res == "sat" {
			v := e.buildVector(st, "")
			v.Kind = "witness"
			r.vectors = append(r.vectors, v)
			for _, id := range st.reached {
				r.witnessed[id] = true
			}
		}
		e.sol.Done()
	}
}

func trimMsg(s string) string {
	if len(s) > 160 {
		return s[:160]
	}
	return s
}

func (e *Engine) propOfEntry() string {
	// entry names are Vf<Prop>_<name>
	n := strings.TrimPrefix(e.rep.entry, "Vf")
	if i := strings.IndexByte(n, '_'); i > 0 {
		return n[:i]
	}
	return n
}

func (e *Engine) recordCross(id string, pc []*Term, extra *Term, verdict string) {
	n := e.rep.crossSeen[id]
	e.rep.crossSeen[id] = n + 1
	// quick: one query per obligation id, first shard only; thorough: three
	limit := 1
	if e.tier > 0 {
		limit = 3
	} else if e.shardI != 0 {
		limit = 0
	}
	if n >= limit {
		return
	}
	e.rep.crossQ = append(e.rep.crossQ, crossQuery{id: id, script: Standalone(pc, extra), verdict: verdict})
}

func sortedObls(m map[string]*Obl) []*Obl {
	var ks []string
	for k := range m {
		ks = append(ks, k)
	}
	sort.Strings(ks)
	var out []*Obl
	for _, k := range ks {
		out = append(out, m[k])
	}
	return out
}

var _ = big.NewInt
