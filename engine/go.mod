module verif/engine

go 1.23

require (
	github.com/llir/ll v0.0.0-20220802205332-9207a04d0275
	github.com/mewmew/float v0.0.0-20201204173432-505706aa38fa
	golang.org/x/tools v0.29.0
)

require (
	golang.org/x/mod v0.22.0 // indirect
	golang.org/x/sync v0.10.0 // indirect
)
