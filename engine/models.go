package main

// Environment models that cannot be written as Go source: byte search as one
// ite-chain, opaque errors, math bit casts, mutex state, math/big as SMT Int,
// strings.Builder's unsafe bits.  Every entry hit is listed in evidence.

import (
	"fmt"
	"go/token"
	"go/types"
	"math"
	"math/big"

	"golang.org/x/tools/go/ssa"
)

var opaqueErrT types.Type

func init() {
	tn := types.NewTypeName(token.NoPos, nil, "vfOpaqueError", nil)
	named := types.NewNamed(tn, types.NewStruct(nil, nil), nil)
	sig := types.NewSignatureType(types.NewVar(token.NoPos, nil, "e", named), nil, nil, nil,
		types.NewTuple(types.NewVar(token.NoPos, nil, "", types.Typ[types.String])), false)
	named.AddMethod(types.NewFunc(token.NoPos, nil, "Error", sig))
	opaqueErrT = named
}

// opaque errors are distinct objects (pointer identity)
func opaqueErrNamed(st *State, what string) Val {
	return IfaceVal{t: opaqueErrT, v: PtrVal{obj: st.alloc(OpaqueVal{what})}}
}

// ifaceModel handles invokes on model-typed dynamic values.
func (e *Engine) ifaceModel(recv IfaceVal, method string) interceptFn {
	if recv.t == opaqueErrT {
		switch method {
		case "Error":
			return func(e *Engine, st *State, fr *Frame, in ssa.CallInstruction, a []Val) Val {
				return constStr("<error>")
			}
		}
		return func(e *Engine, st *State, fr *Frame, in ssa.CallInstruction, a []Val) Val {
			abort("unsupported", "method %s on opaque error", method)
			return nil
		}
	}
	return nil
}

func callResultType(in ssa.CallInstruction) types.Type {
	if in == nil {
		return nil
	}
	return in.Common().Signature().Results()
}

func (e *Engine) zeroResult(st *State, in ssa.CallInstruction) Val {
	if in == nil {
		return nil
	}
	res := in.Common().Signature().Results()
	switch res.Len() {
	case 0:
		return nil
	case 1:
		t := res.At(0).Type()
		if p, ok := t.(*types.Pointer); ok {
			if _, isS := p.Elem().Underlying().(*types.Struct); isS {
				return PtrVal{obj: st.alloc(e.zero(p.Elem()))}
			}
		}
		return e.zero(t)
	}
	tv := TupleVal{}
	for i := 0; i < res.Len(); i++ {
		tv.v = append(tv.v, e.zero(res.At(i).Type()))
	}
	return tv
}

func registerModels(e *Engine) {
	ic := e.intercept
	ic["strings.IndexByte"] = func(e *Engine, st *State, fr *Frame, in ssa.CallInstruction, a []Val) Val {
		s := a[0].(StrVal)
		c := a[1].(*Term)
		r := ConstBV(64, ^uint64(0))
		for i := len(s.b) - 1; i >= 0; i-- {
			r = Ite(Eq(s.b[i], c), ConstBV(64, uint64(i)), r)
		}
		return r
	}
	ic["internal/bytealg.IndexByteString"] = ic["strings.IndexByte"]
	ic["internal/stringslite.IndexByte"] = ic["strings.IndexByte"]
	ic["strings.IndexRune"] = func(e *Engine, st *State, fr *Frame, in ssa.CallInstruction, a []Val) Val {
		s := a[0].(StrVal)
		c := a[1].(*Term) // rune; ASCII runes only
		if !c.IsConst() || c.c >= 0x80 {
			abort("cut", "strings.IndexRune with non-ASCII/symbolic rune")
		}
		r := ConstBV(64, ^uint64(0))
		for i := len(s.b) - 1; i >= 0; i-- {
			r = Ite(Eq(s.b[i], ConstBV(8, c.c)), ConstBV(64, uint64(i)), r)
		}
		return r
	}
	ic["strings.ContainsRune"] = func(e *Engine, st *State, fr *Frame, in ssa.CallInstruction, a []Val) Val {
		s := a[0].(StrVal)
		c := a[1].(*Term)
		r := False
		for _, b := range s.b {
			r = Or(r, Eq(ZExt(b, 32), c))
		}
		return r
	}
	ic["strings.ContainsAny"] = func(e *Engine, st *State, fr *Frame, in ssa.CallInstruction, a []Val) Val {
		s := a[0].(StrVal)
		cs := a[1].(StrVal)
		r := False
		for _, b := range s.b {
			for _, c := range cs.b {
				r = Or(r, Eq(b, c))
			}
		}
		return r
	}
	ic["internal/stringslite.Clone"] = func(e *Engine, st *State, fr *Frame, in ssa.CallInstruction, a []Val) Val { return a[0] }
	ic["strings.Clone"] = ic["internal/stringslite.Clone"]
	ic["strconv.cloneString"] = ic["internal/stringslite.Clone"]

	zeroRes := func(e *Engine, st *State, fr *Frame, in ssa.CallInstruction, a []Val) Val {
		return e.zeroResult(st, in)
	}
	for _, n := range []string{"log.New", "(*log.Logger).Println", "(*log.Logger).Printf", "(*log.Logger).Print", "log.Printf", "log.Println", "log.Print", "time.Now", "time.Since", "(*log.Logger).SetPrefix", "(*log.Logger).SetFlags", "os.Getenv"} {
		ic[n] = zeroRes
	}
	errf := func(e *Engine, st *State, fr *Frame, in ssa.CallInstruction, a []Val) Val {
		return opaqueErrNamed(st, "error")
	}
	for _, n := range []string{"github.com/pkg/errors.Errorf", "github.com/pkg/errors.New", "fmt.Errorf", "errors.New"} {
		ic[n] = errf
	}
	wrap := func(e *Engine, st *State, fr *Frame, in ssa.CallInstruction, a []Val) Val {
		if a[0].(IfaceVal).t == nil {
			return IfaceVal{}
		}
		return a[0]
	}
	for _, n := range []string{"github.com/pkg/errors.WithStack", "github.com/pkg/errors.Wrapf", "github.com/pkg/errors.Wrap", "github.com/pkg/errors.WithMessage", "github.com/pkg/errors.Cause"} {
		ic[n] = wrap
	}

	// strings.Builder: real WriteString/Write/WriteByte/Len; unsafe parts here
	ic["(*strings.Builder).copyCheck"] = func(e *Engine, st *State, fr *Frame, in ssa.CallInstruction, a []Val) Val { return nil }
	ic["(*strings.Builder).String"] = func(e *Engine, st *State, fr *Frame, in ssa.CallInstruction, a []Val) Val {
		b := e.load(st, a[0].(PtrVal)).(StructVal)
		return e.bytesToStr(st, b.f[1].(SliceVal))
	}
	ic["(*strings.Builder).Grow"] = func(e *Engine, st *State, fr *Frame, in ssa.CallInstruction, a []Val) Val { return nil }
	ic["(*bytes.Buffer).String"] = nil
	delete(ic, "(*bytes.Buffer).String")

	// sync.Mutex: lock state in the struct's first field; events for L4
	mutexKey := func(p PtrVal) string { return itoa(p.obj) + ":" + pathKey(p.path) }
	holds := func(hs []string, k string) bool {
		for _, h := range hs {
			if h == k {
				return true
			}
		}
		return false
	}
	ic["(*sync.Mutex).Lock"] = func(e *Engine, st *State, fr *Frame, in ssa.CallInstruction, a []Val) Val {
		p := a[0].(PtrVal)
		if p.obj == 0 {
			abort("panic", "nil mutex")
		}
		sp := PtrVal{obj: p.obj, path: append(append([]int(nil), p.path...), 0)}
		cur := navGet(st.hget(sp.obj), sp.path)
		if t, ok := cur.(*Term); ok && t.IsConst() && t.c != 0 {
			if par := st.par; par != nil && !holds(st.log.held, mutexKey(p)) {
				// held by the other thread: this thread blocks, the other runs
				if par.done[1-par.cur] || par.blocked[1-par.cur] {
					abort("panic", "deadlock: both goroutines blocked")
				}
				par.blocked[par.cur] = true
				e.parSwitch(st)
				return pushedMarker
			}
			if st.log != nil && st.log.onLockBlocked != nil {
				st.log.onLockBlocked(st, p)
				return nil
			}
			abort("panic", "deadlock: Lock of a held mutex")
		}
		if par := st.par; par != nil {
			if !par.skipAsk[par.cur] && e.parMayPreempt(st) {
				par.budget--
				par.skipAsk[par.cur] = true
				e.parSwitch(st)
				return pushedMarker
			}
			par.skipAsk[par.cur] = false
			par.blocked[par.cur] = false
		}
		if st.log != nil {
			st.log.lockEvent(st, p, true)
		}
		// the mutex word itself is not an ordinary memory access
		st.heap.set(sp.obj, navSet(st.hget(sp.obj), sp.path, ConstBV(cur.(*Term).s.W, 1)))
		return nil
	}
	// TryLock: fails when the mutex is held; inside a modelled goroutine it may
	// also fail because the other goroutine can hold the mutex at that moment
	// (forked), which is how "skip the work when contended" code paths are seen.
	// Under vfPar the other goroutine really runs, so TryLock is exact there.
	ic["(*sync.Mutex).TryLock"] = func(e *Engine, st *State, fr *Frame, in ssa.CallInstruction, a []Val) Val {
		p := a[0].(PtrVal)
		if p.obj == 0 {
			abort("panic", "nil mutex")
		}
		sp := PtrVal{obj: p.obj, path: append(append([]int(nil), p.path...), 0)}
		if par := st.par; par != nil {
			if !par.skipAsk[par.cur] && e.parMayPreempt(st) {
				par.budget--
				par.skipAsk[par.cur] = true
				e.parSwitch(st)
				return pushedMarker
			}
			par.skipAsk[par.cur] = false
		}
		cur := navGet(st.hget(sp.obj), sp.path)
		if t, ok := cur.(*Term); ok && t.IsConst() && t.c != 0 {
			return False
		}
		if st.thread != 0 && st.par == nil {
			site := fmt.Sprintf("trylock#%d", st.siteCtr)
			c := e.choose(st, site, 2)
			st.siteCtr++
			if c == 1 {
				return False
			}
		}
		if st.log != nil {
			st.log.lockEvent(st, p, true)
		}
		st.heap.set(sp.obj, navSet(st.hget(sp.obj), sp.path, ConstBV(cur.(*Term).s.W, 1)))
		return True
	}
	ic["(*sync.Mutex).Unlock"] = func(e *Engine, st *State, fr *Frame, in ssa.CallInstruction, a []Val) Val {
		p := a[0].(PtrVal)
		sp := PtrVal{obj: p.obj, path: append(append([]int(nil), p.path...), 0)}
		// the scheduling decision comes first: a forked state re-executes this call
		if st.par != nil {
			st.par.blocked[1-st.par.cur] = false // a waiting goroutine may retry
		}
		preempt := st.par != nil && e.parMayPreempt(st)
		cur := navGet(st.hget(sp.obj), sp.path)
		if t, ok := cur.(*Term); ok && t.IsConst() && t.c == 0 {
			abort("panic", "sync: unlock of unlocked mutex")
		}
		st.heap.set(sp.obj, navSet(st.hget(sp.obj), sp.path, ConstBV(cur.(*Term).s.W, 0)))
		if st.log != nil {
			st.log.lockEvent(st, p, false)
		}
		if preempt {
			st.par.budget--
			e.parSwitch(st)
		}
		return nil
	}

	// sync.RWMutex: writers use the embedded Mutex w (field 0); readers are
	// modelled as holders of the same lock (read/read pairs never conflict in
	// the race analysis; a write under RLock against a read under RLock is not
	// reported - stated limitation of L4)
	wOf := func(a Val) Val {
		p := a.(PtrVal)
		if p.obj == 0 {
			abort("panic", "nil RWMutex")
		}
		return PtrVal{obj: p.obj, path: append(append([]int(nil), p.path...), 0)}
	}
	for _, nm := range []string{"Lock", "RLock"} {
		ic["(*sync.RWMutex)."+nm] = func(e *Engine, st *State, fr *Frame, in ssa.CallInstruction, a []Val) Val {
			return ic["(*sync.Mutex).Lock"](e, st, fr, in, []Val{wOf(a[0])})
		}
	}
	for _, nm := range []string{"Unlock", "RUnlock"} {
		ic["(*sync.RWMutex)."+nm] = func(e *Engine, st *State, fr *Frame, in ssa.CallInstruction, a []Val) Val {
			return ic["(*sync.Mutex).Unlock"](e, st, fr, in, []Val{wOf(a[0])})
		}
	}
	for _, nm := range []string{"TryLock", "TryRLock"} {
		ic["(*sync.RWMutex)."+nm] = func(e *Engine, st *State, fr *Frame, in ssa.CallInstruction, a []Val) Val {
			return ic["(*sync.Mutex).TryLock"](e, st, fr, in, []Val{wOf(a[0])})
		}
	}

	// math bit casts
	ic["math.Float64bits"] = func(e *Engine, st *State, fr *Frame, in ssa.CallInstruction, a []Val) Val {
		f := a[0].(*Term)
		if f.IsConst() {
			return ConstBV(64, f.c)
		}
		if f.op == "fp.frombits" {
			return f.args[0]
		}
		b := Fresh("f64bits", BV(64))
		e.assume(st, Eq(FpFromBits(b), f))
		return b
	}
	ic["math.Float64frombits"] = func(e *Engine, st *State, fr *Frame, in ssa.CallInstruction, a []Val) Val {
		return FpFromBits(a[0].(*Term))
	}
	ic["math.IsNaN"] = func(e *Engine, st *State, fr *Frame, in ssa.CallInstruction, a []Val) Val {
		return FpPred("fp.isNaN", a[0].(*Term))
	}
	ic["math.IsInf"] = func(e *Engine, st *State, fr *Frame, in ssa.CallInstruction, a []Val) Val {
		f := a[0].(*Term)
		sg := e.needInt(st, a[1], "IsInf sign")
		inf := FpPred("fp.isInfinite", f)
		switch {
		case sg > 0:
			return And(inf, Not(FpPred("fp.isNegative", f)))
		case sg < 0:
			return And(inf, FpPred("fp.isNegative", f))
		}
		return inf
	}

	// The hex/decimal entropy heuristic of constant.Int.Ident only selects the
	// notation; it is over-approximated by an unconstrained value in (0, 1], so
	// both notations are explored for every value (DESIGN.md C09).  Its own
	// crash-freedom is checked by a separate small-width harness that calls
	// intEntropy directly.
	// (Implemented as a fork over two representative constants rather than an
	// unconstrained float, which keeps floating-point terms out of the queries:
	// hex 0.05 / decimal 1.0 makes Ident choose u0x, hex 0.99 makes it choose
	// decimal, whatever the digit count.)
	ic["github.com/llir/llvm/ir/constant.hexEntropy"] = func(e *Engine, st *State, fr *Frame, in ssa.CallInstruction, a []Val) Val {
		// the heuristic is a function of the value: a value that provably equals
		// one seen earlier on this path gets the same answer
		x := e.bigGet(st, a[0])
		for _, m := range st.entropy {
			if m.t == x {
				return ConstF64(m.f)
			}
		}
		for _, m := range st.entropy {
			if r := e.sol.Check(st.pc, Not(Eq(m.t, x))); r == "unsat" {
				e.sol.Done()
				return ConstF64(m.f)
			}
			e.sol.Done()
		}
		site := fmt.Sprintf("entropy#%d", st.siteCtr)
		c := e.choose(st, site, 2)
		st.siteCtr++
		st.approx = true
		f := 0.05
		if c != 0 {
			f = 0.99
		}
		st.entropy = append(st.entropy[:len(st.entropy):len(st.entropy)], entropyMemo{x, f})
		return ConstF64(f)
		if c == 0 {
			return ConstF64(0.05)
		}
		return ConstF64(0.99)
	}
	ic["github.com/llir/llvm/ir/constant.decimalEntropy"] = func(e *Engine, st *State, fr *Frame, in ssa.CallInstruction, a []Val) Val {
		return ConstF64(1.0)
	}
	// strconv.ParseUint on long symbolic strings: the real code classifies each
	// byte with a three-way switch (2^n paths for n hex digits); for strings of
	// more than 6 bytes in base 10/16 it is replaced by a model that forks only
	// on valid / invalid / out of range.  Short strings run the real SSA.
	ic["strconv.ParseUint"] = func(e *Engine, st *State, fr *Frame, in ssa.CallInstruction, a []Val) Val {
		s := a[0].(StrVal)
		base, okb := concInt(a[1])
		bits, okz := concInt(a[2])
		symbolic := false
		for _, b := range s.b {
			if !b.IsConst() {
				symbolic = true
			}
		}
		if !symbolic || len(s.b) <= 6 || !okb || !okz || (base != 10 && base != 16) {
			return callReal // run the real function
		}
		if bits == 0 {
			bits = 64
		}
		e.models["strconv.ParseUint (model for symbolic strings longer than 6 bytes, base 10/16)"]++
		// a real *strconv.NumError (callers type-assert it), Err = the sentinel
		numErr := func(sentinel string) Val {
			sp := e.prog.ImportedPackage("strconv")
			nt := sp.Type("NumError").Type()
			z := e.zero(nt).(StructVal)
			z.f[0] = constStr("ParseUint")
			z.f[1] = s
			z.f[2] = e.load(st, e.globalPtr(st, sp.Var(sentinel)).(PtrVal))
			return IfaceVal{t: types.NewPointer(nt), v: PtrVal{obj: st.alloc(z)}}
		}
		errRes := func(kind string) Val {
			return TupleVal{[]Val{ConstBV(64, 0), numErr("ErrSyntax")}}
		}
		valid := True
		const W = 160
		sum := ConstBVBig(W, big.NewInt(0))
		for _, ch := range s.b {
			dv, ok := digitVal(ch, base)
			valid = And(valid, ok)
			sum = BvBin("bvadd", BvBin("bvmul", sum, ConstBVBig(W, big.NewInt(int64(base)))), ZExt(dv, W))
		}
		if len(s.b) > 36 {
			abort("cut", "strconv.ParseUint model: more than 36 digits")
		}
		if !e.decide(st, valid) {
			return errRes("invalid syntax")
		}
		lim := new(big.Int).Lsh(big.NewInt(1), uint(bits))
		if !e.decide(st, BvCmp("bvult", sum, ConstBVBig(W, lim))) {
			return TupleVal{[]Val{ConstBV(64, mask(bits)), numErr("ErrRange")}}
		}
		return TupleVal{[]Val{Extract(63, 0, sum), IfaceVal{}}}
	}
	registerBig(e)
}

// ---------- math/big.Int as a wide two's-complement bit-vector
//
// A *big.Int is modelled as a signed bit-vector of bigW bits together with a
// static bound on its magnitude in bits; an operation whose result could need
// more than bigW-2 bits ends the path as a stated cut (never wraps silently).
// Everything stays in the bit-vector theory, which the solver bit-blasts.

const bigW = 192

func bigConst(v *big.Int) *Term { return ConstBVBig(bigW, v) }

func (e *Engine) bigGetV(st *State, v Val) BigIntVal {
	p := v.(PtrVal)
	if p.obj == 0 {
		abort("panic", "nil *big.Int")
	}
	if len(p.path) != 0 {
		abort("unsupported", "big.Int embedded in a struct")
	}
	switch x := st.hget(p.obj).(type) {
	case BigIntVal:
		return x
	case StructVal:
		return BigIntVal{t: bigConst(big.NewInt(0)), bits: 1}
	}
	abort("unsupported", "big.Int object of unexpected shape")
	return BigIntVal{}
}

func (e *Engine) bigGet(st *State, v Val) *Term { return e.bigGetV(st, v).t }

func (e *Engine) bigSetV(st *State, v Val, t *Term, bits int) Val {
	p := v.(PtrVal)
	if p.obj == 0 {
		abort("panic", "nil *big.Int")
	}
	if len(p.path) != 0 {
		abort("unsupported", "big.Int embedded in a struct")
	}
	if bits > bigW-2 {
		abort("cut", "big.Int value may exceed the %d-bit model width", bigW)
	}
	if x, ok := wideConst(t); ok {
		bits = toSigned(x, bigW).BitLen() + 1
	}
	st.hset(p.obj, BigIntVal{t: t, bits: bits})
	return p
}

func pow(base int64, k int) *big.Int {
	return new(big.Int).Exp(big.NewInt(base), big.NewInt(int64(k)), nil)
}

func bitsFor(base, digits int) int {
	return pow(int64(base), digits).BitLen() + 1
}

const maxBigDigits = 48

func bigIsNeg(t *Term) *Term { return BvCmp("bvslt", t, bigConst(big.NewInt(0))) }

// bigText renders v in the given base: forks on sign and digit count; for
// base 16 the digits are nibbles of |v|, for other bases fresh digit bytes
// tied to |v| by a defining constraint (unique solution).
func (e *Engine) bigText(st *State, bv BigIntVal, base int) StrVal {
	v := bv.t
	if x, ok := wideConst(v); ok {
		return constStr(toSigned(x, bigW).Text(base))
	}
	neg := e.decide(st, bigIsNeg(v))
	abs := v
	if neg {
		abs = BvNeg(v)
	}
	n := 0
	for k := 1; k <= maxBigDigits; k++ {
		lim := pow(int64(base), k)
		if lim.BitLen() > bigW-2 {
			break
		}
		if e.decide(st, BvCmp("bvult", abs, bigConst(lim))) {
			n = k
			break
		}
	}
	if n == 0 {
		abort("cut", "big.Int.Text: more than %d digits", maxBigDigits)
	}
	const digitChars = "0123456789abcdefghijklmnopqrstuvwxyz"
	var out []*Term
	if neg {
		out = append(out, ConstBV(8, '-'))
	}
	digs := make([]*Term, n) // digs[0] most significant, 8-bit values
	if base == 16 {
		for i := 0; i < n; i++ {
			lo := 4 * (n - 1 - i)
			digs[i] = ZExt(Extract(lo+3, lo, abs), 8)
		}
	} else if bitsFor(base, n) > 25 {
		// Wide values: the decimal digits are over-approximated by fresh bytes
		// constrained only to be digits (leading digit non-zero); the link to v
		// is kept through the SetString(Text(v)) = v axiom below.  Sound for
		// "holds" verdicts; a counterexample that depends on the digit values
		// fails to replay natively and is reported as inconclusive.
		e.models["big.Int.Text: digits of values of more than 7 decimal digits are abstract (only parse(print(v)) = v is kept)"]++
		st.approx = true
		c := True
		for i := 0; i < n; i++ {
			d := Var(fmt.Sprintf("dig!%d!%d!%d!%d", abs.id, base, n, i), BV(8))
			digs[i] = d
			c = And(c, BvCmp("bvult", d, ConstBV(8, uint64(base))))
			if i == 0 && n > 1 {
				c = And(c, Not(Eq(d, ConstBV(8, 0))))
			}
		}
		e.assumeDef(st, c)
	} else {
		// functional digit extraction in the narrowest sufficient width:
		// q0 = |v|, q(i+1) = q(i) / base, digit(i) = q(i) - base*q(i+1)
		nw := bitsFor(base, n) + 1
		if nw < 8 {
			nw = 8
		}
		if nw > bigW {
			nw = bigW
		}
		q := Extract(nw-1, 0, abs)
		bc := ConstBVBig(nw, big.NewInt(int64(base)))
		for i := n - 1; i >= 0; i-- {
			qn := BvBin("bvudiv", q, bc)
			d := BvBin("bvsub", q, BvBin("bvmul", qn, bc))
			digs[i] = Extract(7, 0, d)
			q = qn
		}
	}
	var dchars []*Term
	for _, d := range digs {
		ch := Ite(BvCmp("bvult", d, ConstBV(8, 10)), BvBin("bvadd", d, ConstBV(8, '0')), BvBin("bvadd", d, ConstBV(8, 'a'-10)))
		out = append(out, ch)
		dchars = append(dchars, ch)
	}
	_ = digitChars
	// model-level axiom of math/big (not code under test): parsing the text
	// just rendered, in the same base, gives the rendered magnitude back
	if e.textMemo == nil {
		e.textMemo = map[string]BigIntVal{}
	}
	k, _ := symKey(StrVal{dchars})
	e.textMemo[fmt.Sprintf("%d|%s", base, k)] = BigIntVal{t: abs, bits: bv.bits}
	return StrVal{out}
}

// assumeDef adds a defining constraint (always satisfiable by construction).
func (e *Engine) assumeDef(st *State, c *Term) {
	if c.IsTrue() {
		return
	}
	if v, ok := st.known.get(c); ok && v {
		return
	}
	st.pc = append(st.pc, c)
	st.known.set(c, true)
	st.model = nil
}

// digitVal returns the value of an ASCII digit (8 bits) and whether the byte
// is a digit of the base.
func digitVal(b *Term, base int) (val *Term, valid *Term) {
	isDec := And(BvCmp("bvule", ConstBV(8, '0'), b), BvCmp("bvule", b, ConstBV(8, '9')))
	val = BvBin("bvsub", b, ConstBV(8, '0'))
	valid = isDec
	if base > 10 {
		hi := byte('a' + base - 11)
		isLo := And(BvCmp("bvule", ConstBV(8, 'a'), b), BvCmp("bvule", b, ConstBV(8, uint64(hi))))
		isUp := And(BvCmp("bvule", ConstBV(8, 'A'), b), BvCmp("bvule", b, ConstBV(8, uint64(hi-32))))
		val = Ite(isDec, val, Ite(isLo, BvBin("bvsub", b, ConstBV(8, 'a'-10)), BvBin("bvsub", b, ConstBV(8, 'A'-10))))
		valid = Or(isDec, Or(isLo, isUp))
	} else if base < 10 {
		valid = And(isDec, BvCmp("bvult", val, ConstBV(8, uint64(base))))
	}
	return
}

func maxInt(a, b int) int {
	if a > b {
		return a
	}
	return b
}

func registerBig(e *Engine) {
	ic := e.intercept
	fromBV := func(t *Term, signed bool) (*Term, int) {
		if signed {
			return SExt(t, bigW), t.s.W + 1
		}
		return ZExt(t, bigW), t.s.W + 1
	}
	ic["math/big.NewInt"] = func(e *Engine, st *State, fr *Frame, in ssa.CallInstruction, a []Val) Val {
		t, b := fromBV(a[0].(*Term), true)
		if x, ok := wideConst(t); ok {
			b = toSigned(x, bigW).BitLen() + 1
		}
		return PtrVal{obj: st.alloc(BigIntVal{t: t, bits: b})}
	}
	ic["(*math/big.Int).SetInt64"] = func(e *Engine, st *State, fr *Frame, in ssa.CallInstruction, a []Val) Val {
		t, b := fromBV(a[1].(*Term), true)
		return e.bigSetV(st, a[0], t, b)
	}
	ic["(*math/big.Int).SetUint64"] = func(e *Engine, st *State, fr *Frame, in ssa.CallInstruction, a []Val) Val {
		t, b := fromBV(a[1].(*Term), false)
		return e.bigSetV(st, a[0], t, b)
	}
	ic["(*math/big.Int).Set"] = func(e *Engine, st *State, fr *Frame, in ssa.CallInstruction, a []Val) Val {
		x := e.bigGetV(st, a[1])
		return e.bigSetV(st, a[0], x.t, x.bits)
	}
	ic["(*math/big.Int).Add"] = func(e *Engine, st *State, fr *Frame, in ssa.CallInstruction, a []Val) Val {
		x, y := e.bigGetV(st, a[1]), e.bigGetV(st, a[2])
		return e.bigSetV(st, a[0], BvBin("bvadd", x.t, y.t), maxInt(x.bits, y.bits)+1)
	}
	ic["(*math/big.Int).Sub"] = func(e *Engine, st *State, fr *Frame, in ssa.CallInstruction, a []Val) Val {
		x, y := e.bigGetV(st, a[1]), e.bigGetV(st, a[2])
		return e.bigSetV(st, a[0], BvBin("bvsub", x.t, y.t), maxInt(x.bits, y.bits)+1)
	}
	ic["(*math/big.Int).Mul"] = func(e *Engine, st *State, fr *Frame, in ssa.CallInstruction, a []Val) Val {
		x, y := e.bigGetV(st, a[1]), e.bigGetV(st, a[2])
		return e.bigSetV(st, a[0], BvBin("bvmul", x.t, y.t), x.bits+y.bits)
	}
	ic["(*math/big.Int).Neg"] = func(e *Engine, st *State, fr *Frame, in ssa.CallInstruction, a []Val) Val {
		x := e.bigGetV(st, a[1])
		return e.bigSetV(st, a[0], BvNeg(x.t), x.bits+1)
	}
	ic["(*math/big.Int).Lsh"] = func(e *Engine, st *State, fr *Frame, in ssa.CallInstruction, a []Val) Val {
		x := e.bigGetV(st, a[1])
		n := e.needInt(st, a[2], "Lsh count")
		if x.bits+n > bigW-2 {
			abort("cut", "big.Int.Lsh beyond the %d-bit model width", bigW)
		}
		return e.bigSetV(st, a[0], BvBin("bvshl", x.t, bigConst(big.NewInt(int64(n)))), x.bits+n)
	}
	ic["(*math/big.Int).Exp"] = func(e *Engine, st *State, fr *Frame, in ssa.CallInstruction, a []Val) Val {
		x, y := e.bigGet(st, a[1]), e.bigGet(st, a[2])
		if mp := a[3].(PtrVal); mp.obj != 0 {
			abort("unsupported", "big.Int.Exp with modulus")
		}
		xc, okx := wideConst(x)
		yc, oky := wideConst(y)
		if !okx || !oky {
			abort("unsupported", "big.Int.Exp with symbolic operands")
		}
		xs, ys := toSigned(xc, bigW), toSigned(yc, bigW)
		if ys.Sign() <= 0 {
			return e.bigSetV(st, a[0], bigConst(big.NewInt(1)), 2)
		}
		r := new(big.Int).Exp(xs, ys, nil)
		return e.bigSetV(st, a[0], bigConst(r), r.BitLen()+1)
	}
	ic["(*math/big.Int).Cmp"] = func(e *Engine, st *State, fr *Frame, in ssa.CallInstruction, a []Val) Val {
		x, y := e.bigGet(st, a[0]), e.bigGet(st, a[1])
		return Ite(BvCmp("bvslt", x, y), ConstBV(64, ^uint64(0)), Ite(BvCmp("bvslt", y, x), ConstBV(64, 1), ConstBV(64, 0)))
	}
	ic["(*math/big.Int).Sign"] = func(e *Engine, st *State, fr *Frame, in ssa.CallInstruction, a []Val) Val {
		x := e.bigGet(st, a[0])
		z := bigConst(big.NewInt(0))
		return Ite(BvCmp("bvslt", x, z), ConstBV(64, ^uint64(0)), Ite(BvCmp("bvslt", z, x), ConstBV(64, 1), ConstBV(64, 0)))
	}
	ic["(*math/big.Int).Bit"] = func(e *Engine, st *State, fr *Frame, in ssa.CallInstruction, a []Val) Val {
		x := e.bigGet(st, a[0])
		i := e.needInt(st, a[1], "Bit index")
		if i < 0 {
			abort("panic", "negative bit index")
		}
		if i >= bigW {
			i = bigW - 1 // sign bit (two's complement)
		}
		return ZExt(Extract(i, i, x), 64)
	}
	ic["(*math/big.Int).Int64"] = func(e *Engine, st *State, fr *Frame, in ssa.CallInstruction, a []Val) Val {
		return Extract(63, 0, e.bigGet(st, a[0]))
	}
	ic["(*math/big.Int).Uint64"] = ic["(*math/big.Int).Int64"]
	ic["(*math/big.Int).IsInt64"] = func(e *Engine, st *State, fr *Frame, in ssa.CallInstruction, a []Val) Val {
		x := e.bigGet(st, a[0])
		return Eq(SExt(Extract(63, 0, x), bigW), x)
	}
	ic["(*math/big.Int).IsUint64"] = func(e *Engine, st *State, fr *Frame, in ssa.CallInstruction, a []Val) Val {
		x := e.bigGet(st, a[0])
		return Eq(ZExt(Extract(63, 0, x), bigW), x)
	}
	ic["(*math/big.Int).Text"] = func(e *Engine, st *State, fr *Frame, in ssa.CallInstruction, a []Val) Val {
		p := a[0].(PtrVal)
		if p.obj == 0 {
			return constStr("<nil>")
		}
		base := e.needInt(st, a[1], "Text base")
		return e.bigText(st, e.bigGetV(st, a[0]), base)
	}
	ic["(*math/big.Int).String"] = func(e *Engine, st *State, fr *Frame, in ssa.CallInstruction, a []Val) Val {
		p := a[0].(PtrVal)
		if p.obj == 0 {
			return constStr("<nil>")
		}
		return e.bigText(st, e.bigGetV(st, a[0]), 10)
	}
	ic["(*math/big.Int).SetString"] = func(e *Engine, st *State, fr *Frame, in ssa.CallInstruction, a []Val) Val {
		s := a[1].(StrVal)
		base := e.needInt(st, a[2], "SetString base")
		if base > 16 || base < 0 || base == 1 {
			abort("unsupported", "big.Int.SetString base %d", base)
		}
		fail := TupleVal{[]Val{PtrVal{}, False}}
		b := s.b
		if len(b) == 0 {
			return fail
		}
		neg := false
		if e.decide(st, Eq(b[0], ConstBV(8, '-'))) {
			neg = true
			b = b[1:]
		} else if e.decide(st, Eq(b[0], ConstBV(8, '+'))) {
			b = b[1:]
		}
		if len(b) == 0 {
			return fail
		}
		if base == 0 {
			// base 0: the prefix selects the base ("0x" 16, "0b" 2, "0o" or a bare
			// leading "0" 8, otherwise 10); underscores are not modelled
			base = 10
			if len(b) > 1 && e.decide(st, Eq(b[0], ConstBV(8, '0'))) {
				isC := func(lo, up byte) bool {
					return e.decide(st, Or(Eq(b[1], ConstBV(8, uint64(lo))), Eq(b[1], ConstBV(8, uint64(up)))))
				}
				switch {
				case isC('x', 'X'):
					base, b = 16, b[2:]
				case isC('b', 'B'):
					base, b = 2, b[2:]
				case isC('o', 'O'):
					base, b = 8, b[2:]
				default:
					base, b = 8, b[1:]
				}
				if len(b) == 0 {
					return fail
				}
			}
			for _, ch := range b {
				if e.decide(st, Eq(ch, ConstBV(8, '_'))) {
					abort("unsupported", "big.Int.SetString base 0 with digit separators")
				}
			}
		}
		if bitsFor(base, len(b)) > bigW-2 {
			abort("cut", "big.Int.SetString: literal of %d digits exceeds the %d-bit model width", len(b), bigW)
		}
		if e.textMemo != nil {
			k, _ := symKey(StrVal{b})
			if m, ok := e.textMemo[fmt.Sprintf("%d|%s", base, k)]; ok {
				t := m.t
				if neg {
					t = BvNeg(t)
				}
				return TupleVal{[]Val{e.bigSetV(st, a[0], t, m.bits+1), True}}
			}
		}
		valid := True
		sum := bigConst(big.NewInt(0))
		for _, ch := range b {
			dv, ok := digitVal(ch, base)
			valid = And(valid, ok)
			sum = BvBin("bvadd", BvBin("bvmul", sum, bigConst(big.NewInt(int64(base)))), ZExt(dv, bigW))
		}
		if !e.decide(st, valid) {
			return fail
		}
		if neg {
			sum = BvNeg(sum)
		}
		return TupleVal{[]Val{e.bigSetV(st, a[0], sum, bitsFor(base, len(b))), True}}
	}

	// math/big.Float: an abstract box around a float64 (see DESIGN C10)
	getF := func(e *Engine, st *State, v Val) BigFloatVal {
		p := v.(PtrVal)
		if p.obj == 0 {
			abort("panic", "nil *big.Float")
		}
		switch x := st.hget(p.obj).(type) {
		case BigFloatVal:
			return x
		case StructVal:
			return BigFloatVal{f: ConstF64(0)}
		}
		abort("unsupported", "big.Float object of unexpected shape")
		return BigFloatVal{}
	}
	ic["math/big.NewFloat"] = func(e *Engine, st *State, fr *Frame, in ssa.CallInstruction, a []Val) Val {
		f := a[0].(*Term)
		if e.decide(st, FpPred("fp.isNaN", f)) {
			abort("panic", "big.NewFloat(NaN)")
		}
		if f.IsConst() {
			return e.newBigFloat(st, big.NewFloat(math.Float64frombits(f.c)))
		}
		return PtrVal{obj: st.alloc(BigFloatVal{f: f, prec: 53})}
	}
	ic["(*math/big.Float).SetFloat64"] = func(e *Engine, st *State, fr *Frame, in ssa.CallInstruction, a []Val) Val {
		f := a[1].(*Term)
		if e.decide(st, FpPred("fp.isNaN", f)) {
			abort("panic", "big.Float.SetFloat64(NaN)")
		}
		p := a[0].(PtrVal)
		cur := getF(e, st, p)
		pr := cur.prec
		if pr == 0 {
			pr = 53
		}
		if f.IsConst() {
			x := new(big.Float).SetPrec(uint(pr)).SetFloat64(math.Float64frombits(f.c))
			if cur.conc != nil && cur.prec == 0 {
				x = new(big.Float).SetFloat64(math.Float64frombits(f.c))
			}
			st.hset(p.obj, BigFloatVal{f: f, prec: pr, conc: x})
			return p
		}
		st.hset(p.obj, BigFloatVal{f: f, prec: pr})
		return p
	}
	ic["(*math/big.Float).SetPrec"] = func(e *Engine, st *State, fr *Frame, in ssa.CallInstruction, a []Val) Val {
		p := a[0].(PtrVal)
		cur := getF(e, st, p)
		pr := e.needInt(st, a[1], "SetPrec")
		if cur.conc != nil {
			x := new(big.Float).Copy(cur.conc).SetPrec(uint(pr))
			f64, _ := x.Float64()
			st.hset(p.obj, BigFloatVal{f: ConstF64(f64), prec: pr, conc: x})
			return p
		}
		// identity on the value: the harness assumes representability at pr
		st.hset(p.obj, BigFloatVal{f: cur.f, prec: pr})
		return p
	}
	// Copy / Set: z takes x's value (Copy also its precision; Set keeps z's
	// precision if it has one - the rounding is then done natively on concrete
	// values and is the identity on abstract ones, like SetPrec)
	cp := func(keepPrec bool) interceptFn {
		return func(e *Engine, st *State, fr *Frame, in ssa.CallInstruction, a []Val) Val {
			z := a[0].(PtrVal)
			if z.obj == 0 {
				abort("panic", "nil *big.Float")
			}
			x := getF(e, st, a[1])
			cur := getF(e, st, z)
			nv := BigFloatVal{f: x.f, prec: x.prec}
			if x.conc != nil {
				c := new(big.Float).Copy(x.conc)
				if keepPrec && cur.prec != 0 {
					c = new(big.Float).SetPrec(uint(cur.prec)).Set(x.conc)
					nv.prec = cur.prec
				}
				f64, _ := c.Float64()
				nv.conc, nv.f = c, ConstF64(f64)
			} else if keepPrec && cur.prec != 0 {
				nv.prec = cur.prec
			}
			st.hset(z.obj, nv)
			return z
		}
	}
	ic["(*math/big.Float).Copy"] = cp(false)
	ic["(*math/big.Float).Set"] = cp(true)
	ic["(*math/big.Float).Float64"] = func(e *Engine, st *State, fr *Frame, in ssa.CallInstruction, a []Val) Val {
		if c := getF(e, st, a[0]).conc; c != nil {
			f64, acc := c.Float64()
			return TupleVal{[]Val{ConstF64(f64), ConstBV(8, uint64(uint8(int8(acc))))}}
		}
		return TupleVal{[]Val{getF(e, st, a[0]).f, ConstBV(8, 0)}}
	}
	ic["(*math/big.Float).Signbit"] = func(e *Engine, st *State, fr *Frame, in ssa.CallInstruction, a []Val) Val {
		if c := getF(e, st, a[0]).conc; c != nil {
			return ConstBool(c.Signbit())
		}
		return FpPred("fp.isNegative", getF(e, st, a[0]).f)
	}
	ic["(*math/big.Float).Sign"] = func(e *Engine, st *State, fr *Frame, in ssa.CallInstruction, a []Val) Val {
		if c := getF(e, st, a[0]).conc; c != nil {
			return ConstBV(64, uint64(int64(c.Sign())))
		}
		f := getF(e, st, a[0]).f
		return Ite(FpPred("fp.isZero", f), ConstBV(64, 0), Ite(FpPred("fp.isNegative", f), ConstBV(64, ^uint64(0)), ConstBV(64, 1)))
	}
	ic["(*math/big.Float).IsInf"] = func(e *Engine, st *State, fr *Frame, in ssa.CallInstruction, a []Val) Val {
		if c := getF(e, st, a[0]).conc; c != nil {
			return ConstBool(c.IsInf())
		}
		return FpPred("fp.isInfinite", getF(e, st, a[0]).f)
	}
	registerFloatBridge(e)
	registerModels2(e)

}
