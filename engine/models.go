package main

// Environment models that cannot be written as Go source: byte search as one
// ite-chain, opaque errors, math bit casts, mutex state, math/big as SMT Int,
// strings.Builder's unsafe bits.  Every entry hit is listed in evidence.

import (
	"fmt"
	"go/token"
	"go/types"
	"math/big"

	"golang.org/x/tools/go/ssa"
)

var opaqueErrT types.Type

func init() {
	tn := types.NewTypeName(token.NoPos, nil, "vfOpaqueError", nil)
	named := types.NewNamed(tn, types.NewStruct(nil, nil), nil)
	sig := types.NewSignatureType(types.NewVar(token.NoPos, nil, "e", named), nil, nil, nil,
		types.NewTuple(types.NewVar(token.NoPos, nil, "", types.Typ[types.String])), false)
	named.AddMethod(types.NewFunc(token.NoPos, nil, "Error", sig))
	opaqueErrT = named
}

// opaque errors are distinct objects (pointer identity)
func opaqueErrNamed(st *State, what string) Val {
	return IfaceVal{t: opaqueErrT, v: PtrVal{obj: st.alloc(OpaqueVal{what})}}
}

// ifaceModel handles invokes on model-typed dynamic values.
func (e *Engine) ifaceModel(recv IfaceVal, method string) interceptFn {
	if recv.t == opaqueErrT {
		switch method {
		case "Error":
			return func(e *Engine, st *State, fr *Frame, in ssa.CallInstruction, a []Val) Val {
				return constStr("<error>")
			}
		}
		return func(e *Engine, st *State, fr *Frame, in ssa.CallInstruction, a []Val) Val {
			abort("unsupported", "method %s on opaque error", method)
			return nil
		}
	}
	return nil
}

func callResultType(in ssa.CallInstruction) types.Type {
	if in == nil {
		return nil
	}
	return in.Common().Signature().Results()
}

func (e *Engine) zeroResult(st *State, in ssa.CallInstruction) Val {
	if in == nil {
		return nil
	}
	res := in.Common().Signature().Results()
	switch res.Len() {
	case 0:
		return nil
	case 1:
		t := res.At(0).Type()
		if p, ok := t.(*types.Pointer); ok {
			if _, isS := p.Elem().Underlying().(*types.Struct); isS {
				return PtrVal{obj: st.alloc(e.zero(p.Elem()))}
			}
		}
		return e.zero(t)
	}
	tv := TupleVal{}
	for i := 0; i < res.Len(); i++ {
		tv.v = append(tv.v, e.zero(res.At(i).Type()))
	}
	return tv
}

func registerModels(e *Engine) {
	ic := e.intercept
	ic["strings.IndexByte"] = func(e *Engine, st *State, fr *Frame, in ssa.CallInstruction, a []Val) Val {
		s := a[0].(StrVal)
		c := a[1].(*Term)
		r := ConstBV(64, ^uint64(0))
		for i := len(s.b) - 1; i >= 0; i-- {
			r = Ite(Eq(s.b[i], c), ConstBV(64, uint64(i)), r)
		}
		return r
	}
	ic["internal/bytealg.IndexByteString"] = ic["strings.IndexByte"]
	ic["internal/stringslite.IndexByte"] = ic["strings.IndexByte"]
	ic["strings.IndexRune"] = func(e *Engine, st *State, fr *Frame, in ssa.CallInstruction, a []Val) Val {
		s := a[0].(StrVal)
		c := a[1].(*Term) // rune; ASCII runes only
		if !c.IsConst() || c.c >= 0x80 {
			abort("cut", "strings.IndexRune with non-ASCII/symbolic rune")
		}
		r := ConstBV(64, ^uint64(0))
		for i := len(s.b) - 1; i >= 0; i-- {
			r = Ite(Eq(s.b[i], ConstBV(8, c.c)), ConstBV(64, uint64(i)), r)
		}
		return r
	}
	ic["strings.ContainsRune"] = func(e *Engine, st *State, fr *Frame, in ssa.CallInstruction, a []Val) Val {
		s := a[0].(StrVal)
		c := a[1].(*Term)
		r := False
		for _, b := range s.b {
			r = Or(r, Eq(ZExt(b, 32), c))
		}
		return r
	}
	ic["strings.ContainsAny"] = func(e *Engine, st *State, fr *Frame, in ssa.CallInstruction, a []Val) Val {
		s := a[0].(StrVal)
		cs := a[1].(StrVal)
		r := False
		for _, b := range s.b {
			for _, c := range cs.b {
				r = Or(r, Eq(b, c))
			}
		}
		return r
	}
	ic["internal/stringslite.Clone"] = func(e *Engine, st *State, fr *Frame, in ssa.CallInstruction, a []Val) Val { return a[0] }
	ic["strings.Clone"] = ic["internal/stringslite.Clone"]
	ic["strconv.cloneString"] = ic["internal/stringslite.Clone"]

	zeroRes := func(e *Engine, st *State, fr *Frame, in ssa.CallInstruction, a []Val) Val {
		return e.zeroResult(st, in)
	}
	for _, n := range []string{"log.New", "(*log.Logger).Println", "(*log.Logger).Printf", "(*log.Logger).Print", "log.Printf", "log.Println", "log.Print", "time.Now", "time.Since", "(*log.Logger).SetPrefix", "(*log.Logger).SetFlags", "os.Getenv"} {
		ic[n] = zeroRes
	}
	errf := func(e *Engine, st *State, fr *Frame, in ssa.CallInstruction, a []Val) Val {
		return opaqueErrNamed(st, "error")
	}
	for _, n := range []string{"github.com/pkg/errors.Errorf", "github.com/pkg/errors.New", "fmt.Errorf", "errors.New"} {
		ic[n] = errf
	}
	wrap := func(e *Engine, st *State, fr *Frame, in ssa.CallInstruction, a []Val) Val {
		if a[0].(IfaceVal).t == nil {
			return IfaceVal{}
		}
		return a[0]
	}
	for _, n := range []string{"github.com/pkg/errors.WithStack", "github.com/pkg/errors.Wrapf", "github.com/pkg/errors.Wrap", "github.com/pkg/errors.WithMessage", "github.com/pkg/errors.Cause"} {
		ic[n] = wrap
	}

	// strings.Builder: real WriteString/Write/WriteByte/Len; unsafe parts here
	ic["(*strings.Builder).copyCheck"] = func(e *Engine, st *State, fr *Frame, in ssa.CallInstruction, a []Val) Val { return nil }
	ic["(*strings.Builder).String"] = func(e *Engine, st *State, fr *Frame, in ssa.CallInstruction, a []Val) Val {
		b := e.load(st, a[0].(PtrVal)).(StructVal)
		return e.bytesToStr(st, b.f[1].(SliceVal))
	}
	ic["(*strings.Builder).Grow"] = func(e *Engine, st *State, fr *Frame, in ssa.CallInstruction, a []Val) Val { return nil }
	ic["(*bytes.Buffer).String"] = nil
	delete(ic, "(*bytes.Buffer).String")

	// sync.Mutex: lock state in the struct's first field; events for L4
	ic["(*sync.Mutex).Lock"] = func(e *Engine, st *State, fr *Frame, in ssa.CallInstruction, a []Val) Val {
		p := a[0].(PtrVal)
		if p.obj == 0 {
			abort("panic", "nil mutex")
		}
		sp := PtrVal{obj: p.obj, path: append(append([]int(nil), p.path...), 0)}
		cur := navGet(st.hget(sp.obj), sp.path)
		if t, ok := cur.(*Term); ok && t.IsConst() && t.c != 0 {
			if st.log != nil && st.log.onLockBlocked != nil {
				st.log.onLockBlocked(st, p)
				return nil
			}
			abort("panic", "deadlock: Lock of a held mutex")
		}
		if st.log != nil {
			st.log.lockEvent(st, p, true)
		}
		st.heap.set(sp.obj, navSet(st.hget(sp.obj), sp.path, ConstBV(cur.(*Term).s.W, 1)))
		return nil
	}
	ic["(*sync.Mutex).Unlock"] = func(e *Engine, st *State, fr *Frame, in ssa.CallInstruction, a []Val) Val {
		p := a[0].(PtrVal)
		sp := PtrVal{obj: p.obj, path: append(append([]int(nil), p.path...), 0)}
		cur := navGet(st.hget(sp.obj), sp.path)
		if t, ok := cur.(*Term); ok && t.IsConst() && t.c == 0 {
			abort("panic", "sync: unlock of unlocked mutex")
		}
		st.heap.set(sp.obj, navSet(st.hget(sp.obj), sp.path, ConstBV(cur.(*Term).s.W, 0)))
		if st.log != nil {
			st.log.lockEvent(st, p, false)
		}
		return nil
	}

	// math bit casts
	ic["math.Float64bits"] = func(e *Engine, st *State, fr *Frame, in ssa.CallInstruction, a []Val) Val {
		f := a[0].(*Term)
		if f.IsConst() {
			return ConstBV(64, f.c)
		}
		if f.op == "fp.frombits" {
			return f.args[0]
		}
		b := Fresh("f64bits", BV(64))
		e.assume(st, Eq(FpFromBits(b), f))
		return b
	}
	ic["math.Float64frombits"] = func(e *Engine, st *State, fr *Frame, in ssa.CallInstruction, a []Val) Val {
		return FpFromBits(a[0].(*Term))
	}
	ic["math.IsNaN"] = func(e *Engine, st *State, fr *Frame, in ssa.CallInstruction, a []Val) Val {
		return FpPred("fp.isNaN", a[0].(*Term))
	}
	ic["math.IsInf"] = func(e *Engine, st *State, fr *Frame, in ssa.CallInstruction, a []Val) Val {
		f := a[0].(*Term)
		sg := e.needInt(st, a[1], "IsInf sign")
		inf := FpPred("fp.isInfinite", f)
		switch {
		case sg > 0:
			return And(inf, Not(FpPred("fp.isNegative", f)))
		case sg < 0:
			return And(inf, FpPred("fp.isNegative", f))
		}
		return inf
	}

	registerBig(e)
}

// ---------- math/big.Int as SMT Int

func (e *Engine) bigGet(st *State, v Val) *Term {
	p := v.(PtrVal)
	if p.obj == 0 {
		abort("panic", "nil *big.Int")
	}
	if len(p.path) != 0 {
		abort("unsupported", "big.Int embedded in a struct")
	}
	switch x := st.hget(p.obj).(type) {
	case BigIntVal:
		return x.t
	case StructVal:
		return ConstIntI(0) // zero value
	}
	abort("unsupported", "big.Int object of unexpected shape")
	return nil
}

func (e *Engine) bigSet(st *State, v Val, t *Term) Val {
	p := v.(PtrVal)
	if p.obj == 0 {
		abort("panic", "nil *big.Int")
	}
	if len(p.path) != 0 {
		abort("unsupported", "big.Int embedded in a struct")
	}
	st.heap.set(p.obj, BigIntVal{t})
	return p
}

func sbvToInt(t *Term) *Term {
	w := t.s.W
	if t.IsConst() {
		return ConstIntI(sext64(t.c, w))
	}
	msb := Eq(Extract(w-1, w-1, t), ConstBV(1, 1))
	return mk("ite", IntS, 0, 0, 0, "", msb, IntBin("-", BvToInt(t), ConstInt(new(big.Int).Lsh(big.NewInt(1), uint(w)))), BvToInt(t))
}

func iteInt(c, a, b *Term) *Term {
	if c.IsConst() {
		if c.c == 1 {
			return a
		}
		return b
	}
	if a == b {
		return a
	}
	return mk("ite", IntS, 0, 0, 0, "", c, a, b)
}

func pow(base int64, k int) *big.Int {
	return new(big.Int).Exp(big.NewInt(base), big.NewInt(int64(k)), nil)
}

const maxBigDigits = 48

// bigText renders |v| in the given base: forks on the digit count, digits are
// fresh byte variables tied to v by a defining constraint (unique solution).
func (e *Engine) bigText(st *State, v *Term, base int) StrVal {
	if v.IsConst() {
		return constStr(v.bi.Text(base))
	}
	neg := e.decide(st, IntCmp("<", v, ConstIntI(0)))
	abs := v
	if neg {
		abs = IntNeg(v)
	}
	n := 0
	for k := 1; k <= maxBigDigits; k++ {
		if e.decide(st, IntCmp("<", abs, ConstInt(pow(int64(base), k)))) {
			n = k
			break
		}
	}
	if n == 0 {
		abort("cut", "big.Int.Text: more than %d digits", maxBigDigits)
	}
	// memoise the digit variables per (term, base) so that repeated Text calls
	// on the same value share them
	digs := make([]*Term, n)
	sum := ConstIntI(0)
	for i := 0; i < n; i++ { // digs[0] is the most significant
		d := Var(fmt.Sprintf("dig!%d!%d!%d!%d", abs.id, base, n, i), BV(8))
		digs[i] = d
		sum = IntBin("+", sum, IntBin("*", BvToInt(d), ConstInt(pow(int64(base), n-1-i))))
	}
	c := Eq(sum, abs)
	for _, d := range digs {
		c = And(c, BvCmp("bvult", d, ConstBV(8, uint64(base))))
	}
	e.assumeDef(st, c)
	var out []*Term
	if neg {
		out = append(out, ConstBV(8, '-'))
	}
	for _, d := range digs {
		ch := Ite(BvCmp("bvult", d, ConstBV(8, 10)), BvBin("bvadd", d, ConstBV(8, '0')), BvBin("bvadd", d, ConstBV(8, 'a'-10)))
		out = append(out, ch)
	}
	return StrVal{out}
}

// assumeDef adds a defining constraint (always satisfiable by construction).
func (e *Engine) assumeDef(st *State, c *Term) {
	if c.IsTrue() {
		return
	}
	if v, ok := st.known.get(c); ok && v {
		return
	}
	st.pc = append(st.pc, c)
	st.known.set(c, true)
	st.model = nil
}

func digitVal(b *Term, base int) (val *Term, valid *Term) {
	// value of an ASCII digit (as BV8) and whether it is a digit of the base
	isDec := And(BvCmp("bvule", ConstBV(8, '0'), b), BvCmp("bvule", b, ConstBV(8, '9')))
	val = BvBin("bvsub", b, ConstBV(8, '0'))
	valid = isDec
	if base > 10 {
		hi := byte('a' + base - 11)
		isLo := And(BvCmp("bvule", ConstBV(8, 'a'), b), BvCmp("bvule", b, ConstBV(8, uint64(hi))))
		isUp := And(BvCmp("bvule", ConstBV(8, 'A'), b), BvCmp("bvule", b, ConstBV(8, uint64(hi-32))))
		val = Ite(isDec, val, Ite(isLo, BvBin("bvsub", b, ConstBV(8, 'a'-10)), BvBin("bvsub", b, ConstBV(8, 'A'-10))))
		valid = Or(isDec, Or(isLo, isUp))
	} else if base < 10 {
		valid = And(isDec, BvCmp("bvult", val, ConstBV(8, uint64(base))))
	}
	return
}

func registerBig(e *Engine) {
	ic := e.intercept
	ic["math/big.NewInt"] = func(e *Engine, st *State, fr *Frame, in ssa.CallInstruction, a []Val) Val {
		return PtrVal{obj: st.alloc(BigIntVal{sbvToInt(a[0].(*Term))})}
	}
	ic["(*math/big.Int).SetInt64"] = func(e *Engine, st *State, fr *Frame, in ssa.CallInstruction, a []Val) Val {
		return e.bigSet(st, a[0], sbvToInt(a[1].(*Term)))
	}
	ic["(*math/big.Int).SetUint64"] = func(e *Engine, st *State, fr *Frame, in ssa.CallInstruction, a []Val) Val {
		return e.bigSet(st, a[0], BvToInt(a[1].(*Term)))
	}
	ic["(*math/big.Int).Set"] = func(e *Engine, st *State, fr *Frame, in ssa.CallInstruction, a []Val) Val {
		return e.bigSet(st, a[0], e.bigGet(st, a[1]))
	}
	bin := func(op string) interceptFn {
		return func(e *Engine, st *State, fr *Frame, in ssa.CallInstruction, a []Val) Val {
			return e.bigSet(st, a[0], IntBin(op, e.bigGet(st, a[1]), e.bigGet(st, a[2])))
		}
	}
	ic["(*math/big.Int).Add"] = bin("+")
	ic["(*math/big.Int).Sub"] = bin("-")
	ic["(*math/big.Int).Mul"] = bin("*")
	ic["(*math/big.Int).Neg"] = func(e *Engine, st *State, fr *Frame, in ssa.CallInstruction, a []Val) Val {
		return e.bigSet(st, a[0], IntNeg(e.bigGet(st, a[1])))
	}
	ic["(*math/big.Int).Lsh"] = func(e *Engine, st *State, fr *Frame, in ssa.CallInstruction, a []Val) Val {
		n := e.needInt(st, a[2], "Lsh count")
		return e.bigSet(st, a[0], IntBin("*", e.bigGet(st, a[1]), ConstInt(pow(2, n))))
	}
	ic["(*math/big.Int).Exp"] = func(e *Engine, st *State, fr *Frame, in ssa.CallInstruction, a []Val) Val {
		x, y := e.bigGet(st, a[1]), e.bigGet(st, a[2])
		if mp := a[3].(PtrVal); mp.obj != 0 {
			abort("unsupported", "big.Int.Exp with modulus")
		}
		if !y.IsConst() {
			abort("unsupported", "big.Int.Exp with symbolic exponent")
		}
		if y.bi.Sign() <= 0 {
			return e.bigSet(st, a[0], ConstIntI(1))
		}
		if x.IsConst() {
			return e.bigSet(st, a[0], ConstInt(new(big.Int).Exp(x.bi, y.bi, nil)))
		}
		if y.bi.Cmp(big.NewInt(16)) > 0 {
			abort("unsupported", "big.Int.Exp: symbolic base with exponent > 16")
		}
		r := ConstIntI(1)
		for i := int64(0); i < y.bi.Int64(); i++ {
			r = IntBin("*", r, x)
		}
		return e.bigSet(st, a[0], r)
	}
	ic["(*math/big.Int).Cmp"] = func(e *Engine, st *State, fr *Frame, in ssa.CallInstruction, a []Val) Val {
		x, y := e.bigGet(st, a[0]), e.bigGet(st, a[1])
		return Ite(IntCmp("<", x, y), ConstBV(64, ^uint64(0)), Ite(IntCmp(">", x, y), ConstBV(64, 1), ConstBV(64, 0)))
	}
	ic["(*math/big.Int).Sign"] = func(e *Engine, st *State, fr *Frame, in ssa.CallInstruction, a []Val) Val {
		x := e.bigGet(st, a[0])
		z := ConstIntI(0)
		return Ite(IntCmp("<", x, z), ConstBV(64, ^uint64(0)), Ite(IntCmp(">", x, z), ConstBV(64, 1), ConstBV(64, 0)))
	}
	ic["(*math/big.Int).Bit"] = func(e *Engine, st *State, fr *Frame, in ssa.CallInstruction, a []Val) Val {
		x := e.bigGet(st, a[0])
		i := e.needInt(st, a[1], "Bit index")
		if i < 0 {
			abort("panic", "negative bit index")
		}
		// two's complement bit: floor(x / 2^i) mod 2 (SMT div/mod are Euclidean)
		q := IntBin("mod", IntBin("div", x, ConstInt(pow(2, i))), ConstIntI(2))
		return Ite(Eq(q, ConstIntI(1)), ConstBV(64, 1), ConstBV(64, 0))
	}
	ic["(*math/big.Int).Int64"] = func(e *Engine, st *State, fr *Frame, in ssa.CallInstruction, a []Val) Val {
		return IntToBv(e.bigGet(st, a[0]), 64)
	}
	ic["(*math/big.Int).Uint64"] = ic["(*math/big.Int).Int64"]
	ic["(*math/big.Int).IsInt64"] = func(e *Engine, st *State, fr *Frame, in ssa.CallInstruction, a []Val) Val {
		x := e.bigGet(st, a[0])
		lim := pow(2, 63)
		return And(IntCmp(">=", x, ConstInt(new(big.Int).Neg(lim))), IntCmp("<", x, ConstInt(lim)))
	}
	ic["(*math/big.Int).IsUint64"] = func(e *Engine, st *State, fr *Frame, in ssa.CallInstruction, a []Val) Val {
		x := e.bigGet(st, a[0])
		return And(IntCmp(">=", x, ConstIntI(0)), IntCmp("<", x, ConstInt(pow(2, 64))))
	}
	ic["(*math/big.Int).Text"] = func(e *Engine, st *State, fr *Frame, in ssa.CallInstruction, a []Val) Val {
		p := a[0].(PtrVal)
		if p.obj == 0 {
			return constStr("<nil>")
		}
		base := e.needInt(st, a[1], "Text base")
		return e.bigText(st, e.bigGet(st, a[0]), base)
	}
	ic["(*math/big.Int).String"] = func(e *Engine, st *State, fr *Frame, in ssa.CallInstruction, a []Val) Val {
		p := a[0].(PtrVal)
		if p.obj == 0 {
			return constStr("<nil>")
		}
		return e.bigText(st, e.bigGet(st, a[0]), 10)
	}
	ic["(*math/big.Int).SetString"] = func(e *Engine, st *State, fr *Frame, in ssa.CallInstruction, a []Val) Val {
		s := a[1].(StrVal)
		base := e.needInt(st, a[2], "SetString base")
		if base == 0 || base > 16 {
			abort("unsupported", "big.Int.SetString base %d", base)
		}
		fail := TupleVal{[]Val{PtrVal{}, False}}
		b := s.b
		if len(b) == 0 {
			return fail
		}
		neg := false
		if e.decide(st, Eq(b[0], ConstBV(8, '-'))) {
			neg = true
			b = b[1:]
		} else if e.decide(st, Eq(b[0], ConstBV(8, '+'))) {
			b = b[1:]
		}
		if len(b) == 0 {
			return fail
		}
		valid := True
		sum := ConstIntI(0)
		for i, ch := range b {
			dv, ok := digitVal(ch, base)
			valid = And(valid, ok)
			sum = IntBin("+", sum, IntBin("*", BvToInt(dv), ConstInt(pow(int64(base), len(b)-1-i))))
		}
		if !e.decide(st, valid) {
			return fail
		}
		if neg {
			sum = IntNeg(sum)
		}
		return TupleVal{[]Val{e.bigSet(st, a[0], sum), True}}
	}

	// math/big.Float: an abstract box around a float64 (see DESIGN C10)
	getF := func(e *Engine, st *State, v Val) BigFloatVal {
		p := v.(PtrVal)
		if p.obj == 0 {
			abort("panic", "nil *big.Float")
		}
		switch x := st.hget(p.obj).(type) {
		case BigFloatVal:
			return x
		case StructVal:
			return BigFloatVal{f: ConstF64(0)}
		}
		abort("unsupported", "big.Float object of unexpected shape")
		return BigFloatVal{}
	}
	ic["math/big.NewFloat"] = func(e *Engine, st *State, fr *Frame, in ssa.CallInstruction, a []Val) Val {
		f := a[0].(*Term)
		if e.decide(st, FpPred("fp.isNaN", f)) {
			abort("panic", "big.NewFloat(NaN)")
		}
		return PtrVal{obj: st.alloc(BigFloatVal{f: f, prec: 53})}
	}
	ic["(*math/big.Float).SetFloat64"] = func(e *Engine, st *State, fr *Frame, in ssa.CallInstruction, a []Val) Val {
		f := a[1].(*Term)
		if e.decide(st, FpPred("fp.isNaN", f)) {
			abort("panic", "big.Float.SetFloat64(NaN)")
		}
		p := a[0].(PtrVal)
		cur := getF(e, st, p)
		pr := cur.prec
		if pr == 0 {
			pr = 53
		}
		st.heap.set(p.obj, BigFloatVal{f: f, prec: pr})
		return p
	}
	ic["(*math/big.Float).SetPrec"] = func(e *Engine, st *State, fr *Frame, in ssa.CallInstruction, a []Val) Val {
		p := a[0].(PtrVal)
		cur := getF(e, st, p)
		pr := e.needInt(st, a[1], "SetPrec")
		// identity on the value: the harness assumes representability at pr
		st.heap.set(p.obj, BigFloatVal{f: cur.f, prec: pr})
		return p
	}
	ic["(*math/big.Float).Float64"] = func(e *Engine, st *State, fr *Frame, in ssa.CallInstruction, a []Val) Val {
		return TupleVal{[]Val{getF(e, st, a[0]).f, ConstBV(8, 0)}}
	}
	ic["(*math/big.Float).Signbit"] = func(e *Engine, st *State, fr *Frame, in ssa.CallInstruction, a []Val) Val {
		return FpPred("fp.isNegative", getF(e, st, a[0]).f)
	}
	ic["(*math/big.Float).IsInf"] = func(e *Engine, st *State, fr *Frame, in ssa.CallInstruction, a []Val) Val {
		return FpPred("fp.isInfinite", getF(e, st, a[0]).f)
	}
	for _, n := range []string{"github.com/mewmew/float.IsExact16", "github.com/mewmew/float.IsExact32", "github.com/mewmew/float.IsExact64"} {
		ic[n] = func(e *Engine, st *State, fr *Frame, in ssa.CallInstruction, a []Val) Val {
			// unconstrained: both printer branches are explored
			return Fresh("isexact", BoolS)
		}
	}
	cutf := func(what string) interceptFn {
		return func(e *Engine, st *State, fr *Frame, in ssa.CallInstruction, a []Val) Val {
			abort("cut", "%s not modelled", what)
			return nil
		}
	}
	ic["(*math/big.Float).Text"] = cutf("big.Float.Text (decimal rendering)")
	ic["math/big.ParseFloat"] = cutf("big.ParseFloat (decimal parsing)")
	ic["(*math/big.Float).String"] = cutf("big.Float.String")
}
