#!/bin/sh
# tools/harvest.sh <Cnn> <round>: takes the deliverables of a seed author
# (/tmp/s<round>-<Cnn>-SEED, or SEED/ inside its worktree /tmp/s<round>-<Cnn>),
# removes that worktree, validates the change (tools/seedtest.sh: demo passes
# without / fails with the change, builds, existing suite passes) and runs the
# quick check against it.
ID=$1; R=$2
VD=$(cd "$(dirname "$0")/.." && pwd)
ST=/tmp/s$R-stage/$ID
mkdir -p $ST
cp /tmp/s$R-$ID-SEED/* $ST/ 2>/dev/null || cp /tmp/s$R-$ID/SEED/* $ST/ 2>/dev/null
git -C /repo worktree remove --force /tmp/s$R-$ID 2>/dev/null
sh $VD/tools/seedtest.sh $ID $ST quick > $VD/.work/seed$R-$ID.out 2>&1
cp $VD/.work/seed-$ID.log $VD/.work/seed$R-$ID.log 2>/dev/null
cat $VD/.work/seed$R-$ID.out
