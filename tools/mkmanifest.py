#!/usr/bin/env python3
"""Regenerates /verif/MANIFEST.json from the table below."""
import json
props=[json.loads(l) for l in open('/verif/properties.jsonl')]
TECH="bounded symbolic execution of the real Go SSA (own go/ssa -> SMT-LIB2 executor), every obligation decided by z3 for all inputs within the bounds, witnesses and counterexamples replayed natively"
claimed={
'C09':("§5 C09","Bounded symbolic model checking of constant.NewIntFromString / Int.Ident (real SSA; math/big modelled as 192-bit two's complement bit-vectors): print->parse gives the same value for every value of widths {1,2,7,8,13,16,32,64} (thorough: 23 widths up to 128), in both notations the printer can choose; decimal, u0x, s0x and true/false literals denote the mathematically correct value.",
       "The entropy heuristic that picks the notation is over-approximated by a two-way fork (both notations proven for every value >= 0x1000); decimal digits of values with more than 7 digits are abstract (only parse(print(v)) = v is kept as a math/big axiom); literal lengths bounded as in evidence; s0x asserted only for literals of exactly ceil(w/4) digits (DESIGN §5 C09)."),
'C11':("§5 C11","Bounded symbolic model checking of internal/enc and the parser-side decoders: for every byte string up to 3 bytes (4 thorough; 2/3 through the whole parse pipeline) in each position (global, local, label, type, comdat, metadata name, quoted string, character array) the printed token is read by a reference model of LLVM 14's lexer as one token of the right kind denoting exactly those bytes, is decoded by the real asm translator (token embedded in a carrier module, native llir/ll parse of a representative, whole translator symbolic) to the same bytes, never as a numeric ID; distinct names print differently.",
       "Strings longer than the bound are outside the claim; the LLVM lexer is a reference model written from LLLexer.cpp (calibrated against llvm-as 14); L3 assumes the parse-tree shape is uniform within a lexical byte class (classes are forked explicitly and cross-checked on 4 solver models per path)."),
'C16':("§5 C16","Bounded symbolic model checking of all types.*.Equal methods: agreement with a reference LLVM type identity, symmetry and reflexivity on all ordered pairs of a depth-1 universe (39 shapes, 95 thorough) with symbolic widths/lengths/address spaces/flags/names, transitivity on same-shape triples, recursive and mutually recursive identified structs, and a depth-4 type against single-attribute mutations.",
       "Printed scalars bounded below 100 (pointer equality compares printed strings); identified structs with equal names are the same type (LLVM's data model); deeper nestings outside the claim."),
'C18':("§5 C18","Exhaustive-through-the-solver check of every enum keyword family: harness generated on each run from go/types (one entry per XxxFromString function, all declared constants of its result type); for a symbolic value assumed to be a declared constant, FromString(String(v)) == v (which also gives injectivity of the keywords) and the keyword is non-empty; residual paths into the T(%d) fallback or the FromString panic are found by the solver.",
       "Flag-set printing (DIFlag/DISPFlag/AllocKind lists) is covered only member-wise; calling conventions given as `cc N` are outside."),
'C20':("§5 C20","Bounded symbolic model checking of the real natsort code: the four order axioms for all string triples up to 3 bytes (4 thorough), agreement with numeric comparison of digit runs up to 4 (6) digits incl. the leading-zero tie-break, natsort.Strings result ordered and input-order independent.",
       "Longer strings outside the claim; sort.Sort modelled as insertion sort plus a comparator-contract side obligation (irreflexive, asymmetric, transitive on the keys of each call)."),
}
reasons={
'C01':"the quantifier is all LLVM-14 modules and the oracle is LLVM's reading of input and output; neither the table-driven LR parser of llir/ll on unconstrained text nor LLVM's parser can be encoded (DESIGN §5 C01); its token-level, typing and crash-freedom facets are decided under C05-C07, C09-C11, C18",
}
m={"version":1,
"setup_cmd":"cd /verif/engine && GOFLAGS=-mod=mod GOPROXY=off GOSUMDB=off GOTOOLCHAIN=local go build -o ../bin/vcheck .",
"hooks":{"guard":"verif","enable":"harness files carry //go:build verif and are injected by overlay (go/packages Overlay for the executor, go test -overlay for native replay); /repo contains no hooks","baseline_off_cmd":"cd /repo && go test -vet=off -count=1 ./...","source_commits":[],"add_only":True},
"engines":[{"name":"vsym","path":"/verif/engine","serves_properties":sorted(claimed),"kind_free_text":"symbolic executor for Go SSA (x/tools go/ssa) emitting SMT-LIB2 to one incremental z3 5.1.0 process per worker, cross-checked with z3 4.8.12 and cvc5 1.0; native replay of every witness and counterexample via go test -overlay"}],
"checks":[],"not_applicable":[],
"notes":"fix: commits in /repo and known findings are listed in /verif/known_findings.json; DESIGN.md is the reference for bounds and models."}
for p in props:
    i=p['id']
    if i in claimed:
        ref,text,note=claimed[i]
        m['checks'].append({"property_id":i,"quick_cmd":f"./check {i} quick","thorough_cmd":f"./check {i} thorough","evidence_file":f"/verif/evidence/{i}.json","replay_cmd_template":"./check replay {path}","engine":"vsym","level_claimed":{"category":"model_checking","text":text,"design_ref":ref},"level_note":note,"technique":TECH})
    else:
        m['not_applicable'].append({"property_id":i,"reason":reasons.get(i,"check not built yet in this session (work in progress; DESIGN.md §5 lists the planned obligations)")})
json.dump(m,open('/verif/MANIFEST.json','w'),indent=1)
print("claimed:",sorted(claimed))
