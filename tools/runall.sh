#!/bin/sh
# Runs every claimed check (quick or thorough) sequentially and validates the
# evidence files against the schema.  Usage: tools/runall.sh [quick|thorough]
cd "$(dirname "$0")/.." || exit 2
TIER=${1:-quick}
mkdir -p .work
rc=0
for id in $(python3 -c "import json;print(' '.join(c['property_id'] for c in json.load(open('MANIFEST.json'))['checks']))"); do
  start=$(date +%s)
  ./check $id $TIER > .work/run-$id.log 2>&1; r=$?
  end=$(date +%s)
  echo "$id exit=$r $(($end-$start))s $(grep -c '^VIOLATION' .work/run-$id.log) violations $(grep -c '^KNOWN-FINDING' .work/run-$id.log) known $(grep -c 'INCONCLUSIVE\|ENGINE' .work/run-$id.log) inconclusive/engine"
  [ $r -ne 0 ] && rc=1
done
python3-vt - <<'PY'
import json,jsonschema,glob
sch=json.load(open('/root/.vp/EVIDENCE.schema.json'))
for f in sorted(glob.glob('/verif/evidence/*.json')):
    try:
        jsonschema.validate(json.load(open(f)),sch); 
    except Exception as e:
        print('INVALID',f,str(e)[:200])
print('evidence validated')
PY
exit $rc
