#!/bin/sh
# tools/seedmatrix.sh [out.md]: applies every recorded seeded change to a
# scratch worktree of /repo HEAD and runs the quick check of its property
# against it (regression of the detection record after the checks or the
# library changed).  A patch that no longer applies (the code was repaired or
# restructured since) is reported as such.
VD=$(cd "$(dirname "$0")/.." && pwd)
OUT=${1:-$VD/seeded/MATRIX.md}
export GOFLAGS=-mod=mod GOPROXY=off GOSUMDB=off GOTOOLCHAIN=local
echo "| seed | patch | check exit | first violated obligation |" > $OUT
echo "|---|---|---|---|" >> $OUT
for d in $(ls -d $VD/seeded/C* | sort); do
  s=$(basename $d); id=$(echo $s | cut -c1-3)
  W=/tmp/sm-$s
  git -C /repo worktree remove --force $W 2>/dev/null
  git -C /repo worktree add -q --detach $W HEAD || continue
  if git -C $W apply $d/patch.diff 2>/dev/null; then
    mkdir -p $VD/.work
    (cd $VD && VERIF_REPO=$W ./check $id quick > $VD/.work/sm-$s.log 2>&1); rc=$?
    first=$(grep "violated obligation" $VD/.work/sm-$s.log | head -1 | sed 's/^ *violated obligation //' | cut -c1-110)
    echo "| $s | applies | $rc | $first |" >> $OUT
  else
    echo "| $s | does not apply to HEAD | - | - |" >> $OUT
  fi
  git -C /repo worktree remove --force $W
done
