#!/bin/sh
# tools/harvestp.sh <Cnn> <round>: like harvest.sh, but runs the validation and
# the check from a scratch copy of /verif (/tmp/vfc-<Cnn>), so that several
# changes can be harvested at the same time (generated harness sources are
# rewritten per run from the tree under test; copies keep them apart).
ID=$1; R=$2
VD=$(cd "$(dirname "$0")/.." && pwd)
ST=/tmp/s$R-stage/$ID
mkdir -p $ST $VD/.work
cp /tmp/s$R-$ID-SEED/* $ST/ 2>/dev/null || cp /tmp/s$R-$ID/SEED/* $ST/ 2>/dev/null
git -C /repo worktree remove --force /tmp/s$R-$ID 2>/dev/null
C=/tmp/vfc-$ID
rm -rf $C; mkdir -p $C
(cd $VD && tar cf - --exclude=.git --exclude=.work --exclude=replays --exclude=evidence .) | (cd $C && tar xf -)
mkdir -p $C/evidence
sh $C/tools/seedtest.sh $ID $ST ${3:-quick} > $VD/.work/seed$R-$ID.out 2>&1
cp $C/.work/seed-$ID.log $VD/.work/seed$R-$ID.log 2>/dev/null
rm -rf $C
cat $VD/.work/seed$R-$ID.out
