#!/bin/sh
# tools/seedtest.sh <Cnn> <seed dir with patch.diff, seed_demo_test.go, demo_pkg.txt> [tier]
# Validates a seeded change in a scratch worktree of /repo (compiles, existing
# tests pass, demo fails with it and passes without it) and runs the check of
# the property against that worktree (VERIF_REPO).  Nothing is applied to /repo.
ID=$1; SD=$2; TIER=${3:-quick}
VD=$(cd "$(dirname "$0")/.." && pwd)   # the verif tree this script lives in (a scratch copy works too)
export GOFLAGS=-mod=mod GOPROXY=off GOSUMDB=off GOTOOLCHAIN=local
W=/tmp/sv-$ID
git -C /repo worktree remove --force $W 2>/dev/null
git -C /repo worktree add -q --detach $W HEAD || exit 2
PKG=$(cat $SD/demo_pkg.txt | tr -d ' \n')
cd $W || exit 2
cp $SD/seed_demo_test.go $W/$PKG/seed_demo_test.go
echo "== demo WITHOUT the change (must pass)"; go test -vet=off -count=1 -run 'SeedDemo|Seed' ./$PKG 2>&1 | tail -3
git apply $SD/patch.diff || { echo "PATCH DOES NOT APPLY"; exit 2; }
echo "== build"; go build ./... 2>&1 | tail -3
mv $W/$PKG/seed_demo_test.go /tmp/sv-$ID-demo.go
echo "== existing suite WITH the change (must pass)"; go test -vet=off -count=1 ./... 2>&1 | grep -v "no test files" | grep -v "^ok" | head -5; echo "(suite done)"
mv /tmp/sv-$ID-demo.go $W/$PKG/seed_demo_test.go
echo "== demo WITH the change (must fail)"; go test -vet=off -count=1 -run 'SeedDemo|Seed' ./$PKG 2>&1 | tail -4
rm -f $W/$PKG/seed_demo_test.go
echo "== check $ID $TIER against the changed tree"
mkdir -p $VD/.work; cd $VD && VERIF_REPO=$W ./check $ID $TIER > $VD/.work/seed-$ID.log 2>&1; echo "check exit=$?"
grep -E "^VIOLATION|^KNOWN|INCONCLUSIVE|ENGINE" $VD/.work/seed-$ID.log | head -8 | cut -c1-220
grep "violated obligation" $VD/.work/seed-$ID.log | head -4 | cut -c1-260
git -C /repo worktree remove --force $W
