#!/bin/sh
# tools/seedrun.sh <Cnn> <patch.diff> [tier]: applies a change to a scratch
# worktree of /repo HEAD, runs the check of the property against it and
# removes the worktree.  Prints the exit code and the violated obligations.
ID=$1; P=$2; TIER=${3:-quick}
VD=$(cd "$(dirname "$0")/.." && pwd)
W=/tmp/sr-$ID-$$
git -C /repo worktree add -q --detach $W HEAD || exit 2
if ! git -C $W apply $P; then echo "$ID: PATCH DOES NOT APPLY"; git -C /repo worktree remove --force $W; exit 2; fi
mkdir -p $VD/.work
(cd $VD && VERIF_REPO=$W ./check $ID $TIER > $VD/.work/sr-$ID.log 2>&1); rc=$?
echo "$ID rc=$rc $(grep -c '^VIOLATION' $VD/.work/sr-$ID.log) violations"
grep "violated obligation" $VD/.work/sr-$ID.log | sed 's/^ *violated obligation //' | cut -c1-160 | sort | uniq -c | sort -rn | head -4
grep -E "INCONCLUSIVE" $VD/.work/sr-$ID.log | head -3 | cut -c1-200
git -C /repo worktree remove --force $W
