#!/bin/sh
# tools/seedrunp.sh <Cnn> <patch.diff> [tier] [tag]: like seedrun.sh, but from a
# scratch copy of /verif (so evidence/ and generated harness files of /verif
# are untouched and several runs may go on at once).
ID=$1; P=$2; TIER=${3:-quick}; TAG=${4:-$ID}
VD=$(cd "$(dirname "$0")/.." && pwd)
W=/tmp/srp-$TAG-$$; C=/tmp/vfr-$TAG-$$
git -C /repo worktree add -q --detach $W HEAD || exit 2
if ! git -C $W apply $P; then echo "$TAG: PATCH DOES NOT APPLY"; git -C /repo worktree remove --force $W; exit 2; fi
mkdir -p $C $VD/.work
(cd $VD && tar cf - --exclude=.git --exclude=.work --exclude=replays --exclude=evidence .) | (cd $C && tar xf -)
mkdir -p $C/evidence
(cd $C && VERIF_REPO=$W ./check $ID $TIER > $VD/.work/sr-$TAG.log 2>&1); rc=$?
echo "$TAG rc=$rc $(grep -c '^VIOLATION' $VD/.work/sr-$TAG.log) violations"
grep "violated obligation" $VD/.work/sr-$TAG.log | sed 's/^ *violated obligation //' | cut -c1-160 | sort | uniq -c | sort -rn | head -4
grep -E "INCONCLUSIVE" $VD/.work/sr-$TAG.log | head -3 | cut -c1-200
git -C /repo worktree remove --force $W; rm -rf $C
